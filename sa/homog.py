"""HOMOG — degree-of-homogeneity analysis ("units" of the right-hand side), a small type system over AbsInt.

Every value is given the degree d such that scaling the right-hand side b by s scales the value by s**d:
b has degree 1; the operator, the preconditioner, tolerances, iteration counts and non-zero literals have
degree 0; exact zeros (the default initial guess, zeros(...)) and division guards (|c| <= 1e-20) are
homogeneous of every degree ("free").  Products add degrees, quotients subtract, sums and selections need
equal degrees -- otherwise the value is MIXED (it is not a homogeneous function of b).

Two sinks are judged by the property assemblies: the comparison of the stopping test (both sides must have
the same degree: a relative tolerance) and the returned solution (degree 1: linear in b).  Comparisons
elsewhere (tiny-denominator guards) are recorded but not judged.
"""
import ast
from fractions import Fraction

from sa import dataflow as df
from sa.absint import AbsInt  # noqa: F401
from sa.forward import Forward

FREE = ("free", )
OP = ("op", Fraction(0))
GUARD_MAX = 1e-20

SAME_AS_FIRST = {"norm", "abs", "conj", "sum", "mean", "max", "min", "copy", "cast", "reshape", "expand", "moveaxis", "permute", "stop_gradients", "real", "nan_to_num", "move_to",
                 "update_array", "concat", "concatenate", "stack", "clip", "maximum", "minimum"}
ZERO_LIKE = {"zeros", "zeros_like"}
DEG0 = {"ones", "ones_like", "eye", "arange", "any", "all", "isfinite", "finfo", "get_device", "PRNGKey", "randn", "sign", "argsort", "logical_not", "logical_or", "logical_and"}


def deg(*ds):
    """element-wise alternatives: every element of the value is homogeneous of one of these degrees"""
    return ("deg", frozenset(Fraction(d) for d in ds))


BOTTOM = ("deg", frozenset())  # no information yet (value of a loop-carried name met again while it is being evaluated)


def op(d=0):
    return ("op", Fraction(d))


MAX_DEGS = 6


def degset(xs):
    """widening: a value that keeps collecting degrees through loop rounds has no useful homogeneity description"""
    xs = frozenset(xs)
    return ("deg", xs) if len(xs) <= MAX_DEGS else ("unknown", "more than %d degrees" % MAX_DEGS)


def single(v):
    return is_deg(v) and len(v[1]) == 1


def the(v):
    return next(iter(v[1]))


def mixed(why):
    return ("mixed", why)


def is_deg(v):
    return isinstance(v, tuple) and v and v[0] == "deg"


def show(v):
    if v == FREE:
        return "any degree (exact zero / guard)"
    if isinstance(v, tuple) and v and v[0] == "op":
        return "operator" + (f" of degree {v[1]}" if v[1] else "")
    if is_deg(v):
        return ("degree " + " or ".join(str(x) for x in sorted(v[1]))) if v[1] else "no information"
    if isinstance(v, tuple) and v and v[0] == "mixed":
        return f"MIXED ({v[1]})"
    if isinstance(v, tuple) and v and v[0] == "tuple":
        return "(" + ", ".join(show(x) for x in v[1]) + ")"
    return f"unknown ({v[1] if isinstance(v, tuple) and len(v) > 1 else v})"


class LoopCalls:
    """xnp.while_loop_winfo(...) returns a loop runner that is later called with (cond_fun, body_fun, init_val)"""
    WHILEFN = ("whilefn", )

    def loop_parts(self, node):
        kw = {k.arg: k.value for k in node.keywords if k.arg}
        parts = [kw.get(n) for n in ("cond_fun", "body_fun", "init_val")]
        if all(p is None for p in parts) and len(node.args) == 3:
            parts = list(node.args)
        return parts if all(p is not None for p in parts) else None

    def call_opaque(self, node, fval, ctx):
        parts = self.loop_parts(node)
        if parts is not None and (fval == self.WHILEFN or isinstance(node.func, ast.Name)):
            vals = [self.ev(p, ctx) for p in parts]
            if all(isinstance(v, tuple) and v and v[0] in ("closure", "function") for v in vals[:2]):
                return self.run_while(vals[0], vals[1], vals[2], ctx)
        return self.unknown(ast.unparse(node.func)[:30] + "()")


class Degree(LoopCalls, Forward):
    AUG_KEEPS_VALUE = False
    ENV_REBINDING = True
    MAX_DEPTH = 60

    def __init__(self, idx, seeds):
        """seeds: {(id(function node), parameter name): value}"""
        super().__init__(idx)
        self.seeds = seeds
        self.comparisons = []  # (node, fi, left value, right value)
        self.floors = []  # (node, fi, guarded value, bound)   for clip / maximum / minimum

    def bottom(self):
        return BOTTOM

    def eval_module_value(self, r):
        if isinstance(r.val, ast.Constant):
            return self.const(r.val)
        if isinstance(r.val, ast.UnaryOp) and isinstance(r.val.operand, ast.Constant):
            return self.const(r.val.operand)
        return self.unknown("module value")

    # ---- lattice
    @staticmethod
    def is_unknown(v):
        return isinstance(v, tuple) and v and v[0] == "unknown"

    def unify(self, a, b, what="sum"):
        """value of a + b / where(c, a, b) / join of branches"""
        for x in (a, b):
            if isinstance(x, tuple) and x and x[0] == "mixed":
                return x
        for x in (a, b):
            if self.is_unknown(x):
                return x
        if a == FREE:
            return b
        if b == FREE:
            return a
        if is_deg(a) and is_deg(b):
            if a == b or not b[1]:
                return a
            if not a[1]:
                return b
            if what in ("join", "store"):
                return degset(a[1] | b[1])  # alternatives / different elements of one array
            if single(a) and single(b):
                return mixed(f"{what} of a term of degree {the(a)} and a term of degree {the(b)}")
            return degset(a[1] | b[1])  # element-wise alternatives on either side: no claim
        if a[0] == "op" and b[0] == "op":
            return a if a == b else self.unknown(f"{what} of operators of different degree")
        return self.unknown(f"{what} of {show(a)} and {show(b)}")

    def join(self, vals):
        vals = list(vals)
        if vals and all(isinstance(v, tuple) and v and v[0] == "tuple" for v in vals) and len({len(v[1]) for v in vals}) == 1:
            return ("tuple", tuple(self.join([v[1][i] for v in vals]) for i in range(len(vals[0][1]))))
        out = None
        for v in vals:
            out = v if out is None else self.unify(out, v, "join")
        return out if out is not None else BOTTOM

    def mul(self, a, b, sign=1):
        for x in (a, b):
            if isinstance(x, tuple) and x and x[0] == "mixed":
                return x
        for x in (a, b):
            if self.is_unknown(x):
                return x
        if a == FREE or (b == FREE and sign == 1):
            return FREE
        if a[0] == "op" and b[0] == "op":
            return ("op", a[1] + sign * b[1])
        if a[0] == "op":
            return degset(x + a[1] for x in b[1]) if sign == 1 and is_deg(b) else self.unknown("division by an operator")
        if b[0] == "op":
            return degset(x + b[1] for x in a[1]) if sign == 1 and is_deg(a) else self.unknown("division by an operator")
        if is_deg(a) and is_deg(b):
            return degset(x + sign * y for x in a[1] for y in b[1])
        if is_deg(a) and b == FREE:  # division by a guard constant
            return a
        return self.unknown(f"product of {show(a)} and {show(b)}")

    # ---- hooks
    def const(self, node):
        v = node.value
        if isinstance(v, bool) or v is None or isinstance(v, str):
            return deg(0)
        if isinstance(v, (int, float, complex)):
            if v == 0 or abs(v) <= GUARD_MAX:
                return FREE
            return deg(0)
        return deg(0)

    def param(self, fi, name):
        return self.seeds.get((id(fi.node), name), self.unknown(f"parameter {name} of {fi.short}"))

    def self_attr(self, fi, attr, node):
        return self.unknown(f"self.{attr}")

    def attribute(self, base, attr, node, ctx):
        if attr in ("T", "H", "real", "imag"):
            return base
        if attr in ("shape", "dtype", "device", "ndim", "size", "xnp"):
            return deg(0)
        return self.unknown(f".{attr}")

    def subscript(self, base, node, ctx):
        if isinstance(base, tuple) and base and base[0] in ("tuple", "join"):
            s = node.slice
            if isinstance(s, ast.Constant) and isinstance(s.value, int):
                return self.index(base, s.value)
            if isinstance(s, ast.UnaryOp) and isinstance(s.op, ast.USub) and isinstance(s.operand, ast.Constant):
                return self.index(base, -s.operand.value)
            return self.index(base, "*")
        return base

    def element_of(self, v, i):
        return v

    def binop(self, node, left, right, ctx):
        op = node.op
        if isinstance(op, (ast.Add, ast.Sub)):
            return self.unify(left, right, "sum")
        if isinstance(op, (ast.Mult, ast.MatMult)):
            return self.mul(left, right, 1)
        if isinstance(op, (ast.Div, ast.FloorDiv)):
            return self.mul(left, right, -1)
        if isinstance(op, ast.Pow):
            e = node.right
            if isinstance(e, ast.Constant) and isinstance(e.value, (int, float)) and is_deg(left):
                return ("deg", frozenset(x * Fraction(e.value).limit_denominator(64) for x in left[1]))
            if left == FREE:
                return FREE
            return self.unknown("power")
        if isinstance(op, (ast.BitAnd, ast.BitOr, ast.BitXor)):
            return deg(0)
        return self.unknown("binop")

    def unaryop(self, node, val, ctx):
        if isinstance(node.op, ast.Not):
            return deg(0)
        return val

    def other(self, node, ctx):
        if isinstance(node, ast.Compare):
            l = self.ev(node.left, ctx)
            for c in node.comparators:
                r = self.ev(c, ctx)
                self.comparisons.append((node, ctx.fi, l, r))
            return deg(0)
        if isinstance(node, (ast.List, ast.ListComp, ast.Dict, ast.Lambda)):
            return deg(0)
        return self.unknown(type(node).__name__)

    def call_xnp(self, name, node, args, kwargs, ctx):
        if name in ZERO_LIKE:
            return FREE
        if name in DEG0:
            return deg(0)
        if name == "array":
            return args[0] if args else deg(0)
        if name == "sqrt":
            a = args[0] if args else self.unknown("sqrt")
            return ("deg", frozenset(x / 2 for x in a[1])) if is_deg(a) else a
        if name == "where" and len(args) == 3:
            return self.unify(args[1], args[2], "selection")
        if name in ("maximum", "minimum", "clip") and args:
            bounds = list(args[1:]) + [v for k, v in kwargs.items() if k in ("a_min", "a_max", "min", "max")]
            out = args[0]
            for b in bounds:
                self.floors.append((node, ctx.fi, args[0], b))
                out = self.unify(out, b, "join")
            return out
        if name == "update_array" and len(args) >= 2:
            return self.unify(args[0], args[1], "store")
        if name in SAME_AS_FIRST and args:
            return args[0]
        if name == "while_loop" and len(args) >= 3:
            return self.run_while(args[0], args[1], args[2], ctx)
        if name == "for_loop" and len(args) >= 4:
            return self.run_for(args[2], args[3], ctx, index_value=deg(0))
        if name == "while_loop_winfo":
            return ("tuple", (self.WHILEFN, self.unknown("loop info")))
        if name == "jit" and args:
            return args[0]
        return self.unknown(f"xnp.{name}")

    def call_builtin(self, name, node, args, kwargs, ctx):
        if name in ("len", "int", "bool", "range", "isinstance", "hasattr"):
            return deg(0)
        if name in ("abs", "float", "complex", "sum", "max", "min") and args:
            return args[0]
        return self.unknown(f"{name}()")

    def call_class(self, ci, node, args, kwargs, ctx):
        if any(c.name == "LinearOperator" for c in self.idx.mro(ci)):
            if args and single(args[0]):
                return ("op", the(args[0]))
            return OP
        return self.unknown(f"{ci.name}()")

    def call_dispatch(self, fname, node, args, kwargs, ctx):
        return args[0] if args and isinstance(args[0], tuple) and args[0] and args[0][0] == "op" and fname in ("lazify", "transpose", "adjoint") else self.unknown(f"{fname}()")

    def call_method(self, recv, name, node, args, kwargs, ctx):
        if name in ("reshape", "conj", "sum", "mean", "copy", "astype", "to", "real", "max", "min", "squeeze", "flatten", "ravel", "transpose"):
            return recv
        return self.unknown(f".{name}()")



class Origin(LoopCalls, Forward):
    """where a value comes from: ('param', function, name) for an untouched parameter of a seeded function, ('derived', how) for
    anything computed from it (min(...), arithmetic); used for the iteration cap of the stopping test"""
    ENV_REBINDING = True

    def __init__(self, idx, roots):
        super().__init__(idx)
        self.roots = roots  # ids of function nodes whose parameters are origins
        self.comparisons = []

    def param(self, fi, name):
        return ("param", fi.short, name) if id(fi.node) in self.roots else self.unknown(f"parameter {name}")

    def const(self, node):
        return ("const", repr(node.value))

    def join(self, vals):
        vals = list(vals)
        if vals and all(isinstance(v, tuple) and v and v[0] == "tuple" for v in vals) and len({len(v[1]) for v in vals}) == 1:
            return ("tuple", tuple(self.join([v[1][i] for v in vals]) for i in range(len(vals[0][1]))))
        flat = set(vals)
        return next(iter(flat)) if len(flat) == 1 else ("derived", "join of " + " / ".join(sorted(self.text(v) for v in flat))[:120])

    @staticmethod
    def text(v):
        if isinstance(v, tuple) and v and v[0] == "param":
            return f"parameter {v[2]} of {v[1]}"
        if isinstance(v, tuple) and v and v[0] == "derived":
            return v[1]
        if isinstance(v, tuple) and v and v[0] == "const":
            return v[1]
        return "?"

    def binop(self, node, left, right, ctx):
        return ("derived", f"`{ast.unparse(node)}`"[:80])

    def subscript(self, base, node, ctx):
        if isinstance(base, tuple) and base and base[0] == "tuple":
            s = node.slice
            if isinstance(s, ast.Constant) and isinstance(s.value, int):
                return self.index(base, s.value)
            return self.index(base, "*")
        return ("derived", f"`{ast.unparse(node)}`"[:80])

    def call_builtin(self, name, node, args, kwargs, ctx):
        return ("derived", f"`{ast.unparse(node)}`"[:80])

    def call_xnp(self, name, node, args, kwargs, ctx):
        if name == "while_loop" and len(args) >= 3:
            return self.run_while(args[0], args[1], args[2], ctx)
        if name == "for_loop" and len(args) >= 4:
            return self.run_for(args[2], args[3], ctx)
        if name == "while_loop_winfo":
            return ("tuple", (self.WHILEFN, self.unknown("loop info")))
        if name == "jit" and args:
            return args[0]
        return ("derived", f"`{ast.unparse(node)}`"[:80])

    def other(self, node, ctx):
        if isinstance(node, ast.Compare):
            l = self.ev(node.left, ctx)
            for c in node.comparators:
                self.comparisons.append((node, ctx.fi, l, self.ev(c, ctx)))
            return ("derived", "comparison")
        return self.unknown(type(node).__name__)


# ------------------------------------------------------------------------------------------------
RHS_NAMES = ("b", "rhs", "B")
GUESS_NAMES = ("x0", )
OPERATOR_NAMES = ("A", "preconditioner", "P", "M")


def solver_scale_obligations(idx, rep, routine, cond_fns, rule, construct, counter_text=None, cap_param="max_iters"):
    """HOMOG obligations of an iterative solver routine (parameters classified by name: right-hand side degree 1,
    initial guess free, operators, everything else degree 0):
      * every comparison evaluated by the stopping test compares quantities of one degree (a relative tolerance);
      * the first returned component (the solution) has degree 1;
      * the iteration cap compared with the counter is the caller's parameter itself (ORIGIN)."""
    rhs = next((p for p in routine.params if p in RHS_NAMES), None)
    if rhs is None:
        rep.undecided(rule, f"{construct}:scale", f"no right-hand-side parameter among {routine.params}")
        return
    bound = {p: (deg(1) if p == rhs else FREE if p in GUESS_NAMES else OP if p in OPERATOR_NAMES else deg(0)) for p in routine.params}
    d = Degree(idx, {})
    rets = [r for r in df.returns(routine.node) if r.value is not None][-1:]
    vals = [d.run_function(routine, bound)]
    cond_ids = {id(f.node) for f in cond_fns}
    seen = set()
    n = 0
    for node, fi, l, r in d.comparisons:
        if id(fi.node) not in cond_ids or id(node) in seen:
            continue
        seen.add(id(node))
        n += 1
        text = ast.unparse(node)
        loc = [idx.loc(fi.module, node)]
        bad = next((x for x in (l, r) if isinstance(x, tuple) and x and x[0] == "mixed"), None)
        if bad is not None:
            rep.refuted(rule, f"{construct}:stopping-test#{n}", f"`{text}` compares {show(l)} with {show(r)}: the threshold is not a homogeneous function of the right-hand side, so the "
                        f"tolerance is absolute for small ||{rhs}|| and the solve is not scale-invariant", detail="mixed", locs=loc)
        elif (single(l) or l == FREE) and (single(r) or r == FREE):
            ok = l == FREE or r == FREE or l == r
            rep.decide(ok, rule, f"{construct}:stopping-test#{n}", f"`{text}` compares {show(l)} with {show(r)}" + ("" if ok else f": residual and threshold scale differently with ||{rhs}||"),
                       detail="" if ok else "degree", locs=loc)
        else:
            rep.undecided(rule, f"{construct}:stopping-test#{n}", f"`{text}`: {show(l)} vs {show(r)}", locs=loc)
    if not n:
        rep.undecided(rule, f"{construct}:stopping-test", "no comparison of the stopping test was reached by the evaluation")
    for r, v in zip(rets, vals):
        first = v[1][0] if isinstance(v, tuple) and v and v[0] == "tuple" and v[1] else v
        loc = [idx.loc(routine.module, r)]
        if single(first):
            ok = the(first) == 1
            rep.decide(ok, rule, f"{construct}:solution", f"the returned solution has {show(first)} in `{rhs}`" + ("" if ok else ": it must scale linearly with the right-hand side (normalisation not undone / applied twice)"),
                       detail="" if ok else "degree", locs=loc)
        elif isinstance(first, tuple) and first and first[0] == "mixed":
            rep.refuted(rule, f"{construct}:solution", f"the returned solution is {show(first)}", detail="mixed", locs=loc)
        else:
            rep.undecided(rule, f"{construct}:solution", f"degree of the returned solution: {show(first)}", locs=loc)
    # ---- ORIGIN of the cap
    if cap_param in routine.params:
        roots = {id(routine.node)}
        o = Origin(idx, roots)
        o.run_function(routine, {p: ("param", routine.short, p) for p in routine.params})
        caps = [(node, fi, l, r) for node, fi, l, r in o.comparisons if id(fi.node) in cond_ids and any(isinstance(x, tuple) and x and x[0] == "param" and x[2] == cap_param for x in (l, r))]
        derived = [(node, fi, l, r) for node, fi, l, r in o.comparisons if id(fi.node) in cond_ids and any(isinstance(x, tuple) and x and x[0] == "derived" and cap_param in x[1] for x in (l, r))]
        if caps:
            node, fi, l, r = caps[0]
            rep.proved(rule, f"{construct}:cap-origin", f"`{ast.unparse(node)}` tests the counter against the caller's `{cap_param}` itself", locs=[idx.loc(fi.module, node)])
        elif derived:
            node, fi, l, r = derived[0]
            how = next(x[1] for x in (l, r) if isinstance(x, tuple) and x and x[0] == "derived" and cap_param in x[1])
            rep.refuted(rule, f"{construct}:cap-origin", f"`{ast.unparse(node)}` tests the counter against {how}, not against the caller's `{cap_param}`: the loop can stop before `{cap_param}` steps "
                        "with residuals above the tolerance", detail="derived", locs=[idx.loc(fi.module, node)])
        else:
            rep.undecided(rule, f"{construct}:cap-origin", f"no comparison with `{cap_param}` reached in the stopping test")


def krylov_floor_obligations(idx, rep, fact, init, rule, helpers=()):
    """HOMOG in the scale of the OPERATOR (A has degree 1, the start vector degree 0): a Krylov factorisation is invariant
    under scaling of A (Q unchanged, H / T scaled), so a floor (clip / maximum bound) that guards a quantity of non-zero degree
    must scale the same way; an absolute floor normalises by the floor instead of the norm for small-scale operators (or loose
    tolerances) and the basis is no longer orthonormal."""
    d = Degree(idx, {})
    init_val = d.run_function(init, {p: deg(0) for p in init.params})
    env_f = {}
    for i, p in enumerate(fact.params):
        env_f[p] = op(1) if i == 0 else (init_val if p in ("init_val", "state", "init") else deg(0))
    d.run_function(fact, env_f)
    scope = set()

    def walk(f):
        scope.add(id(f.node))
        for g in f.nested.values():
            walk(g)
    walk(fact)
    for h in helpers:
        walk(h)
    # one obligation per floor site.  Recordings are judged in evaluation order and only until the first inhomogeneous floor:
    # once a vector has been divided by max(norm, absolute bound) nothing downstream is homogeneous any more, so later
    # recordings (further loop rounds) describe the consequences of that floor, not independent defects
    sites = {}
    polluted = False
    for node, fi, x, b in d.floors:
        if id(fi.node) not in scope:
            continue
        st = sites.setdefault(id(node), {"node": node, "fi": fi, "verdict": None, "x": x, "b": b})
        if polluted or st["verdict"] == "REFUTED":
            continue
        if b in (FREE, BOTTOM):
            st["verdict"] = st["verdict"] or "GUARD"
        elif is_deg(x) and x[1] and single(b):
            if any(v != the(b) for v in x[1]):
                st.update(verdict="REFUTED", x=x, b=b)
                polluted = True
            else:
                st["verdict"] = "PROVED"
                st.update(x=x, b=b)
    n = 0
    for st in sites.values():
        node, top, x, b = st["node"], st["fi"], st["x"], st["b"]
        n += 1
        construct = f"{fact.short}:floor#{n}"
        loc = [idx.loc(top.module, node)]
        text = ast.unparse(node)
        if st["verdict"] == "GUARD":
            rep.proved(rule, construct, f"`{text}`: the bound is a pure division guard", locs=loc, nontrivial=False)
        elif st["verdict"] == "PROVED":
            rep.proved(rule, construct, f"`{text}`: guarded quantity and bound both have {show(b)} in the scale of the operator", locs=loc)
        elif st["verdict"] == "REFUTED":
            rep.refuted(rule, construct, f"`{text}`: the guarded quantity has {show(x)} in the scale of the operator, the bound has {show(b)}: an absolute floor. For an operator of small scale "
                        "(or a loose tolerance) the vector is divided by the floor instead of its norm, so the basis is not orthonormal although no breakdown occurred", detail="absolute",
                        locs=loc)
        else:
            rep.undecided(rule, construct, f"`{text}`: guarded {show(x)}, bound {show(b)}", locs=loc)
    if not n:
        rep.note(f"{fact.short}: no clip / maximum / minimum bound in the factorisation loop")
    return n
