"""C08 — exact diag / trace (DESIGN.md section 4, C08).

1. k-guard: a structural diag rule whose formula is not k-generic must refuse k != 0; a k-generic one must use k;
2. lengths of the off-diagonals a rule builds itself are n - |k|;
3. rule algebra: recursive calls keep (k, alg); outer-product idiom of Kronecker / KronSum puts factor i on
   axis i (row-major) with the right reduction; BlockDiag concatenates with multiplicities; trace rules;
4. the Exact / Hutch base case forwards (A, k);  5. Auto: the smaller-tolerance branch constructs Exact.
"""
import ast

from sa import dataflow as df
from sa.resolver import Resolver

K_GENERIC = {"Sum", "ScalarMul", "Dense", "Identity", "Diagonal"}  # oracle: formulas valid for every offset k
NOT_K_GENERIC = {"BlockDiag", "Kronecker", "KronSum"}  # oracle: outer-product / concatenation formulas hold for k = 0 only


def nospace(n):
    return ast.unparse(n).replace(" ", "")


def refuses_nonzero_k(fi, k):
    """an `assert k == 0` / `if k != 0: raise` at function level before any return"""
    first_ret = min([r.lineno for r in df.returns(fi.node)] or [10**9])
    for st in fi.node.body:
        if getattr(st, "lineno", 0) > first_ret:
            break
        if isinstance(st, ast.Assert) and nospace(st.test) in (f"{k}==0", f"0=={k}", f"not{k}"):
            return True
        if isinstance(st, ast.If) and nospace(st.test) in (f"{k}!=0", f"{k}") and any(isinstance(x, ast.Raise) for x in ast.walk(st)):
            return True
    return False


def uses_k(fi, k):
    """k reaches the returned value: it is passed to a call, used in a shape, or tested by a branch that selects the return"""
    for r in df.returns(fi.node):
        if r.value is not None and k in df.names_in(r.value):
            return True
    asg = df.assignments(fi.node)
    for r in df.returns(fi.node):
        if r.value is None:
            continue
        work, seen = list(df.names_in(r.value)), set()
        while work:
            n = work.pop()
            if n in seen:
                continue
            seen.add(n)
            for v, p, st in asg.get(n, []):
                ns = df.names_in(v.value if isinstance(v, ast.AugAssign) else v)
                if k in ns:
                    return True
                work += list(ns)
    for n in df.body_nodes(fi.node):
        if isinstance(n, ast.If) and k in df.names_in(n.test) and any(isinstance(x, ast.Return) for x in ast.walk(n)):
            return True
    return False


def run(idx, rep, tier):
    core = frozenset(idx.core_modules())
    res = Resolver(idx, core)
    rules = res.rules_of("diag")
    if not rules:
        rep.missing_anchor("dispatched function diag")
    for rule in rules:
        fi = rule.func
        if len(rule.params) < 3:
            continue
        a, k, algp = (p[0] for p in rule.params[:3])
        kinds, algs = sorted(rule.types[0]), sorted(rule.types[2])
        construct = rule.role
        if algs == ["Auto"]:
            auto_selection(idx, rep, rule)
            continue
        if kinds == ["LinearOperator"]:
            # base case: alg(A, k)
            calls = [c for c in df.calls(fi.node) if isinstance(c.func, ast.Name) and c.func.id == algp]
            ok = bool(calls) and [ast.unparse(x) for x in calls[0].args] == [a, k]
            rep.decide(ok, "base-case", construct, f"calls the algorithm object with ({', '.join(ast.unparse(x) for x in calls[0].args) if calls else '-'})" + ("" if ok else f"; required ({a}, {k})"),
                       detail="" if ok else "args", locs=[rule.loc])
            continue
        kind = kinds[0] if len(kinds) == 1 else None
        refuses, uses = refuses_nonzero_k(fi, k), uses_k(fi, k)
        # ---- 1. k-guard
        if kind in NOT_K_GENERIC:
            rep.decide(True if refuses else False, "k-guard", construct,
                       f"the {kind} formula holds for the main diagonal only; the rule " + ("refuses k != 0" if refuses else "does not refuse k != 0 and would return values that are not the k-th diagonal"),
                       detail="" if refuses else "no-refusal", locs=[rule.loc])
        elif kind in K_GENERIC:
            ok = uses or refuses
            rep.decide(ok, "k-guard", construct, ("the offset k reaches the result" if uses else "refuses k != 0") if ok else "the offset k is ignored: the main diagonal is returned for every k",
                       detail="" if ok else "k-ignored", locs=[rule.loc])
        else:
            rep.decide(True if (uses or refuses) else None, "k-guard", construct, "rule for a kind without oracle entry " + ("uses k / refuses" if (uses or refuses) else "ignores k"), locs=[rule.loc])
        # ---- 2. lengths of self-built off-diagonals
        for c in df.calls(fi.node):
            if df.is_xnp_call(c) in ("zeros", "ones") and c.args and isinstance(c.args[0], ast.Tuple) and c.args[0].elts:
                shp = nospace(c.args[0].elts[0]).replace("[-1]", "[0]").replace("[-2]", "[0]").replace("[1]", "[0]")
                in_else = any(isinstance(p, ast.If) and k in df.names_in(p.test) for p in parents(c, fi.node))
                if not in_else:
                    continue
                conds = df.branch_conditions(c, fi.node)
                in_zero_branch = any(nospace(t) in (f"{k}==0", f"0=={k}") and pol for t, pol in conds) or any(nospace(t) == k and not pol for t, pol in conds)
                want = f"{a}.shape[0]" if in_zero_branch else f"{a}.shape[0]-abs({k})"
                ok = shp == want
                rep.decide(ok, "diag-length", f"{construct}:{'k=0' if in_zero_branch else 'k!=0'}", f"builds a vector of length {nospace(c.args[0].elts[0])}" + ("" if ok else f"; required {want}"),
                           detail="" if ok else "length", locs=[idx.loc(fi.module, c)])
        # ---- 3a. a rule for an n-ary composite must not handle a fixed number of parts without pinning that number
        from sa.autorule import arity_coverage
        for ok_, text_, node_ in arity_coverage(idx, rule):
            rep.decide(ok_, "part-coverage", construct, text_, detail="" if ok_ else "fixed-arity", locs=[idx.loc(fi.module, node_)])
        # ---- 3. rule algebra
        rec = [c for c in df.calls(fi.node) if isinstance(c.func, ast.Name) and c.func.id == "diag"]
        if rec:
            ok = all(len(c.args) >= 3 and ast.unparse(c.args[1]) == k and ast.unparse(c.args[2]) == algp for c in rec)
            rep.decide(ok, "forwarded", construct, "recursive diag calls keep the same k and algorithm" if ok else "a recursive diag call changes or drops k / alg", detail="" if ok else "args", locs=[rule.loc])
        if kind in ("Kronecker", "KronSum"):
            outer_idiom(idx, rep, rule, kind)
        if kind == "BlockDiag":
            txt = nospace(fi.node)
            uses_mult = f"{a}.multiplicities" in txt
            # each block's diagonal is repeated by its multiplicity: `[d] * m`, or a nested comprehension `... for _ in range(m)`
            zips = [n for n in ast.walk(fi.node) if isinstance(n, ast.Call) and isinstance(n.func, ast.Name) and n.func.id == "zip" and any(nospace(x) == f"{a}.multiplicities" for x in n.args)]
            mvars = {e.id for n in ast.walk(fi.node) if isinstance(n, ast.comprehension) and any(z is n.iter or (isinstance(n.iter, ast.Name) and df.resolve_value(fi.node, n.iter) is z) for z in zips) and isinstance(n.target, ast.Tuple)
                     for e in n.target.elts[-1:] if isinstance(e, ast.Name)}
            repl_list = any(isinstance(n, ast.BinOp) and isinstance(n.op, ast.Mult) and isinstance(n.left, ast.List) and (set(df.names_in(n.right)) & mvars) for n in ast.walk(fi.node))
            repl_loop = any(isinstance(n, ast.comprehension) and isinstance(n.iter, ast.Call) and nospace(n.iter.func) == "range" and n.iter.args and (set(df.names_in(n.iter.args[0])) & mvars)
                            for n in ast.walk(fi.node))
            # itertools.repeat(d, m)
            repl_list = repl_list or any(isinstance(c.func, (ast.Name, ast.Attribute)) and nospace(c.func).split(".")[-1] == "repeat" and len(c.args) == 2
                                         and (set(df.names_in(c.args[1])) & mvars) for c in df.calls(fi.node))
            cat = any(df.is_xnp_call(c) in ("concat", "concatenate") for c in df.calls(fi.node))
            loads = {n.id for n in ast.walk(fi.node) if isinstance(n, ast.Name) and isinstance(n.ctx, ast.Load)}
            if not uses_mult or (mvars and not (mvars & loads)):
                rep.refuted("rule-algebra", construct, "the multiplicities of the blocks are never used (" + ("not read" if not uses_mult else f"`{sorted(mvars)[0]}` is bound and ignored") +
                            "): repeated blocks contribute their diagonal once", detail="blocks", locs=[rule.loc])
            else:
                ok = bool(zips) and (repl_list or repl_loop) and cat
                rep.decide(True if ok else None, "rule-algebra", construct, "concatenates each block's diagonal repeated by its multiplicity" if ok else
                           f"multiplicities {'zipped' if zips else 'not zipped with the blocks'}, {'replicated' if (repl_list or repl_loop) else 'replication not recognised'}, "
                           f"{'concatenated' if cat else 'no concatenation found'}", locs=[rule.loc])
        if kind == "Sum":
            # the returned vector as a scalar/vector term over the summands: diag(Σ Aᵢ) = Σ diag(Aᵢ)
            from sa.scalar import VAR, ScalarEval, equal as sequal, has_opaque as shas_opaque, show as sshow, snorm
            se = ScalarEval(idx)
            for r in [r for r in df.returns(fi.node) if r.value is not None]:
                t = snorm(se.eval_in(fi, r.value))
                want = snorm(("fsum", ("vec", f"diag({sshow(VAR)})")))
                v = sequal(t, want)
                ok = True if v is True else (None if (v is None or shas_opaque(t)) else False)
                rep.decide(ok, "rule-algebra", construct, f"returns {sshow(t)[:100]}; required {sshow(want)}", detail="" if ok else "sum", locs=[idx.loc(fi.module, r)])
        if kind == "ScalarMul":
            rets = df.returns(fi.node)
            ok = bool(rets) and isinstance(rets[0].value, ast.BinOp) and isinstance(rets[0].value.op, ast.Mult) and f"{a}.c" in nospace(rets[0].value)
            rep.decide(ok, "rule-algebra", construct, "scales the identity's diagonal by the payload" if ok else "payload missing from the result", detail="" if ok else "payload", locs=[rule.loc])
        if kind == "Dense":
            ok = any(df.is_xnp_call(c) == "diag" and any(kw.arg in ("diagonal", "k") and ast.unparse(kw.value) == k for kw in c.keywords) or
                     (df.is_xnp_call(c) == "diag" and len(c.args) > 1 and ast.unparse(c.args[1]) == k) for c in df.calls(fi.node))
            rep.decide(ok, "rule-algebra", construct, "forwards k to the backend diag" if ok else "does not forward k to the backend diag", detail="" if ok else "k", locs=[rule.loc])
    # ---- trace rules
    for rule in res.rules_of("trace"):
        fi = rule.func
        a, algp = rule.params[0][0], rule.params[1][0]
        kinds = sorted(rule.types[0])
        txt = nospace(fi.node)
        if kinds == ["LinearOperator"]:
            # an assert / raise guard whose test says rows == columns (entries of A.shape, also through locals: `rows, cols = A.shape`)
            from props.C16 import _shape_rel
            sq = any((isinstance(st, ast.Assert) and _shape_rel(st.test, a, fi.node) == "r==c") or
                     (isinstance(st, ast.If) and st.body and isinstance(st.body[0], ast.Raise) and _shape_rel(st.test, a, fi.node) == "r!=c") for st in df.body_nodes(fi.node))
            calls = [c for c in df.calls(fi.node) if isinstance(c.func, ast.Name) and c.func.id == "diag"]
            main = bool(calls) and len(calls[0].args) >= 3 and ast.unparse(calls[0].args[0]) == a and ast.unparse(calls[0].args[1]) == "0" and ast.unparse(calls[0].args[2]) == algp
            summed = ".sum()" in txt or "sum(" in txt
            ok = sq and main and summed
            rep.decide(ok, "trace-rule", rule.role, f"squareness {'checked' if sq else 'NOT checked'}; main diagonal with the caller's algorithm {'taken' if main else 'NOT taken'}; {'summed' if summed else 'NOT summed'}",
                       detail="" if ok else "generic", locs=[rule.loc])
        else:
            # structural trace rules: the returned number, as a term over the operand's factors (scalar TERM), against the identity
            # for the kind: tr(⊗ Aᵢ) = Π tr Aᵢ, tr(Σ Aᵢ) = Σ tr Aᵢ, tr(⊕ mᵢ·Aᵢ) = Σ mᵢ tr Aᵢ, tr(⊞ Aᵢ) = Σ tr Aᵢ · n / nᵢ, tr(c I) = c n
            from sa.scalar import VAR, ScalarEval, equal as sequal, has_opaque as shas_opaque, show as sshow, snorm
            TR, SZ = ("trace", VAR), ("size", VAR)
            oracle = {
                "Kronecker": [("fprod", TR)],
                "Sum": [("fsum", TR)],
                "BlockDiag": [("fsum", ("mul", (("mult", VAR), TR)))],
                "KronSum": [("fsum", ("mul", (("fprod", SZ), ("inv", SZ), TR))), ("fsum", ("mul", (("dim", f"{a}.n"), ("inv", SZ), TR)))],
                "ScalarMul": [("mul", (("ssym", f"{a}.c"), ("dim", f"{a}.n")))],
                "Identity": [("dim", f"{a}.n")],
                "Diagonal": [("sum", ("vec", f"{a}.diag"))],
            }
            kind = kinds[0] if len(kinds) == 1 else None
            rec = [c for c in df.calls(fi.node) if isinstance(c.func, ast.Name) and c.func.id == "trace"]
            fwd = all(len(c.args) >= 2 and ast.unparse(c.args[1]) == algp or any(kw.arg == algp and ast.unparse(kw.value) == algp for kw in c.keywords) for c in rec)
            se = ScalarEval(idx)
            for r in [r for r in df.returns(fi.node) if r.value is not None]:
                t = snorm(se.eval_in(fi, r.value))
                if kind not in oracle:
                    rep.undecided("trace-rule", rule.role, f"returns {sshow(t)[:100]}: no trace identity tabulated for this kind", locs=[idx.loc(fi.module, r)])
                    continue
                verdicts = [sequal(t, w) for w in oracle[kind]]
                ok = True if any(v is True for v in verdicts) else (None if (shas_opaque(t) or any(v is None for v in verdicts)) else False)
                if ok is True and rec and not fwd:
                    ok = False
                rep.decide(ok, "trace-rule", rule.role, f"returns {sshow(t)[:120]}; required {sshow(snorm(oracle[kind][0]))}" + ("" if fwd or not rec else "; a recursive trace call drops the caller's algorithm"),
                           detail="" if ok else ("kron" if kind == "Kronecker" else "identity"), locs=[idx.loc(fi.module, r)])
    # ---- Exact / Hutch objects forward k
    for cname in ("Exact", "Hutch"):
        if not idx.has_cls(cname):
            rep.missing_anchor(f"algorithm class {cname}")
            continue
        call = idx.cls(cname).methods.get("__call__")
        if call is None:
            continue
        kp = call.params[2] if len(call.params) > 2 else None
        ok = any(kp in [ast.unparse(x) for x in c.args] or any(ast.unparse(kw.value) == kp for kw in c.keywords) for c in df.calls(call.node)) if kp else False
        rep.decide(ok, "base-case", f"{cname}.__call__", "forwards the offset k to the routine" if ok else "drops the offset k", detail="" if ok else "k", locs=[idx.loc(call.module, call.node)])
    probe_coverage(idx, rep)
    rep.floor("k-guard", 7)
    rep.floor("probe-coverage", 1)
    rep.floor("forwarded", 3)
    rep.floor("rule-algebra", 5)
    rep.floor("trace-rule", 2)
    rep.floor("auto-selection", 1)
    rep.explanation = ("Dominance / dependence / idiom checks on every diag and trace rule: refusal of k != 0 where the structural formula is main-diagonal only, use of k where it "
                       "is generic, lengths n - |k|, recursive calls with unchanged (k, alg), row-major outer product / outer sum for Kronecker / KronSum (AXES: abstract interpretation of the rule over axis "
                       "labels, number of factors unrolled to 2-4), concatenation with multiplicities, structural trace rules against the kind's trace identity as scalar terms, "
                       "monotone Exact-vs-Hutch choice in Auto and forwarding of Auto's options.")
    rep.assumptions += ["the shift arithmetic inside get_I_chunk_like (sizes not divisible by the block) and the numerical Auto threshold are not decided; of the probing loop only its coverage of all columns is"]


def probe_coverage(idx, rep):
    """the blocked probing loop of exact_diag must visit every column of the operator: range(0, <column count of A>, <block>)
    with the block width handed to the chunk builder being the loop's own step (a shorter range silently leaves
    entries of the diagonal at their initial 0)"""
    cands = [f for f in idx.funcs.values() if f.short == "exact_diag" and f.parent is None]
    if not cands:
        rep.missing_anchor("exact_diag")
        return
    fi = cands[0]
    a = fi.params[0]
    asg = df.assignments(fi.node)

    def resolve(e, depth=0):
        if isinstance(e, ast.Name) and depth < 3 and e.id not in fi.params:
            vals = [v for v, p, st in asg.get(e.id, []) if p is None and not isinstance(v, ast.AugAssign)]
            if len(vals) == 1:
                return resolve(vals[0], depth + 1)
        return e

    # the probing routine and its chunk builder must read the SIGN of the offset somewhere (a result that depends on |k| only cannot
    # distinguish the k-th from the (-k)-th diagonal)
    if len(fi.params) > 1:
        kname0 = fi.params[1]
        n_abs, n_other = df.sign_uses(fi.node, kname0)
        callee_other = 0
        for c in df.calls(fi.node):
            r = idx.resolve_expr(fi.module, c.func, fi)
            if r is not None and r.kind == "funcs" and any(isinstance(x, ast.Name) and x.id == kname0 for x in c.args):
                cal = r.val[-1]
                pos = next(i for i, x in enumerate(c.args) if isinstance(x, ast.Name) and x.id == kname0)
                if pos < len(cal.params):
                    callee_other += df.sign_uses(cal.node, cal.params[pos])[1]
                    n_other -= 1  # the forwarding itself is not a use
        ok = (n_other + callee_other) > 0
        rep.decide(ok, "probe-coverage", "exact_diag:offset-sign", f"the offset `{kname0}` is read outside abs() {max(n_other, 0)} time(s) here and {callee_other} time(s) in the chunk builder" +
                   ("" if ok else ": the result depends on |k| only"), detail="" if ok else "abs-only", locs=[idx.loc(fi.module, fi.node)])
    dims = {f"{a}.shape[{i}]" for i in ("0", "1", "-1", "-2")}
    loops = [n for n in df.body_nodes(fi.node) if isinstance(n, ast.For) and isinstance(n.iter, ast.Call) and isinstance(n.iter.func, ast.Name) and n.iter.func.id == "range"
             and any(isinstance(b, ast.BinOp) and isinstance(b.op, ast.MatMult) for st in n.body for b in ast.walk(st))]
    if not loops:
        rep.undecided("probe-coverage", "exact_diag:loop", "no range loop that multiplies the operator into probe chunks was found")
        return
    for lp_ in loops:
        args = lp_.iter.args
        loc = [idx.loc(fi.module, lp_)]
        if len(args) != 3:
            rep.undecided("probe-coverage", "exact_diag:loop", f"loop `{nospace(lp_.iter)}` is not of the form range(start, stop, step)", locs=loc)
            continue
        start, stop, step = (resolve(x) for x in args)
        start_ok = isinstance(start, ast.Constant) and start.value == 0
        stop_t = nospace(stop)
        # refuted only for a reduction that applies to positive offsets as well (n - abs(k), n - k): for k > 0 the trailing
        # columns are exactly the ones that hold the k-th diagonal; any other reduced stop is left undecided
        kname = fi.params[1] if len(fi.params) > 1 else "k"
        shrunk = isinstance(stop, ast.BinOp) and isinstance(stop.op, ast.Sub) and nospace(resolve(stop.left)) in dims and nospace(stop.right) in (f"abs({kname})", kname)
        chunk_calls = [c for st in lp_.body for c in ast.walk(st) if isinstance(c, ast.Call) and isinstance(lp_.target, ast.Name) and any(isinstance(x, ast.Name) and x.id == lp_.target.id for x in c.args)]
        step_ok = bool(chunk_calls) and any(nospace(args[2]) in [nospace(x) for x in c.args] for c in chunk_calls)
        if not start_ok and isinstance(start, ast.Constant):
            rep.refuted("probe-coverage", "exact_diag:loop", f"the probing loop `{nospace(lp_.iter)}` starts at {start.value}: the first columns of the operator are never probed", detail="start", locs=loc)
        elif shrunk:
            rep.refuted("probe-coverage", "exact_diag:loop", f"the probing loop `{nospace(lp_.iter)}` stops at {stop_t}, before the last column of the operator: the skipped columns carry entries of "
                        "the super-diagonals (A[c-k, c] lives in column c), which stay 0", detail="stop", locs=loc)
        elif start_ok and stop_t in dims and step_ok:
            rep.proved("probe-coverage", "exact_diag:loop", f"`{nospace(lp_.iter)}` visits every column of {a} in blocks of the width handed to the chunk builder", locs=loc)
        else:
            rep.undecided("probe-coverage", "exact_diag:loop", f"coverage of `{nospace(lp_.iter)}` (start {nospace(start)}, stop {stop_t}, step {nospace(step)}) is outside the recognised form", locs=loc)


def parents(node, stop):
    p = getattr(node, "_parent", None)
    while p is not None and p is not stop:
        yield p
        p = getattr(p, "_parent", None)


def contains(stmts, node):
    return any(node is x for st in stmts for x in ast.walk(st))


def product_like(idx, fi):
    """which reduction wraps the final comprehension: 'product' (multiplicative helper), 'sum' or None"""
    for c in df.calls(fi.node):
        if isinstance(c.func, ast.Name):
            if c.func.id == "sum":
                return "sum"
            r = idx.resolve_name(fi.module, c.func.id, fi)
            if r is not None and r.kind == "funcs" and getattr(r.val[-1], "rule", None) is None:
                body = nospace(r.val[-1].node)
                if "reduce(" in body and "a*b" in body.replace("x*y", "a*b"):
                    return "product"
                if "reduce(" in body and "a+b" in body.replace("x+y", "a+b"):
                    return "sum"
    return None


def axis_placement(e):
    """index expression  [None]*X + [slice(None)] + [None]*Y  (lists or tuples): 'row' when X is the factor index and Y counts the
    remaining factors (factor i on axis i), 'col' for the mirror image, None when the expression has another shape"""
    parts = []

    def flat(x):
        if isinstance(x, ast.BinOp) and isinstance(x.op, ast.Add):
            flat(x.left)
            flat(x.right)
        else:
            parts.append(x)
    if isinstance(e, ast.Call) and isinstance(e.func, ast.Name) and e.func.id in ("tuple", "list") and len(e.args) == 1:
        e = e.args[0]
    flat(e)
    if len(parts) != 3:
        return None

    def none_run(x):
        if isinstance(x, ast.BinOp) and isinstance(x.op, ast.Mult):
            seq, cnt = (x.left, x.right) if isinstance(x.left, (ast.List, ast.Tuple)) else (x.right, x.left)
            if isinstance(seq, (ast.List, ast.Tuple)) and len(seq.elts) == 1 and isinstance(seq.elts[0], ast.Constant) and seq.elts[0].value is None:
                return cnt
        return None

    mid = parts[1]
    is_mid = isinstance(mid, (ast.List, ast.Tuple)) and len(mid.elts) == 1 and nospace(mid.elts[0]) == "slice(None)"
    c1, c3 = none_run(parts[0]), none_run(parts[2])
    if not is_mid or c1 is None or c3 is None:
        return None
    if isinstance(c1, ast.Name) and c1.id in df.names_in(c3) and any(isinstance(x, ast.Sub) for x in ast.walk(c3)):
        return "row"
    if isinstance(c3, ast.Name) and c3.id in df.names_in(c1) and any(isinstance(x, ast.Sub) for x in ast.walk(c1)):
        return "col"
    return None


def outer_idiom(idx, rep, rule, kind):
    fi = rule.func
    construct = rule.role
    # AXES: the rule's own code interpreted over axis labels for 2, 3 and 4 factors (sa/axes.py).  Factor i must end up on axis i of
    # the array that is flattened (row-major = Kronecker order), no two factors may meet on one axis, and the factors are combined by
    # the kind's operation only.
    from sa.axes import outer_order
    runs = outer_order(idx, rule, "diag")
    if all(r is not None for _n, r, _p in runs):
        want_op = "mul" if kind == "Kronecker" else "add"
        for n, r, _p in runs:
            labels = [a for a in r.axes if a != "1"]
            if r.conflict:
                rep.refuted("rule-algebra", construct, f"with {n} factors, {r.conflict} (axes of the assembled array: {r.axes}): the factors are combined elementwise where an outer "
                            f"{'product' if kind == 'Kronecker' else 'sum'} is required", detail="axis-order", locs=[rule.loc])
                return
            if labels != list(range(n)):
                rep.refuted("rule-algebra", construct, f"with {n} factors the flattened array has the factors on axes {r.axes}; required factor i on axis i (row-major = Kronecker order)",
                            detail="axis-order", locs=[rule.loc])
                return
            if r.ops != {want_op}:
                rep.refuted("rule-algebra", construct, f"the factors' diagonals are combined by {sorted(r.ops)}; required {want_op} only", detail="reduction", locs=[rule.loc])
                return
        rep.proved("rule-algebra", construct, f"outer {'product' if kind == 'Kronecker' else 'sum'} with factor i on axis i, flattened row-major (interpreted over axis labels for "
                   f"{', '.join(str(n) for n, _r, _p in runs)} factors)", locs=[rule.loc])
        return
    # the index idiom may live in the rule or in a helper it calls
    fns, seen, work = [fi], {id(fi.node)}, [fi]
    while work:
        g = work.pop()
        for c in df.calls(g.node):
            r = idx.resolve_expr(g.module, c.func, g)
            if r is not None and r.kind == "funcs" and getattr(r.val[-1], "rule", None) is None and r.val[-1].module is fi.module and id(r.val[-1].node) not in seen:
                seen.add(id(r.val[-1].node))
                fns.append(r.val[-1])
                work.append(r.val[-1])
    placements = [pl for g in fns for n in df.body_nodes(g.node) if isinstance(n, (ast.BinOp, ast.Call)) for pl in [axis_placement(n)] if pl]
    red = product_like(idx, fi)
    want_red = "product" if kind == "Kronecker" else "sum"
    flat = ".reshape(-1)" in nospace(fi.node)
    if "col" in placements:
        rep.refuted("rule-algebra", construct, "factor i is placed on axis n-1-i: the flattened outer product is in column-major (reversed Kronecker) order", detail="axis-order", locs=[rule.loc])
        return
    if "row" not in placements:
        rep.undecided("rule-algebra", construct, "outer-product index idiom not recognised", locs=[rule.loc])
        return
    ok = red == want_red and flat
    rep.decide(ok if (ok or red in ("product", "sum")) else None, "rule-algebra", construct,
               f"outer {'product' if kind == 'Kronecker' else 'sum'} with factor i on axis i, row-major flatten: reduction is {red}, reshape(-1) {'present' if flat else 'missing'}"
               + ("" if ok else f"; required reduction {want_red}"), detail="" if ok else "reduction", locs=[rule.loc])


def auto_selection(idx, rep, rule):
    fi = rule.func
    algp = rule.params[2][0]
    from sa.autorule import option_forwarding
    option_forwarding(idx, rep, rule, fi, algp)
    asg = df.assignments(fi.node)
    branch = next((n for n in fi.node.body if isinstance(n, ast.If)), None)
    if branch is None:
        rep.undecided("auto-selection", rule.role, "no if statement")
        return
    test, pol = df.normalise_test(branch.test)
    if isinstance(test, ast.Name) and len(asg.get(test.id, [])) == 1:
        test, pol = df.normalise_test(asg[test.id][0][0], pol)
    body_t, body_f = (branch.body, branch.orelse) if pol else (branch.orelse, branch.body)
    made_true = [nospace(c.func) for st in body_t for c in ast.walk(st) if isinstance(c, ast.Call) and nospace(c.func) in ("Exact", "Hutch", "HutchPP")]
    made_false = [nospace(c.func) for st in body_f for c in ast.walk(st) if isinstance(c, ast.Call) and nospace(c.func) in ("Exact", "Hutch", "HutchPP")]
    if not (isinstance(test, ast.Compare) and len(test.ops) == 1):
        rep.undecided("auto-selection", rule.role, f"selection test `{ast.unparse(test)}` is not a single comparison")
        return
    # which side holds the tolerance?
    def is_tol(e):
        # the side that reads the algorithm's tolerance: a name `tol`, a name bound to an expression mentioning 'tol', or the
        # lookup `alg.__dict__.get('tol', ...)` / `alg.tol` written inline
        names = df.names_in(e)
        if "tol" in names or "'tol'" in ast.unparse(e) or any(isinstance(x, ast.Attribute) and x.attr == "tol" for x in ast.walk(e)):
            return True
        return any("tol" in ast.unparse(v) for n in names for v, p, st in asg.get(n, []))
    left_tol, right_tol = is_tol(test.left), is_tol(test.comparators[0])
    op = test.ops[0]
    small_tol_true = (left_tol and isinstance(op, (ast.Lt, ast.LtE))) or (right_tol and isinstance(op, (ast.Gt, ast.GtE)))
    small_tol_false = (left_tol and isinstance(op, (ast.Gt, ast.GtE))) or (right_tol and isinstance(op, (ast.Lt, ast.LtE)))
    if not (small_tol_true or small_tol_false):
        rep.undecided("auto-selection", rule.role, f"cannot orient `{ast.unparse(test)}`")
        return
    # ---- the default tolerance that decides "automatic default => exact": an operator-independent literal
    a = rule.params[0][0]
    defaults = [v.args[1] for v in df.calls(fi.node) if isinstance(v.func, ast.Attribute) and v.func.attr == "get" and len(v.args) == 2 and isinstance(v.args[0], ast.Constant)
                and v.args[0].value == "tol"]
    for d in defaults:
        loc = [idx.loc(fi.module, d)]
        if a in df.names_in(d):
            rep.refuted("auto-selection", rule.role + ":default-tol", f"the default tolerance `{ast.unparse(d)}` depends on the operator `{a}`: whether the automatic default is the exact "
                        "algorithm then depends on the operator's dtype / size (single precision: a far looser default, so mid-sized operators get the stochastic estimator)", detail="operator-dependent", locs=loc)
        elif isinstance(d, ast.Constant) and isinstance(d.value, (int, float)):
            ok = d.value <= 1e-6
            rep.decide(True if ok else None, "auto-selection", rule.role + ":default-tol", f"default tolerance {d.value!r}" + ("" if ok else ": looser than 1e-6, the exact regime shrinks"), locs=loc)
        else:
            rep.undecided("auto-selection", rule.role + ":default-tol", f"default tolerance `{ast.unparse(d)}` is not a literal", locs=loc)
    exact_branch = made_true if small_tol_true else made_false
    other_branch = made_false if small_tol_true else made_true
    ok = exact_branch == ["Exact"] and "Exact" not in other_branch
    rep.decide(ok, "auto-selection", rule.role, f"`{ast.unparse(test)}`: the small-tolerance branch constructs {exact_branch}, the other {other_branch}" +
               ("" if ok else " (a swapped pair makes the default call stochastic)"), detail="" if ok else "swapped", locs=[rule.loc])
