"""PROV/ORTHO (DESIGN.md 4/C05 clause 3): provenance of the values handed to annotation
wrappers.  Abstract values:
  ('mat', ortho, cols, tag)   ortho in SQ (square unitary) > OC (orthonormal columns) > GEN (general
                              eigenvectors) / NONE;  cols in square | count | unk;  tag: size symbol or None
  ('vec', lenkind, tag)       1-D value (eigenvalues, singular values)
  ('idx', kind, tag)          perm | count | full | const | unk
  ('dim', kind)               shape | count | const | unk
"""
import ast

from sa import dataflow as df
from sa.absint import AbsInt

ANNOT_NAMES = ("SelfAdjoint", "PSD", "Stiefel", "Unitary", "Hermitian")
ORDER = {"SQ": 3, "OC": 2, "GEN": 0, "NONE": 0}


def mat(ortho="NONE", cols="unk", tag=None):
    return ("mat", ortho, cols, tag)


class Ortho(AbsInt):
    def __init__(self, idx):
        super().__init__(idx)
        self.ops = {c.name for c in idx.operator_classes()}

    # ---- leaves
    def const(self, node):
        if isinstance(node.value, int) and not isinstance(node.value, bool):
            return ("dim", "const")
        return ("const", repr(node.value))

    def param(self, fi, name):
        rule = getattr(fi, "rule", None)
        if rule is not None:
            for pn, atoms, d in rule.params:
                if pn == name:
                    if atoms == frozenset({"Identity"}):
                        return mat("SQ", "square")
                    if atoms & {"int", "Number"}:
                        return ("dim", "count")
                    if atoms and atoms <= self.ops:
                        return ("op", "|".join(sorted(atoms)))
        a = fi.node.args
        for x in a.posonlyargs + a.args + a.kwonlyargs:
            if x.arg == name and x.annotation is not None and ast.unparse(x.annotation) == "int":
                return ("dim", "count")
        d = df.param_defaults(fi.node).get(name)
        if isinstance(d, ast.Constant) and isinstance(d.value, int) and not isinstance(d.value, bool):
            return ("dim", "count")
        return ("param", name)

    def self_attr(self, fi, attr, node):
        return ("self", attr)

    # ---- helpers
    def dimkind(self, v):
        ks = set()
        for a in self.alternatives(v):
            if isinstance(a, tuple) and a[0] == "dim":
                ks.add(a[1])
            elif isinstance(a, tuple) and a[0] == "param":
                ks.add("count")  # an un-typed parameter used as an extent: caller controlled
            else:
                ks.add("unk")
        if "count" in ks:
            return "count"
        if ks == {"shape"} or ks == {"shape", "const"}:
            return "shape"
        if ks == {"const"}:
            return "const"
        return "unk"

    def as_mats(self, v):
        return [a for a in self.alternatives(v) if isinstance(a, tuple) and a and a[0] == "mat"]

    def lift(self, v, f):
        """apply f to every 'mat' alternative, keep others as unknown mats"""
        outs = []
        for a in self.alternatives(v):
            if isinstance(a, tuple) and a and a[0] == "mat":
                outs.append(f(a))
            else:
                outs.append(f(mat()))
        return self.join(outs)

    # ---- structure
    def attribute(self, base, attr, node, ctx):
        if attr in ("T", "H", "mT"):
            return self.lift(base, lambda m: mat("SQ" if m[1] == "SQ" else "NONE", "square" if m[2] == "square" else "unk", m[3]))
        if attr in ("real", "data", "A"):
            return base
        if attr == "shape":
            return ("shapeof", )
        if attr in ("diag", ):
            return ("vec", "unk", None)
        return self.unknown(f".{attr}")

    def index_kind(self, node, ctx):
        """classify one index expression -> (kind, tag)"""
        if isinstance(node, ast.Constant) and node.value is Ellipsis:
            return ("ellipsis", None)
        if isinstance(node, ast.Slice):
            if node.lower is None and node.upper is None and node.step is None:
                return ("full", None)
            ks = {self.dimkind(self.ev(b, ctx)) for b in (node.lower, node.upper) if b is not None}
            if "count" in ks:
                return ("count", None)
            if ks <= {"const"}:
                return ("const", None)
            return ("unk", None)
        if isinstance(node, ast.Constant) and isinstance(node.value, int):
            return ("int", None)
        if isinstance(node, ast.UnaryOp) and isinstance(node.operand, ast.Constant):
            return ("int", None)
        v = self.ev(node, ctx)
        kinds = set()
        tag = None
        for a in self.alternatives(v):
            if isinstance(a, tuple) and a[0] == "idx":
                kinds.add(a[1])
                tag = a[2]
            elif isinstance(a, tuple) and a[0] == "dim":
                kinds.add("int")
            else:
                kinds.add("unk")
        if "count" in kinds:
            return ("count", tag)
        if kinds == {"perm"}:
            return ("perm", tag)
        if kinds == {"full"}:
            return ("full", None)
        if kinds == {"int"}:
            return ("int", None)
        return ("unk", None)

    def subscript(self, base, node, ctx):
        sl = node.slice
        if any(isinstance(a, tuple) and a and a[0] == "shapeof" for a in self.alternatives(base)):
            return ("dim", "shape")
        if any(isinstance(a, tuple) and a and a[0] == "tuple" for a in self.alternatives(base)) and isinstance(sl, ast.Constant) and isinstance(sl.value, int):
            return self.index(base, sl.value)
        idxs = list(sl.elts) if isinstance(sl, ast.Tuple) else [sl]
        kinds = [self.index_kind(i, ctx) for i in idxs]
        vecs = [a for a in self.alternatives(base) if isinstance(a, tuple) and a and a[0] == "vec"]
        if vecs and len(self.alternatives(base)) == len(vecs):
            k = kinds[-1][0]
            return ("vec", "count" if k == "count" else vecs[0][1], vecs[0][2] if k in ("perm", "full") else None)
        if len(idxs) == 1 and kinds[0][0] != "ellipsis":
            k = kinds[0][0]
            if k in ("int", "full"):
                return base  # batch / row selection of a stacked value, or a no-op
            return self.lift(base, lambda m: mat("NONE", m[2], None))
        colk, coltag = kinds[-1]
        rowk = kinds[-2][0] if len(kinds) >= 2 else "full"

        def f(m):
            ortho, cols, tag = m[1], m[2], m[3]
            if rowk not in ("full", "ellipsis", "int") and not (rowk == "perm"):
                ortho = "NONE"
            if colk in ("full", "ellipsis"):
                return mat(ortho, cols, tag)
            if colk == "perm":
                if coltag is not None and tag is not None and coltag != tag:
                    # permutation of a shorter vector indexes a subset of the columns (min(m,n) < m for tall A)
                    return mat("OC" if ORDER[ortho] >= 2 else ortho, "count", None)
                return mat(ortho, cols, tag)
            if colk == "count":
                return mat("OC" if ORDER[ortho] >= 2 else ortho, "count", None)
            if colk == "const":
                return mat("OC" if ORDER[ortho] >= 2 else ortho, cols if cols == "count" else "unk", None)
            if colk == "int":
                return mat("NONE", "unk", None)
            return mat("OC" if ORDER[ortho] >= 2 else ortho, cols if cols == "count" else "unk", None)

        return self.lift(base, f)

    def binop(self, node, left, right, ctx):
        if isinstance(node.op, ast.MatMult):
            outs = []
            for a in self.as_mats(left) or [mat()]:
                for b in self.as_mats(right) or [mat()]:
                    if a[1] == "SQ" and b[1] == "SQ":
                        o = "SQ"
                    elif ORDER[a[1]] >= 2 and ORDER[b[1]] >= 2:
                        o = "OC"
                    else:
                        o = "NONE"
                    cols = b[2] if not (a[2] == "square" and b[2] == "square") else "square"
                    outs.append(mat(o, cols, b[3]))
            return self.join(outs)
        dl, dr = [a for a in self.alternatives(left) if a[0] == "dim"], [a for a in self.alternatives(right) if a[0] == "dim"]
        if (dl or left[0] in ("param", )) and (dr or right[0] in ("param", "const")) or (dl and dr):
            ks = {self.dimkind(left), self.dimkind(right)}
            return ("dim", "count" if "count" in ks else ("shape" if "shape" in ks else ("const" if ks == {"const"} else "unk")))
        ms = self.as_mats(left) + self.as_mats(right)
        if ms:
            return mat("NONE", ms[0][2], None)
        vs = [a for a in self.alternatives(left) + self.alternatives(right) if a[0] == "vec"]
        if vs:
            return vs[0]
        return self.unknown("arith")

    def unaryop(self, node, val, ctx):
        return val

    # ---- calls
    def call_xnp(self, name, node, args, kwargs, ctx):
        def full_matrices():
            v = next((k.value for k in node.keywords if k.arg == "full_matrices"), None)
            if v is None and len(node.args) > 1:
                v = node.args[1]
            return isinstance(v, ast.Constant) and v.value is True
        if name == "eigh":
            return ("tuple", (("vec", "unk", "n"), mat("SQ", "square", "n")))
        if name == "eig":
            return ("tuple", (("vec", "unk", "n"), mat("GEN", "square", "n")))
        if name == "svd":
            if full_matrices():
                return ("tuple", (mat("SQ", "square", "m"), ("vec", "unk", "min(m,n)"), mat("SQ", "square", "n")))
            return ("tuple", (mat("OC", "unk", "min(m,n)"), ("vec", "unk", "min(m,n)"), mat("OC", "unk", "min(m,n)")))
        if name == "qr":
            return ("tuple", (mat("SQ", "square") if full_matrices() else mat("OC", "unk"), mat()))
        if name == "eye":
            return mat("SQ", "square")
        if name in ("zeros", "ones"):
            sh = kwargs.get("shape", args[0] if args else None)
            shnode = next((k.value for k in node.keywords if k.arg == "shape"), node.args[0] if node.args else None)
            cols = "unk"
            if isinstance(shnode, ast.Tuple) and shnode.elts:
                cols = {"count": "count", "shape": "unk", "const": "unk", "unk": "unk"}[self.dimkind(self.ev(shnode.elts[-1], ctx))]
            return mat("NONE", cols)
        if name in ("array", "cast", "copy", "conj", "Parameter", "move_to", "nan_to_num"):
            return args[0] if args else self.unknown(name)
        if name == "update_array":
            return args[0] if args else self.unknown(name)
        if name in ("argsort", ):
            src = args[0] if args else None
            tag = None
            for a in self.alternatives(src) if src is not None else []:
                if isinstance(a, tuple) and a[0] == "vec":
                    tag = a[2]
            return ("idx", "perm", tag)
        if name in ("sqrt", "abs", "exp", "log", "sort", "clip"):
            return args[0] if args else self.unknown(name)
        if name in ("while_loop", "while_loop_no_jit", "for_loop"):
            return self.loop(node, name, ctx)
        if name == "while_loop_winfo":
            return ("tuple", (("winfo", ), ("info", )))
        if name in ("norm", "sum", "max", "min", "mean"):
            return ("scalar", )
        return self.unknown(f"xnp.{name}")

    def loop(self, node, kind, ctx):
        from sa import loop as lp
        names = ["lower", "upper", "body_fun", "init_val"] if kind == "for_loop" else ["cond_fun", "body_fun", "init_val"]
        b = df.bind_call(node, names)
        init = self.ev(b["init_val"], ctx) if "init_val" in b else self.unknown("init")
        body = lp._fn_of(self.idx, ctx.fi, b.get("body_fun")) if b.get("body_fun") is not None else None
        if body is None or isinstance(body, ast.Lambda):
            return init
        sp = body.params[-1] if kind == "for_loop" else body.params[0]
        state = init
        for _ in range(2):
            rets = [r.value for r in df.returns(body.node) if r.value is not None]
            env = dict(ctx.env)
            env[sp] = state
            out = self.join([state] + [self.eval_in(body, r, env, ctx.depth + 1) for r in rets])
            if out == state:
                break
            state = out
        return state

    def call_external(self, dotted, node, args, kwargs, ctx):
        tail = dotted.rsplit(".", 1)[-1]
        if tail in ("eye", "identity"):
            return mat("SQ", "square")
        if tail in ("array", "asarray", "copy"):
            return args[0] if args else self.unknown(dotted)
        if tail == "argsort":
            return ("idx", "perm", None)
        if tail in ("diag", ):
            return ("vec", "unk", None)
        return self.unknown(dotted)

    def call_builtin(self, name, node, args, kwargs, ctx):
        if name == "slice":
            ks = {self.dimkind(a) for a, n in zip(args, node.args) if not (isinstance(n, ast.Constant) and n.value is None)}
            return ("idx", "count" if "count" in ks else ("const" if ks <= {"const"} else "unk"), None)
        if name in ("min", "max"):
            ks = {self.dimkind(a) for a in args}
            return ("dim", "count" if "count" in ks else "unk")
        if name in ("len", "int", "round", "abs"):
            return ("dim", self.dimkind(args[0]) if args else "unk")
        return self.unknown(f"{name}()")

    def call_class(self, ci, node, args, kwargs, ctx):
        if ci.name in ANNOT_NAMES:
            return args[0] if args else self.unknown("wrapper")
        if ci.name in ("Dense", "Triangular"):
            return args[0] if args else kwargs.get("A", self.unknown("Dense"))
        if ci.name == "Identity":
            return mat("SQ", "square")
        if ci.name == "Diagonal":
            v = args[0] if args else None
            cols = "unk"
            for a in self.alternatives(v) if v is not None else []:
                if isinstance(a, tuple) and a[0] == "vec" and a[1] == "count":
                    cols = "count"
            return mat("NONE", cols)
        if ci.name == "Permutation":
            return mat("SQ", "square")
        if ci.name == "Product":
            out = args[0] if args else mat()
            for a in args[1:]:
                out = self.binop(ast.BinOp(left=ast.Constant(0), op=ast.MatMult(), right=ast.Constant(0)), out, a, ctx)
            return out
        if ci.name == "Tridiagonal":
            return ("tridiag", tuple(ast.unparse(a) for a in node.args))
        if ci.name in self.ops:
            return mat()
        return self.unknown(f"{ci.name}()")

    def call_method(self, recv, name, node, args, kwargs, ctx):
        if name in ("to_dense", "to", "conj", "copy", "clone", "astype", "cpu", "conjugate", "detach"):
            if any(isinstance(a, tuple) and a[0] == "op" for a in self.alternatives(recv)):
                return mat()
            return recv
        if name in ("reshape", "squeeze", "transpose"):
            return self.lift(recv, lambda m: mat("NONE", "unk"))
        return self.unknown(f".{name}()")

    def call_dispatch(self, fname, node, args, kwargs, ctx):
        if fname == "lazify":
            return args[0] if args else self.unknown("lazify")
        if fname in ("inv", "pinv", "sqrt", "isqrt"):
            m = self.as_mats(args[0]) if args else []
            return mat("NONE", m[0][2] if m else "unk")
        if fname == "diag":
            return ("vec", "unk", None)
        return self.unknown(f"{fname}()")

    def call_unknown(self, node, ctx):
        f = node.func
        # xnp.vmap(Cls)(x): element-wise constructor
        if isinstance(f, ast.Call) and df.is_xnp_call(f) == "vmap" and f.args:
            r = self.idx.resolve_expr(ctx.fi.module, f.args[0], ctx.fi)
            if r is not None and r.kind == "class":
                return self.call_class(r.val, node, [self.ev(a, ctx) for a in node.args], {}, ctx)
            return self.unknown("vmap")
        # while_fn(cond, body, init) where while_fn, info = xnp.while_loop_winfo(...)
        if isinstance(f, ast.Name):
            v = self.name(f.id, ctx)
            if any(a == ("winfo", ) for a in self.alternatives(v)):
                return self.loop(node, "while_winfo", ctx)
            # alg(A): __call__ of an algorithm object is not followed here
        return self.unknown(ast.unparse(f)[:30] + "()")

    def name(self, name, ctx):
        v = super().name(name, ctx)
        # a variable that is also written through a subscript store loses what we knew about it
        f = ctx.fi
        while f is not None:
            stored = getattr(f.node, "_substore", None)
            if stored is None:
                stored = set()
                for st in df.body_nodes(f.node, into_nested=False):
                    if isinstance(st, ast.Assign):
                        for t in st.targets:
                            if isinstance(t, ast.Subscript) and isinstance(t.value, ast.Name):
                                stored.add(t.value.id)
                f.node._substore = stored
            if name in stored and self.as_mats(v):
                return self.lift(v, lambda m: mat("NONE" if m[1] != "GEN" else "GEN", m[2], m[3]))
            f = f.parent
        return v
