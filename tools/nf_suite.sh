#!/bin/sh
# run the pinned suite on the NORMAL FORM of a tree (default /repo): the normalisation must preserve behaviour
root="${1:-/repo}"
/venv/bin/python - "$root" <<'PY'
import sys, shutil, os, subprocess
sys.path.insert(0, '/verif')
from sa.selftest import inline_copy
tmp = inline_copy(sys.argv[1])
for f in ('tests', 'pytest.ini', 'setup.cfg', 'pyproject.toml', 'setup.py'):
    src = os.path.join(sys.argv[1], f)
    if os.path.isdir(src):
        shutil.copytree(src, os.path.join(tmp, f), dirs_exist_ok=True)
    elif os.path.exists(src):
        shutil.copy(src, os.path.join(tmp, f))
r = subprocess.run(['/verif/tools/suite.sh', tmp], capture_output=True, text=True, env={**os.environ, 'PYTHONPATH': tmp})
print(r.stdout.strip())
shutil.rmtree(tmp, ignore_errors=True)
sys.exit(r.returncode)
PY
