"""SLICE-ROLE — the index objects stored in `Sliced.slices` select rows / columns of the PARENT operator
(`Sliced.A`), so whenever code materialises them as explicit indices (`arange(N)[s]`) the length N must be
the parent's dimension of the same axis.  Resolving them against the slice's own shape truncates the
index vectors, and rules that compare them (principal sub-matrix tests) then accept different selections.

A small AbsInt domain tracks where `N` and `s` come from:
  ('obj', path)            an operator reachable from a parameter (path 'A', 'A.A', 'self', ...)
  ('slices', path, i)      path.slices[i]   (i = '*' for "the element at the position being iterated")
  ('shape', path, i)       path.shape[i]
  ('zip', (v0, v1, ...))   zip(...) of such sequences; iteration yields the element-wise tuple
and records every subscript  arange(N)[s].
"""
import ast

from sa import dataflow as df
from sa.absint import AbsInt


class SliceRole(AbsInt):
    def __init__(self, idx):
        super().__init__(idx)
        self.records = []  # (node, fi, N value, s value)

    def param(self, fi, name):
        return ("obj", name)

    def self_attr(self, fi, attr, node):
        return self.attribute(("obj", "self"), attr, node, None)

    def const(self, node):
        return ("const", node.value)

    def attribute(self, base, attr, node, ctx):
        if isinstance(base, tuple) and base and base[0] == "obj":
            if attr == "slices":
                return ("slices", base[1], None)
            if attr == "shape":
                return ("shape", base[1], None)
            return ("obj", f"{base[1]}.{attr}")
        if isinstance(base, tuple) and base and base[0] in ("indices", "arange") and attr == "shape":
            return ("derived", "shape of indices")
        return self.unknown(f".{attr}")

    @staticmethod
    def _axis(i):
        return {-1: 1, -2: 0}.get(i, i)

    def subscript(self, base, node, ctx):
        s = node.slice
        if isinstance(base, tuple) and base and base[0] in ("slices", "shape") and base[2] is None:
            if isinstance(s, ast.Constant) and isinstance(s.value, int):
                return (base[0], base[1], self._axis(s.value))
            if isinstance(s, ast.UnaryOp) and isinstance(s.op, ast.USub) and isinstance(s.operand, ast.Constant):
                return (base[0], base[1], self._axis(-s.operand.value))
            return (base[0], base[1], "?")
        if isinstance(base, tuple) and base and base[0] == "arange":
            sv = self.ev(s, ctx)
            self.records.append((node, ctx.fi, base[1], sv))
            return ("indices", base[1], sv)
        if isinstance(base, tuple) and base and base[0] in ("tuple", "join"):
            if isinstance(s, ast.Constant) and isinstance(s.value, int):
                return self.index(base, s.value)
        return self.unknown("subscript")

    def element_of(self, v, i):
        if isinstance(v, tuple) and v:
            if v[0] in ("slices", "shape") and v[2] is None:
                return (v[0], v[1], "*" if i == "*" else (i if isinstance(i, int) else "?"))
            if v[0] == "zip":
                return ("tuple", tuple(self.element_of(x, "*") for x in v[1]))
            if v[0] == "gen":
                return v[1]
        return self.unknown("element")

    def call_method(self, recv, name, node, args, kwargs, ctx):
        # s.indices(N): the slice is resolved against a length N, exactly like arange(N)[s]
        if name == "indices" and isinstance(recv, tuple) and recv and recv[0] == "slices" and args:
            self.records.append((node, ctx.fi, args[0], recv))
            return ("indices", args[0], recv)
        if name in ("cpu", "numpy", "copy"):
            return recv
        return self.unknown(f".{name}()")

    def call_builtin(self, name, node, args, kwargs, ctx):
        if name == "zip":
            return ("zip", tuple(args))
        if name in ("tuple", "list") and args:
            return args[0]
        return self.unknown(f"{name}()")

    def _arange(self, args, kwargs):
        return ("arange", args[0]) if args else self.unknown("arange()")

    def call_xnp(self, name, node, args, kwargs, ctx):
        if name == "arange":
            return self._arange(args, kwargs)
        return self.unknown(f"xnp.{name}")

    def call_external(self, dotted, node, args, kwargs, ctx):
        if dotted.endswith(".arange"):
            return self._arange(args, kwargs)
        return self.unknown(dotted)

    def other(self, node, ctx):
        if isinstance(node, (ast.GeneratorExp, ast.ListComp)):
            env = dict(ctx.env)
            for g in node.generators:
                it = self.ev(g.iter, AbsInt.Ctx(ctx.fi, env, ctx.depth + 1))
                el = self.index(it, "*")
                if isinstance(g.target, ast.Name):
                    env[g.target.id] = el
                elif isinstance(g.target, ast.Tuple):
                    for k, t in enumerate(g.target.elts):
                        if isinstance(t, ast.Name):
                            env[t.id] = self.index(el, k)
            return ("gen", self.ev(node.elt, AbsInt.Ctx(ctx.fi, env, ctx.depth + 1)))
        if isinstance(node, ast.Compare):
            self.ev(node.left, ctx)
            for c in node.comparators:
                self.ev(c, ctx)
            return ("derived", "comparison")
        return self.unknown(type(node).__name__)

    def index(self, v, i):
        if isinstance(v, tuple) and v and v[0] == "gen":
            return v[1]
        return super().index(v, i)


def slice_role_obligations(idx, rep, rule, functions):
    """evaluate every statement of the given functions (so that all arange(N)[s] subscripts are reached) and judge the records"""
    n = 0
    seen = set()
    for fi in functions:
        d = SliceRole(idx)
        for node in df.body_nodes(fi.node):
            if isinstance(node, (ast.Assign, ast.Return, ast.Expr, ast.If, ast.While)) :
                e = node.value if isinstance(node, (ast.Assign, ast.Return, ast.Expr)) else node.test
                if e is not None:
                    d.eval_in(fi, e)
        for node, f2, nv, sv in d.records:
            if id(node) in seen:
                continue
            seen.add(id(node))
            if not (isinstance(sv, tuple) and sv and sv[0] == "slices"):
                continue
            n += 1
            construct = f"{getattr(fi, 'rule', None).role if getattr(fi, 'rule', None) else fi.short}:resolve#{n}"
            loc = [idx.loc(f2.module, node)]
            text = ast.unparse(node)
            if isinstance(nv, tuple) and nv and nv[0] == "shape":
                want_path = f"{sv[1]}.A"
                if nv[1] == want_path and nv[2] == sv[2]:
                    rep.proved(rule, construct, f"`{text}`: {sv[1]}.slices[{sv[2]}] is resolved against {nv[1]}.shape[{nv[2]}] (the parent's dimension of the same axis)", locs=loc)
                elif nv[1] == sv[1]:
                    rep.refuted(rule, construct, f"`{text}`: {sv[1]}.slices[{sv[2]}] is resolved against {nv[1]}.shape[{nv[2]}], the shape of the slice itself; the indices select rows / columns of "
                                f"{want_path}, so the index vector is truncated to the slice's own size and different selections compare equal", detail="own-shape", locs=loc)
                elif nv[1] == want_path and nv[2] != sv[2] and "?" not in (nv[2], sv[2]):
                    rep.refuted(rule, construct, f"`{text}`: the index of axis {sv[2]} is resolved against the parent's axis {nv[2]}", detail="axis", locs=loc)
                else:
                    rep.undecided(rule, construct, f"`{text}`: length from {nv}, index from {sv}", locs=loc)
            else:
                rep.undecided(rule, construct, f"`{text}`: length of unknown origin {nv}", locs=loc)
    return n
