"""C16 — svd and pinv (DESIGN.md section 4, C16).

* pairing: U, Sigma, V are permuted / sliced by the same index in every svd rule;
* Sigma >= 0 by provenance (svd values, sqrt of eigenvalues, ones); the rule's own payload is ANY;
* Krylov rules: the operator handed to the eigen-solver is the Gram operator H(A)·A or A·H(A) and the other
  factor is recovered as A·V·inv(Sigma) / H(A)·U·inv(Sigma) (TERM);
* pinv rules (shared with C06) and Auto tables.
"""
import ast

from sa import dataflow as df
from sa.autorule import check_auto
from sa.resolver import Resolver
from sa.term import C, H, I, INV, MUL, T, TermEval, alternatives, equal, has_opaque, norm, opaque_text, show, sym


def selection_names(fi):
    """names bound to a permutation (argsort) or a slice (get_slice)"""
    out = {}
    for name, vals in df.assignments(fi.node).items():
        for v, p, st in vals:
            if isinstance(v, ast.Call) and p is None:
                f = ast.unparse(v.func)
                if f.endswith("argsort"):
                    out[name] = "argsort"
                elif f.endswith("get_slice"):
                    out[name] = "slice"
    return out


def blocks(fi):
    """straight-line regions: the function body minus if-branches, and every if/else branch"""
    out = [("body", [s for s in fi.node.body if not isinstance(s, ast.If)])]
    for s in fi.node.body:
        if isinstance(s, ast.If):
            out.append(("if", s.body))
            if s.orelse:
                out.append(("else", s.orelse))
    return out


def run(idx, rep, tier):
    mods = frozenset(idx.closure([m for m in idx.optional_modules() if m.endswith(".svd.svd")]))
    res = Resolver(idx, mods)
    rules = res.rules_of("svd")
    from sa.autorule import arity_obligations
    arity_obligations(idx, rep, rules)
    if not rules:
        rep.missing_anchor("dispatched function svd")
    for rule in rules:
        fi = rule.func
        a = rule.params[0][0]
        kinds, algs = sorted(rule.types[0]), sorted(rule.types[-1])
        construct = rule.role
        if algs == ["Auto"]:
            continue
        sel = selection_names(fi)
        # ---- pairing
        n_uses = 0
        bad = None
        for label, stmts in blocks(fi):
            used = {}
            for st in stmts:
                for n in ast.walk(st):
                    if isinstance(n, ast.Subscript):
                        idxs = n.slice.elts if isinstance(n.slice, ast.Tuple) else [n.slice]
                        last = idxs[-1]
                        # a selection is a name bound to argsort / get_slice, or such a call written inline
                        inline_sel = isinstance(last, ast.Call) and ast.unparse(last.func).endswith(("argsort", "get_slice"))
                        if (isinstance(last, ast.Name) and last.id in sel) or inline_sel:
                            used.setdefault(ast.unparse(last).replace(" ", ""), []).append(ast.unparse(n.value))
                            n_uses += 1
            if len(used) > 1:
                bad = f"values and vectors are selected by different indices in one branch: {used}"
        if sel or n_uses:
            rep.decide(False if bad else (True if n_uses >= 2 else None), "pairing", construct,
                       bad or (f"{n_uses} selections all use the index {sorted(sel)}" if n_uses >= 2 else "fewer than two selections use the index"), detail="" if not bad else "index", locs=[rule.loc])
        # ---- sign of Sigma
        sigma_sign(idx, rep, rule)
        # ---- one factor returned as both U and V: U Sigma U^H is Hermitian PSD, so the exit must be restricted to PSD operands
        same_factor(idx, rep, rule, kinds)
        # ---- Gram operator / back substitution
        if algs in (["Lanczos"], ["LOBPCG"]):
            krylov_svd(idx, rep, rule)
        if kinds == ["Identity"]:
            te = TermEval(idx)
            for r in [r for r in df.returns(fi.node) if r.value is not None]:
                t = te.eval_in(fi, r.value)
                ok = t[0] == "tuple" and norm(t[1][0]) == I and norm(t[1][2]) == I
                rep.decide(ok, "svd-structural", construct, "U = V = I" if ok else f"returns {show(t)[:60]}", detail="" if ok else "identity", locs=[rule.loc])
    check_auto(idx, res, rep, "svd", 3)
    # ---- pinv (same obligations as in C06)
    from props.C06 import check_inverse_rules
    core = Resolver(idx, frozenset(idx.core_modules()))
    check_inverse_rules(idx, rep, core, "pinv", pseudo=True)
    check_auto(idx, core, rep, "pinv", 1)
    zero_masks(idx, rep, core)
    rep.floor("pairing", 3)
    rep.floor("sigma-sign", 4)
    rep.floor("gram-operator", 2)
    rep.floor("back-substitution", 1)
    rep.floor("inverse-rule", 5)
    rep.explanation = ("Structural obligations on every svd rule: one common selection index for values and both vector factors, non-negative Sigma by provenance, the "
                       "Krylov rules must run the eigen-solver on H(A)·A or A·H(A) and recover the other factor with the matching product (TERM); pinv rules as in C06.")
    rep.assumptions += ["orthonormality, best rank-k and minimum-norm optimality are not decided", "annotations of U, V are C05; dispatch is C04",
                        "the CG pinv rule regularises on purpose and carries no exact-algebra obligation"]


def same_factor(idx, rep, rule, kinds):
    fi = rule.func
    a = rule.params[0][0]
    for r in [r for r in df.returns(fi.node) if r.value is not None and isinstance(r.value, ast.Tuple) and len(r.value.elts) == 3]:
        u, sg, v = r.value.elts
        if ast.unparse(u) != ast.unparse(v):
            continue
        # guards of this exit
        node = getattr(r, "_origin", r)
        psd = herm = False
        child, p = node, getattr(node, "_parent", None)
        tests = []
        while p is not None and p is not fi.node:
            if isinstance(p, ast.If) and any(x is child for x in p.body):
                tests.append(p.test)
            child, p = p, getattr(p, "_parent", None)
        rule_cond = getattr(rule, "cond", None)
        if isinstance(rule_cond, ast.Lambda):
            tests.append(rule_cond.body)
        for t in tests:
            for c in ast.walk(t):
                if isinstance(c, ast.Call) and isinstance(c.func, ast.Attribute) and c.func.attr == "isa" and c.args:
                    rr = idx.resolve_expr(fi.module, c.args[0], fi)
                    name = rr.val.name if rr is not None and rr.kind == "class" else ast.unparse(c.args[0])
                    psd = psd or name == "PSD"
                    herm = herm or name in ("SelfAdjoint", "PSD")
        loc = [idx.loc(fi.module, r)]
        if psd or kinds == ["Identity"]:
            rep.proved("same-factor", rule.role, f"`{ast.unparse(u)[:40]}` is returned as U and as V on an exit restricted to positive semi-definite operands", locs=loc)
            continue
        # Sigma equal to the operand itself (Diagonal rule) keeps the signs in Sigma: that is the sigma-sign finding, not this one
        if ast.unparse(sg) == a:
            continue
        rep.refuted("same-factor", rule.role, f"`{ast.unparse(u)[:40]}` is returned as both U and V" + (" for every self-adjoint operand" if herm else "") + ": U·Sigma·U^H with Sigma >= 0 is positive "
                    "semi-definite, so an operand with a negative eigenvalue is not reconstructed (the signs of its eigenvalues are lost)", detail="needs-psd", locs=loc)


def sigma_sign(idx, rep, rule):
    fi = rule.func
    a = rule.params[0][0]
    rets = [r for r in df.returns(fi.node) if r.value is not None and isinstance(r.value, ast.Tuple) and len(r.value.elts) == 3]
    if not rets:
        rep.undecided("sigma-sign", rule.role, "rule does not return a literal 3-tuple")
        return
    asg = df.assignments(fi.node)
    for r in rets:
        e = r.value.elts[1]
        exprs = [e]
        if isinstance(e, ast.Name):
            exprs = [v for v, p, st in asg.get(e.id, []) if p is None] or [e]
        verdicts = []
        for x in exprs:
            verdicts.append(sign_of(idx, fi, x, a, asg))
        if any(v[0] is False for v in verdicts):
            v = next(v for v in verdicts if v[0] is False)
            rep.refuted("sigma-sign", rule.role, f"Sigma is `{ast.unparse(e)[:50]}`: {v[1]}", detail="any-sign", locs=[idx.loc(fi.module, r)])
        elif all(v[0] is True for v in verdicts):
            rep.proved("sigma-sign", rule.role, f"Sigma is `{ast.unparse(e)[:50]}`: " + "; ".join(sorted({v[1] for v in verdicts})), locs=[idx.loc(fi.module, r)])
        else:
            rep.undecided("sigma-sign", rule.role, f"Sigma is `{ast.unparse(e)[:50]}`: " + next(v[1] for v in verdicts if v[0] is None), locs=[idx.loc(fi.module, r)])


def sign_of(idx, fi, x, a, asg, depth=0):
    """-> (True nonneg / False any / None unknown, why)"""
    if isinstance(x, ast.Name) and x.id == a:
        return False, f"it is the rule's own operand `{a}` unchanged: a Diagonal operator can hold entries of any sign (diag(-1)) and in any order"
    if isinstance(x, ast.Call):
        f = ast.unparse(x.func)
        if f.endswith("Diagonal") and x.args:
            return sign_of(idx, fi, x.args[0], a, asg, depth + 1)
        if f.endswith((".sqrt", ".abs", ".ones", ".norm", ".exp")):
            return True, f"{f.rsplit('.', 1)[-1]}(...) is non-negative"
    if isinstance(x, ast.Subscript):
        return sign_of(idx, fi, x.value, a, asg, depth + 1)
    if isinstance(x, ast.Name) and depth < 4:
        vals = asg.get(x.id, [])
        for v, p, st in vals:
            if isinstance(v, ast.Call) and ast.unparse(v.func).endswith(".svd") and p == (1, ):
                return True, "singular values returned by the backend svd"
            if isinstance(v, ast.Call) and ast.unparse(v.func).endswith((".ones", ".sqrt", ".abs")):
                return True, f"{ast.unparse(v.func).rsplit('.', 1)[-1]}(...) is non-negative"
        if len(vals) == 1 and vals[0][1] is None:
            return sign_of(idx, fi, vals[0][0], a, asg, depth + 1)
    return None, "no sign provenance"


def krylov_svd(idx, rep, rule):
    fi = rule.func
    a = rule.params[0][0]
    A = sym(a)
    te = TermEval(idx)
    # the locals holding the factors are identified by their position in the returned triple (U, Sigma, V); a factor written
    # inline in the returned triple is the definition of that role at the return
    rets = [r for r in df.returns(fi.node) if isinstance(r.value, ast.Tuple) and len(r.value.elts) == 3]
    if not rets:
        rep.undecided("back-substitution", rule.role, "the rule does not return a triple")
        return
    def roles_at(r):
        return {e.id: role for role, e in zip(("U", "Sigma", "V"), r.value.elts) if isinstance(e, ast.Name)}
    common = [r for r in rets if getattr(getattr(r, "_origin", r), "_parent", None) is fi.node]
    role_of_fn = roles_at(common[-1] if common else rets[-1])
    inline_defs = {id(getattr(r, "_origin", r)): [(role, e) for role, e in zip(("U", "Sigma", "V"), r.value.elts) if not isinstance(e, ast.Name)] for r in rets}
    solver_calls = []
    solver_outs = set()
    for st in df.body_nodes(fi.node):
        if isinstance(st, ast.Assign) and isinstance(st.value, ast.Call) and ast.unparse(st.value.func) in ("lanczos_eigs", "lobpcg") and isinstance(st.targets[0], ast.Tuple):
            solver_outs |= {e.id for e in st.targets[0].elts if isinstance(e, ast.Name)}
    for label, stmts in blocks(fi):
        gram = None
        # a branch that returns its own triple names its factors itself (`return right, Sigma, left` in one case, `left, Sigma, right` in the other)
        own = [r for r in rets if any(getattr(r, "_origin", r) is st for st in stmts)]
        role_of = roles_at(own[-1]) if own else role_of_fn
        sym_env = {n: sym(role) for n, role in role_of.items()}
        for st in stmts:
            for c in [n for n in ast.walk(st) if isinstance(n, ast.Call)]:
                f = ast.unparse(c.func)
                if f in ("lanczos_eigs", "lobpcg") and c.args:
                    ts = [norm(x) for x in te.eval_correlated(fi, c.args[0], sym_env)]
                    t = ts[0] if len(ts) == 1 else ("join", frozenset(ts))
                    kinds_ = {("HA·A" if x == norm(MUL(H(A), A)) else ("A·HA" if x == norm(MUL(A, H(A))) else None)) for y in ts for x in alternatives(y)}
                    kind = next(iter(kinds_)) if len(kinds_) == 1 else (None if None in kinds_ else "either")
                    gram = kind if kind != "either" else None
                    solver_calls.append(c)
                    rep.decide(kind is not None, "gram-operator", f"{rule.role}:{label}", f"{f} runs on {show(t)}" + ("" if kind else f"; required H({a})·{a} or {a}·H({a})"),
                               detail="" if kind else "gram", locs=[idx.loc(fi.module, c)])
            defs_here = []
            if isinstance(st, ast.Assign) and len(st.targets) == 1 and isinstance(st.targets[0], ast.Name):
                defs_here.append((role_of.get(st.targets[0].id), st.value, st.targets[0].id))
            elif isinstance(st, ast.Return):
                defs_here += [(role, e, None) for role, e in inline_defs.get(id(st), [])]
            for tgt, value, local in defs_here:
                if tgt not in ("U", "V") or gram is None:
                    continue
                # which factor came out of the eigen-solver in this block?
                # (a selection of the solver's own output -- under whatever name -- with no operator product in it)
                direct = (local is not None and any(isinstance(n, ast.Subscript) and isinstance(n.value, ast.Name) and n.value.id == local for n in ast.walk(value))) or \
                    (bool(set(df.names_in(value)) & solver_outs) and not any(isinstance(n, ast.BinOp) and isinstance(n.op, ast.MatMult) for n in ast.walk(value)))
                if direct:
                    continue
                t = te.eval_in(fi, value, sym_env)
                hyp = frozenset({("real", sym("Sigma")), ("symm", sym("Sigma"))})
                if gram == "HA·A" and tgt == "U":
                    want = MUL(A, sym("V"), INV(sym("Sigma")))
                elif gram == "A·HA" and tgt == "V":
                    want = MUL(H(A), sym("U"), INV(sym("Sigma")))
                else:
                    rep.refuted("back-substitution", f"{rule.role}:{label}:{tgt}", f"{tgt} is recomputed although the eigen-solver on {gram} already yields it", detail="role", locs=[idx.loc(fi.module, st)])
                    continue
                ok = equal(t, want, hyp)
                rep.decide(ok, "back-substitution", f"{rule.role}:{label}:{tgt}", f"{tgt} = {show(norm(t, hyp))}; required {show(norm(want, hyp))}"
                           + (f" [outside the grammar: {opaque_text(norm(t))}]" if ok is None else ""), detail="" if ok else "meaning", locs=[idx.loc(fi.module, st)])
    if not solver_calls:
        rep.undecided("gram-operator", rule.role, "no eigen-solver call found")




def _shape_rel(test, a, fnode=None):
    """relation between rows and columns of operator `a` stated by a comparison of a.shape[0] and a.shape[1] (also through
    locals bound to them, `rows, cols = a.shape`): one of 'r<c', 'r<=c', 'r>c', 'r>=c', 'r==c', 'r!=c' or None"""
    if not (isinstance(test, ast.Compare) and len(test.ops) == 1):
        return None
    def axis(e, depth=0):
        if isinstance(e, ast.Name) and fnode is not None and depth < 3:
            vals = [(v, p) for v, p, st in df.assignments(fnode).get(e.id, []) if not isinstance(v, ast.AugAssign)]
            if len(vals) == 1:
                v, p = vals[0]
                if p is None:
                    return axis(v, depth + 1)
                if len(p) == 1 and isinstance(p[0], int) and isinstance(v, ast.Attribute) and v.attr == "shape" and isinstance(v.value, ast.Name) and v.value.id == a:
                    return {0: "r", -2: "r", 1: "c", -1: "c"}.get(p[0])
            return None
        if isinstance(e, ast.Subscript) and isinstance(e.value, ast.Attribute) and e.value.attr == "shape" and isinstance(e.value.value, ast.Name) and e.value.value.id == a:
            i = e.slice
            v = i.value if isinstance(i, ast.Constant) else (-i.operand.value if isinstance(i, ast.UnaryOp) and isinstance(i.op, ast.USub) and isinstance(i.operand, ast.Constant) else None)
            return {0: "r", -2: "r", 1: "c", -1: "c"}.get(v)
        return None
    l, r = axis(test.left), axis(test.comparators[0])
    if l is None or r is None or l == r:
        return None
    op = {ast.Lt: "<", ast.LtE: "<=", ast.Gt: ">", ast.GtE: ">=", ast.Eq: "==", ast.NotEq: "!="}.get(type(test.ops[0]))
    if op is None:
        return None
    if l == "c":  # mirror to rows on the left
        op = {"<": ">", "<=": ">=", ">": "<", ">=": "<=", "==": "==", "!=": "!="}[op]
    return f"r{op}c"


def gram_side(idx, rep, rule_name="gram-side"):
    """A Krylov svd rule takes the eigenpairs of a Gram matrix and obtains the other factor by back substitution through inv(Sigma).
    A^H A is n-by-n and A A^H is m-by-m: the one on the LONGER side of a non-square A is singular (|m - n| zero eigenvalues), so a
    request that reaches the bottom of its spectrum (which='SM', or more pairs than min(m, n)) selects zero singular values, the back
    substitution divides by them, and the factor that is then wrapped in Unitary is not orthonormal.  On the branch a solver call sits
    in, the shape relation established by the enclosing conditions must put the Gram matrix on the shorter side."""
    mods = frozenset(idx.closure([m for m in idx.optional_modules() if m.endswith(".svd.svd")]))
    res = Resolver(idx, mods)
    n = 0
    for rule in res.rules_of("svd"):
        if sorted(rule.types[-1]) not in (["Lanczos"], ["LOBPCG"]):
            continue
        fi, a = rule.func, rule.params[0][0]
        A = sym(a)
        te = TermEval(idx)
        for c in df.calls(fi.node):
            if ast.unparse(c.func) not in ("lanczos_eigs", "lobpcg") or not c.args:
                continue
            ts = [norm(x) for x in te.eval_correlated(fi, c.args[0], {})]
            kinds_ = {("HA·A" if x == norm(MUL(H(A), A)) else ("A·HA" if x == norm(MUL(A, H(A))) else None)) for y in ts for x in alternatives(y)}
            if len(kinds_) != 1 or None in kinds_:
                continue  # gram-operator (C16) reports an unrecognised argument
            kind = next(iter(kinds_))
            n += 1
            rels = {}
            for t, pol in df.branch_conditions(c, fi.node):
                if isinstance(t, ast.Name):
                    t = df.resolve_value(fi.node, t)  # a named test (`is_wide = A.shape[1] > A.shape[0]`)
                t, pol = df.normalise_test(t, pol)
                r = _shape_rel(t, a, fi.node)
                if r is None:
                    continue
                if not pol:
                    r = {"r<c": "r>=c", "r<=c": "r>c", "r>c": "r<=c", "r>=c": "r<c", "r==c": "r!=c", "r!=c": "r==c"}[r]
                rels[r] = ast.unparse(t)
            side = "columns" if kind == "HA·A" else "rows"
            good = {"r>=c", "r>c", "r==c"} if kind == "HA·A" else {"r<=c", "r<c", "r==c"}
            bad = {"r<c", "r<=c"} if kind == "HA·A" else {"r>c", "r>=c"}
            construct = f"{rule.role}:{kind}"
            loc = [idx.loc(fi.module, c)]
            gram_txt = f"{a}^H {a}" if kind == "HA·A" else f"{a} {a}^H"
            if set(rels) & good:
                rep.proved(rule_name, construct, f"the Gram matrix {gram_txt} (size = number of {side}) is used where `{rels[next(iter(set(rels) & good))]}` "
                           f"makes the {side} the shorter side", locs=loc)
            elif set(rels) & bad:
                rep.refuted(rule_name, construct, f"the Gram matrix {gram_txt} (size = number of {side}) is used on the branch where the {side} are the LONGER side "
                            f"(`{rels[next(iter(set(rels) & bad))]}`): it is singular there, a selection from the bottom of its spectrum yields zero singular values and the "
                            "back-substituted factor wrapped in Unitary is not orthonormal", detail="longer-side", locs=loc)
            else:
                rep.refuted(rule_name, construct, f"the Gram matrix {gram_txt} (size = number of {side}) is used whatever the shape of {a}: for an operator with more {side} "
                            "than the other dimension it is singular, a selection from the bottom of its spectrum yields zero singular values and the back-substituted "
                            "factor wrapped in Unitary is not orthonormal", detail="unconditional", locs=loc)
    return n


def zero_masks(idx, rep, core):
    """A pseudo-inverse rule that inverts only the entries it does not call zero decides "zero" on the MAGNITUDE of the entry.  A mask
    built by an ordering comparison on the raw payload (`d > cutoff`) calls every negative entry -- and, under numpy's lexicographic
    order, every complex entry with a non-positive real part -- zero: pinv(diag(-2)) would be 0 instead of -1/2."""
    res = core  # a Resolver over the core configuration
    for rule in res.rules_of("pinv"):
        fi = rule.func
        a = rule.params[0][0]

        def raw_payload(e, depth=0):
            """True: the (signed) payload itself; False: passed through abs / a magnitude; None: something else"""
            if depth > 6:
                return None
            if isinstance(e, ast.Name):
                v = df.resolve_value(fi.node, e)
                return None if v is e or v is None else raw_payload(v, depth + 1)
            if isinstance(e, ast.Attribute) and isinstance(e.value, ast.Name) and e.value.id == a:
                return True
            if isinstance(e, ast.Attribute) and e.attr == "real":
                return raw_payload(e.value, depth + 1)
            if isinstance(e, ast.Call):
                nm = df.is_xnp_call(e) or (e.func.id if isinstance(e.func, ast.Name) else None)
                if nm in ("abs", "absolute", "norm") and e.args:
                    return False if raw_payload(e.args[0], depth + 1) is not None else None
            if isinstance(e, ast.BinOp) and isinstance(e.op, ast.Mult):
                # d * conj(d), d ** 2 style magnitudes are not interpreted
                return None
            return None
        n = 0
        for c in df.calls(fi.node):
            if df.is_xnp_call(c) != "where" or len(c.args) != 3:
                continue
            m = c.args[0]
            m = df.resolve_value(fi.node, m) if isinstance(m, ast.Name) else m
            if not isinstance(m, ast.Compare) or len(m.ops) != 1:
                continue
            sides = [raw_payload(m.left), raw_payload(m.comparators[0])]
            if all(x is None for x in sides):
                continue
            n += 1
            ordering = isinstance(m.ops[0], (ast.Gt, ast.GtE, ast.Lt, ast.LtE))
            raw = any(x is True for x in sides)
            bad = ordering and raw
            rep.decide(not bad, "zero-mask", f"{rule.role}:mask#{n}",
                       f"`{ast.unparse(m)}` selects the entries to invert " + ("by their magnitude (or by inequality with zero)" if not bad else
                       f"by an ordering test on the signed payload `{a}.{ast.unparse(m.left if sides[0] else m.comparators[0]).split('.')[-1]}`: negative entries (and complex ones with a non-positive real part) are called zero and left un-inverted"),
                       detail="" if not bad else "signed", locs=[idx.loc(fi.module, c)])
