"""Specification side of C04: the argument kinds each public combinator / linalg
function documents (property statement + docstrings).  One line per function,
with the reason.  Position kinds:
  OP     any LinearOperator kind                OPARR  operator or plain array (lazified)
  SCALAR python/numpy scalar or 0-d array       NUMBER numbers.Number exponent
  INT    int   STR  'LM'|'SM'   CALL a callable
  ALG    an algorithm object admitted at that slot (slot filled from the repository)
A trailing '?' marks an optional (defaulted) argument.
Functions not listed here are still checked on the domain their own rules document.
"""
DOMAINS = {
    "dot": ["OP", "OP"],  # A @ B for two operators (operator_base.__matmul__/__rmatmul__)
    "add": ["OPARR", "OPARR"],  # A + B, arrays are lazified by the (Any, Any) rule
    "mul": ["OP", "SCALAR"],  # c * A and A * c both arrive as mul(A, c)
    "transpose": ["OP"],  # A.T
    "adjoint": ["OP"],  # A.H
    "kron": ["OPARR", "OPARR"],  # exported; arrays are lazified
    "kronsum": ["OPARR", "OPARR"],  # exported; arrays are lazified
    "get_annotations": ["OP"],  # called by every constructor
    "inv": ["OP", "ALG?"],  # inv(A, alg=Auto())
    "pinv": ["OP", "ALG?"],
    "slogdet": ["OP", "ALG?", "ALG?"],  # slogdet(A, log_alg, trace_alg)
    "diag": ["OP", "INT?", "ALG?"],
    "trace": ["OP", "ALG?"],
    "apply_unary": ["CALL", "OP", "ALG?"],
    "exp": ["OP", "ALG?"],
    "log": ["OP", "ALG?"],
    "sqrt": ["OP", "ALG?"],
    "isqrt": ["OP", "ALG?"],
    "pow": ["OP", "NUMBER", "ALG?"],
    "eig": ["OP", "INT", "STR?", "ALG?"],
    "svd": ["OP", "INT", "STR?", "ALG?"],
    "cholesky": ["OP"],
    "plu": ["OP"],
}
