#!/bin/sh
# usage: try_benign.sh <dir with patch.diff> [Cxx ...]   -- applies the patch to /repo, runs the (given or all) checks, prints only what is not exit 0, reverts
d="$(cd "$1" && pwd)"; shift
cd /repo || exit 2
if ! git diff --quiet; then echo "repo dirty"; exit 2; fi
if ! git apply --check "$d/patch.diff" 2>/dev/null; then echo "PATCH DOES NOT APPLY: $d"; exit 3; fi
git apply "$d/patch.diff"
props="$@"; [ -z "$props" ] && props="C01 C02 C03 C04 C05 C06 C07 C08 C09 C10 C11 C12 C14 C15 C16 C17 C18 C19 C20"
ev=$(mktemp -d /tmp/ev.XXXXXX)
echo $props | tr ' ' '\n' | xargs -P 16 -I{} sh -c "/verif/check {} --evidence-dir $ev/{} > $ev/{}.out 2>&1; echo \$? > $ev/{}.rc"
for p in $props; do rc=$(cat $ev/$p.rc); if [ "$rc" != "0" ]; then echo "--- $p exit=$rc"; grep -E "^(REFUTED|ANALYSIS|UNDECIDED)" $ev/$p.out | grep -v "^UNDECIDED.*known" | cut -c1-${WIDTH:-300} | head -${LINES_MAX:-8}; fi; done
git checkout -- . ; rm -rf "$ev"
