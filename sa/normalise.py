"""Source normal form used by the index: every single-assignment, single-use temporary whose use is in the very next
statement of the same block is inlined (`t = e; return f(t)` -> `return f(e)`).

Checks are written against this normal form, so introducing or removing such temporaries (the most common
behaviour-preserving refactoring) cannot change a verdict.  Moved expression nodes keep their original positions,
so reported locations still point into the file as written.  Names that occur in nested scopes (closures, lambdas,
comprehensions), parameters, multiply-assigned or multiply-read names are never touched, nor are uses inside
compound statements (the temporary may be evaluated a different number of times there)."""
import ast

COMPOUND = (ast.For, ast.AsyncFor, ast.While, ast.If, ast.With, ast.AsyncWith, ast.Try, ast.FunctionDef, ast.AsyncFunctionDef, ast.ClassDef, ast.Match)
SCOPES = (ast.FunctionDef, ast.AsyncFunctionDef, ast.Lambda, ast.ListComp, ast.GeneratorExp, ast.SetComp, ast.DictComp, ast.ClassDef)


def _process_function(fn):
    n = 0
    while True:
        loads, stores = {}, {}
        nested_names = set()
        simple = {}  # name -> number of stores that are `name = <expr>` statements whose next sibling reads the name exactly once

        def scan(node, nested):
            for c in ast.iter_child_nodes(node):
                inner = nested or isinstance(c, SCOPES)
                if isinstance(c, ast.Name):
                    (loads if isinstance(c.ctx, ast.Load) else stores).setdefault(c.id, []).append(c)
                    if inner:
                        nested_names.add(c.id)
                elif isinstance(c, ast.arg):
                    stores.setdefault(c.arg, []).extend([c, c])  # parameters are never temporaries
                elif isinstance(c, (ast.Global, ast.Nonlocal)):
                    for nm in c.names:
                        stores.setdefault(nm, []).extend([c, c])
                elif isinstance(c, ast.AugAssign) and isinstance(c.target, ast.Name):
                    loads.setdefault(c.target.id, []).extend([c, c])  # `x op= e` reads x as well: never a single-use temporary
                elif isinstance(c, (ast.MatchAs, ast.MatchStar)) and c.name:
                    stores.setdefault(c.name, []).extend([c, c])
                scan(c, inner)
        scan(fn, False)

        def blocks_of(node):
            for f in ("body", "orelse", "finalbody"):
                b = getattr(node, f, None)
                if isinstance(b, list) and b and isinstance(b[0], ast.stmt):
                    yield b
            for h in getattr(node, "handlers", []) or []:
                yield h.body
            for c in getattr(node, "cases", []) or []:
                yield c.body

        def count_simple(blk):
            for i, st in enumerate(blk):
                if isinstance(st, ast.Assign) and len(st.targets) == 1 and isinstance(st.targets[0], ast.Name) and i + 1 < len(blk) and not isinstance(blk[i + 1], COMPOUND):
                    x = st.targets[0].id
                    uses = [y for y in ast.walk(blk[i + 1]) if isinstance(y, ast.Name) and y.id == x and isinstance(y.ctx, ast.Load)]
                    self_ref = any(isinstance(y, ast.Name) and y.id == x and isinstance(y.ctx, ast.Load) for y in ast.walk(st.value))
                    if len(uses) == 1 and not self_ref:
                        simple[x] = simple.get(x, 0) + 1
                if not isinstance(st, (ast.FunctionDef, ast.AsyncFunctionDef, ast.ClassDef)):
                    for b in blocks_of(st):
                        count_simple(b)
        count_simple(fn.body)
        changed = False

        def do_block(blk):
            nonlocal n, changed
            i = 0
            while i < len(blk) - 1:
                st, nx = blk[i], blk[i + 1]
                if (isinstance(st, ast.Assign) and len(st.targets) == 1 and isinstance(st.targets[0], ast.Name) and not isinstance(nx, COMPOUND)
                        and not isinstance(st.value, (ast.Lambda, ast.Yield, ast.YieldFrom, ast.Await))):
                    x = st.targets[0].id
                    # a temporary: every store of the name is such an assignment and every load is the single use that follows one
                    # (one store and one load; or one name re-used for the same purpose in several branches)
                    n_st, n_ld = len(stores.get(x, [])), len(loads.get(x, []))
                    if n_st == n_ld == simple.get(x, 0) and n_st >= 1 and x not in nested_names:
                        uses_here = [y for y in ast.walk(nx) if isinstance(y, ast.Name) and y.id == x and isinstance(y.ctx, ast.Load)]
                        if len(uses_here) == 1:
                            use, val = uses_here[0], st.value

                            class R(ast.NodeTransformer):
                                def visit_Name(self, node):
                                    return val if node is use else node
                            blk[i + 1] = R().visit(nx)
                            del blk[i]
                            n += 1
                            changed = True
                            return True  # the counts are stale now: restart the scan of the function
                i += 1
            for s in blk:
                if isinstance(s, (ast.FunctionDef, ast.AsyncFunctionDef, ast.ClassDef)):
                    continue
                for b in blocks_of(s):
                    if do_block(b):
                        return True
            return False

        do_block(fn.body)
        if not changed:
            return n


def normalise(tree):
    """in place; returns the number of temporaries inlined"""
    total = 0
    for x in ast.walk(tree):
        if isinstance(x, (ast.FunctionDef, ast.AsyncFunctionDef)):
            total += _process_function(x)
    return total
