"""Source index (DESIGN.md section 2.1): modules, name resolution, class table,
function table, dispatch-rule table, backend table, import graph.

Everything is derived from the syntax trees of ``<root>/cola/**/*.py``; the
package is never imported.
"""
import ast
import sys
import hashlib
import os

PKG = "cola"
BACKENDS = ("np_fns", "jax_fns", "torch_fns")


class AnalysisError(Exception):
    """The analysis itself is broken (vanished anchor, unparsable file...): exit 2."""


class Ent:
    """Result of resolving a name: kind in
    module | class | funcs | value | external | builtin | local | xnp"""
    __slots__ = ("kind", "val", "mod")

    def __init__(self, kind, val, mod=None):
        self.kind, self.val, self.mod = kind, val, mod

    def __repr__(self):
        return f"Ent({self.kind},{self.val if self.kind in ('module','external','builtin','local','xnp') else getattr(self.val,'qual',self.val)})"


_NF_DIGEST = []


def _nf_key(src):
    import hashlib
    if not _NF_DIGEST:
        here = os.path.dirname(os.path.abspath(__file__))
        h = hashlib.sha256()
        for f in ("normalise.py", ):
            with open(os.path.join(here, f), "rb") as fh:
                h.update(fh.read())
        h.update(sys.version.encode())
        _NF_DIGEST.append(h.hexdigest())
    return hashlib.sha256((_NF_DIGEST[0] + "\0" + src).encode()).hexdigest()


def _nf_cache_dir():
    if os.environ.get("COLA_VERIF_NO_NFCACHE"):
        return None
    d = os.path.join(os.path.dirname(os.path.dirname(os.path.abspath(__file__))), ".nfcache")
    try:
        os.makedirs(d, exist_ok=True)
        return d
    except OSError:
        return None


def _nf_cache_get(src):
    d = _nf_cache_dir()
    if d is None:
        return None
    import pickle
    try:
        path_ = os.path.join(d, _nf_key(src) + ".pkl")
        with open(path_, "rb") as fh:
            out = pickle.load(fh)
        try:
            os.utime(path_, None)
        except OSError:
            pass
        return out
    except Exception:
        return None


def _nf_cache_put(src, value):
    d = _nf_cache_dir()
    if d is None or os.environ.get("COLA_VERIF_NFCACHE_RO"):
        return
    import pickle
    import tempfile
    try:
        fd, tmp = tempfile.mkstemp(dir=d, suffix=".tmp")
        with os.fdopen(fd, "wb") as fh:
            pickle.dump(value, fh, protocol=pickle.HIGHEST_PROTOCOL)
        os.replace(tmp, os.path.join(d, _nf_key(src) + ".pkl"))
        names = [n for n in os.listdir(d) if n.endswith(".pkl")]
        if len(names) > 400:  # one-off entries of patched trees: keep the most recently used
            names.sort(key=lambda n: os.path.getmtime(os.path.join(d, n)))
            for n in names[:len(names) - 250]:
                try:
                    os.remove(os.path.join(d, n))
                except OSError:
                    pass
    except Exception:
        pass


class Module:
    def __init__(self, name, path, rel, src, is_pkg):
        self.name, self.path, self.rel, self.src, self.is_pkg = name, path, rel, src, is_pkg
        # every analysis works on the normal form (sa/normalise.py).  The normal form of a file depends on nothing but its text and the
        # normaliser, so it is memoised under /verif/.nfcache (not committed; rebuilt when absent) keyed by the digest of both.
        cached = _nf_cache_get(src)
        if cached is not None:
            self.tree, self.n_inlined = cached
        else:
            try:
                self.tree = ast.parse(src, path)
            except SyntaxError as e:  # pragma: no cover
                raise AnalysisError(f"cannot parse {rel}: {e}")
            from sa.normalise import normalise
            self.n_inlined = normalise(self.tree)
            from sa.normalise import renumber_lines
            renumber_lines(self.tree)  # lineno = program order of the normal form; the source line is kept in _src_line
            _nf_cache_put(src, (self.tree, self.n_inlined))
        for parent in ast.walk(self.tree):
            for child in ast.iter_child_nodes(parent):
                child._parent = parent
        self.tree._parent = None
        self.imports = {}  # local name -> ('mod', dotted) | ('obj', dotted_module, attr)
        self.defs = {}  # name -> list of def nodes (ClassDef / FunctionDef) or ('assign', value)
        self.reexports = []  # dotted modules whose __all__ is merged in (import_from_all)
        self.package = name if is_pkg else name.rpartition(".")[0]

    def __repr__(self):
        return f"<Module {self.name}>"


class ClassInfo:
    def __init__(self, name, module, node, parent_fn=None):
        self.name, self.module, self.node, self.parent_fn = name, module, node, parent_fn
        self.qual = f"{module.name}:{name}"
        self.bases = []  # resolved base names (class names in cola, or external dotted strings)
        self.base_infos = []  # ClassInfo for in-package bases
        self.methods = {}  # name -> FuncInfo
        self.decorators = []

    def __repr__(self):
        return f"<Class {self.qual}>"


class FuncInfo:
    def __init__(self, name, module, node, cls=None, parent=None):
        self.name, self.module, self.node, self.cls, self.parent = name, module, node, cls, parent
        q = name
        p = parent
        while p is not None:
            q = f"{p.name}.{q}"
            p = p.parent
        if cls is not None and parent is None:
            q = f"{cls.name}.{name}"
        elif cls is not None:
            q = f"{cls.name}.{q}"
        self.short = q  # class-qualified role name without module
        self.qual = f"{module.name}:{q}"
        self.nested = {}  # name -> FuncInfo (nested defs)
        self.nested_classes = {}
        self.decorators = []

    @property
    def params(self):
        a = self.node.args
        return [x.arg for x in a.posonlyargs + a.args]

    def __repr__(self):
        return f"<Func {self.qual}@{getattr(self.node, '_src_line', self.node.lineno)}>"


class Rule:
    """One @dispatch-decorated definition."""
    def __init__(self, fname, func, kind, precedence, cond, params, order):
        self.fname, self.func, self.kind, self.precedence, self.cond = fname, func, kind, precedence, cond
        self.params = params  # list of (name, frozenset atoms, default node or None)
        self.order = order
        self.node = func.node
        self.module = func.module
        n = len(params)
        ndef = sum(1 for p in params if p[2] is not None)
        self.sigs = [tuple(p[1] for p in params)]
        if kind == "rule":
            for i in range(1, ndef + 1):
                self.sigs.append(tuple(p[1] for p in params[:n - i]))

    @property
    def types(self):
        return self.sigs[0]

    def type_names(self):
        return tuple("|".join(sorted(t)) for t in self.types)

    @property
    def role(self):
        s = f"{self.fname}({','.join(self.type_names())})"
        if self.cond is not None:
            s += "[cond]"
        return s

    @property
    def loc(self):
        return f"{self.module.rel}:{getattr(self.node, '_src_line', self.node.lineno)}"

    def __repr__(self):
        return f"<Rule {self.role} p={self.precedence} {self.loc}>"


BUILTIN_NAMES = set(dir(__builtins__)) if not isinstance(__builtins__, dict) else set(__builtins__)


def dotted_of(expr):
    """a.b.c -> ['a','b','c'] or None"""
    parts = []
    while isinstance(expr, ast.Attribute):
        parts.append(expr.attr)
        expr = expr.value
    if isinstance(expr, ast.Name):
        parts.append(expr.id)
        return parts[::-1]
    return None


def norm_text(node):
    """position-independent text of a node (keys never use line numbers)"""
    return ast.unparse(node)


def enclosing(node, kinds):
    p = getattr(node, "_parent", None)
    while p is not None and not isinstance(p, kinds):
        p = getattr(p, "_parent", None)
    return p


class Index:
    def __init__(self, root):
        self.root = os.path.abspath(root)
        pkgdir = os.path.join(self.root, PKG)
        if not os.path.isdir(pkgdir):
            raise AnalysisError(f"no {PKG}/ under {root}")
        self.modules = {}
        self.by_rel = {}
        for dp, dn, fns in os.walk(pkgdir):
            dn[:] = sorted(d for d in dn if d != "__pycache__")
            for f in sorted(fns):
                if not f.endswith(".py"):
                    continue
                path = os.path.join(dp, f)
                rel = os.path.relpath(path, self.root)
                parts = rel[:-3].split(os.sep)
                is_pkg = parts[-1] == "__init__"
                if is_pkg:
                    parts = parts[:-1]
                name = ".".join(parts)
                with open(path, encoding="utf-8") as fh:
                    src = fh.read()
                m = Module(name, path, rel, src, is_pkg)
                self.modules[name] = m
                self.by_rel[rel] = m
        self.classes = {}  # qual -> ClassInfo
        self.classes_by_name = {}  # name -> [ClassInfo]
        self.funcs = {}  # qual(+lineno for duplicates) -> FuncInfo
        self.funcs_by_node = {}
        self.funcs_by_name = {}
        self.rules = {}  # fname -> [Rule]
        self._collect_defs()
        self._resolve_bases()
        self._collect_rules()
        self._backend = None
        self._mark_xnp_calls()

    # ------------------------------------------------------------------ digests
    def digest(self, rels=None):
        h = hashlib.sha256()
        for rel in sorted(self.by_rel):
            if rels is None or rel in rels:
                h.update(rel.encode())
                h.update(self.by_rel[rel].src.encode())
        return h.hexdigest()[:16]

    # ------------------------------------------------------------------ collection
    def _collect_defs(self):
        for m in self.modules.values():
            self._collect_imports(m)
            self._walk_defs(m, m.tree.body, None, None)

    def _abs_import(self, m, node):
        if node.level == 0:
            return node.module
        base = m.package.split(".")
        if node.level > 1:
            base = base[:len(base) - (node.level - 1)]
        return ".".join(base + ([node.module] if node.module else []))

    def _collect_imports(self, m):
        for node in ast.walk(m.tree):
            if isinstance(node, ast.Import):
                for a in node.names:
                    if a.asname:
                        m.imports.setdefault(a.asname, ("mod", a.name))
                    else:
                        m.imports.setdefault(a.name.split(".")[0], ("mod", a.name.split(".")[0]))
            elif isinstance(node, ast.ImportFrom):
                src = self._abs_import(m, node)
                for a in node.names:
                    if a.name == "*":
                        m.reexports.append(src)
                        continue
                    m.imports.setdefault(a.asname or a.name, ("obj", src, a.name))
        # import_from_all / walk_packages idiom
        for node in ast.walk(m.tree):
            if isinstance(node, ast.Call) and isinstance(node.func, ast.Name) and node.func.id in ("import_from_all", "import_every"):
                if not node.args:
                    continue
                a0 = node.args[0]
                if isinstance(a0, ast.Constant) and isinstance(a0.value, str):
                    m.reexports.append(f"{m.package}.{a0.value}")
                elif isinstance(a0, ast.Name):
                    loop = enclosing(node, ast.For)
                    if loop is not None and "walk_packages" in ast.unparse(loop.iter) or loop is not None and "iter_modules" in ast.unparse(loop.iter):
                        for child in self._children_of(m):
                            m.reexports.append(child)

    def _children_of(self, m):
        """direct sub-modules and sub-packages (with __init__) of package m — what
        pkgutil.walk_packages(__path__) yields at the top level"""
        out = []
        prefix = m.name + "."
        for name, mod in sorted(self.modules.items()):
            if name.startswith(prefix) and "." not in name[len(prefix):]:
                out.append(name)
        return out

    def _walk_defs(self, m, body, cls, fn):
        for node in body:
            self._walk_def_node(m, node, cls, fn)

    def _walk_def_node(self, m, node, cls, fn):
        if isinstance(node, (ast.FunctionDef, ast.AsyncFunctionDef)):
            fi = FuncInfo(node.name, m, node, cls=cls if fn is None else None, parent=fn)
            if fn is not None and cls is not None:
                fi.cls_ctx = cls
            fi.decorators = list(node.decorator_list)
            key = fi.qual
            if key in self.funcs:
                key = f"{key}@{node.lineno}"
            self.funcs[key] = fi
            self.funcs_by_node[node] = fi
            self.funcs_by_name.setdefault(node.name, []).append(fi)
            if fn is not None:
                fn.nested.setdefault(node.name, fi)
            elif cls is not None:
                cls.methods.setdefault(node.name, fi)
            else:
                m.defs.setdefault(node.name, []).append(fi)
            enc_cls = cls if fn is None else getattr(fn, "enc_cls", None)
            fi.enc_cls = cls if cls is not None else enc_cls
            for sub in ast.iter_child_nodes(node):
                if sub in node.decorator_list:
                    continue
                self._walk_nested(m, sub, fi.enc_cls, fi)
        elif isinstance(node, ast.ClassDef):
            ci = ClassInfo(node.name, m, node, parent_fn=fn)
            ci.decorators = list(node.decorator_list)
            if fn is None and cls is None:
                self.classes[ci.qual] = ci
                m.defs.setdefault(node.name, []).append(ci)
            else:
                self.classes[f"{ci.qual}@{node.lineno}"] = ci
                if fn is not None:
                    fn.nested_classes[node.name] = ci
            self.classes_by_name.setdefault(node.name, []).append(ci)
            for sub in node.body:
                self._walk_def_node(m, sub, ci, None)
        elif fn is None and cls is None and isinstance(node, (ast.Assign, ast.AnnAssign)):
            targets = node.targets if isinstance(node, ast.Assign) else [node.target]
            if node.value is None:
                return
            for t in targets:
                if isinstance(t, ast.Name):
                    m.defs.setdefault(t.id, []).append(("assign", node.value))
        elif fn is None and cls is None and isinstance(node, (ast.If, ast.Try, ast.With, ast.For)):
            for sub in ast.iter_child_nodes(node):
                if isinstance(sub, ast.stmt):
                    self._walk_def_node(m, sub, cls, fn)
                elif isinstance(sub, ast.ExceptHandler):
                    for s2 in sub.body:
                        self._walk_def_node(m, s2, cls, fn)

    def _walk_nested(self, m, node, cls, fn):
        """find defs nested anywhere below a function body"""
        if isinstance(node, (ast.FunctionDef, ast.AsyncFunctionDef, ast.ClassDef)):
            self._walk_def_node(m, node, cls, fn)
            return
        for sub in ast.iter_child_nodes(node):
            self._walk_nested(m, sub, cls, fn)

    # ------------------------------------------------------------------ resolution
    def resolve_in_module(self, modname, name, _seen=None):
        _seen = _seen or set()
        if (modname, name) in _seen:
            return None
        _seen.add((modname, name))
        m = self.modules.get(modname)
        if m is None:
            return Ent("external", f"{modname}.{name}")
        if name in m.defs:
            d = m.defs[name]
            last = d[-1]
            if isinstance(last, ClassInfo):
                return Ent("class", last)
            if isinstance(last, FuncInfo):
                return Ent("funcs", [x for x in d if isinstance(x, FuncInfo)], m)
            return self._resolve_value(m, last[1], _seen)
        if name in m.imports:
            imp = m.imports[name]
            if imp[0] == "mod":
                return self._module_ent(imp[1])
            sub = f"{imp[1]}.{imp[2]}"
            if imp[1] in self.modules:
                r = self.resolve_in_module(imp[1], imp[2], _seen)
                if r is not None:
                    return r
                if sub in self.modules:
                    return Ent("module", sub)
                return None
            if sub in self.modules:
                return Ent("module", sub)
            return Ent("external", sub)
        # names re-exported through import_from_all override the sub-module attribute of the same name
        # (namespace.update runs after the import that binds the sub-module)
        for src in m.reexports:
            if src in self.modules:
                r = self.resolve_in_module(src, name, _seen)
                if r is not None and r.kind not in ("builtin", "module"):
                    return r
        if m.is_pkg and f"{modname}.{name}" in self.modules:
            return Ent("module", f"{modname}.{name}")
        return None

    def _module_ent(self, dotted):
        if dotted in self.modules:
            return Ent("module", dotted)
        return Ent("external", dotted)

    def _resolve_value(self, m, value, _seen=None):
        r = self.resolve_expr(m, value, None, _seen)
        if r is not None:
            return r
        return Ent("value", value, m)

    def resolve_name(self, m, name, fn=None, _seen=None):
        """resolve identifier `name` as seen from function `fn` (or module level) of module m"""
        f = fn
        while f is not None:
            if name in f.nested:
                return Ent("funcs", [f.nested[name]], m)
            if name in f.nested_classes:
                return Ent("class", f.nested_classes[name])
            a = f.node.args
            pnames = {x.arg for x in a.posonlyargs + a.args + a.kwonlyargs}
            if a.vararg:
                pnames.add(a.vararg.arg)
            if a.kwarg:
                pnames.add(a.kwarg.arg)
            if name in pnames or name in local_names(f.node):
                return Ent("local", name)
            f = f.parent
        r = self.resolve_in_module(m.name, name, _seen)
        if r is not None:
            return r
        if name in BUILTIN_NAMES:
            return Ent("builtin", name)
        return None

    def resolve_expr(self, m, expr, fn=None, _seen=None):
        """resolve Name / dotted Attribute expressions to an entity"""
        if isinstance(expr, ast.Name):
            return self.resolve_name(m, expr.id, fn, _seen)
        if isinstance(expr, ast.Attribute):
            base = self.resolve_expr(m, expr.value, fn, _seen)
            if base is None:
                return None
            if base.kind == "module":
                r = self.resolve_in_module(base.val, expr.attr, _seen)
                if r is None:
                    sub = f"{base.val}.{expr.attr}"
                    if sub in self.modules:
                        return Ent("module", sub)
                return r
            if base.kind == "external":
                return Ent("external", f"{base.val}.{expr.attr}")
            if base.kind == "class":
                meth = self.find_method(base.val, expr.attr)
                if meth is not None:
                    return Ent("funcs", [meth], meth.module)
                return None
            return None
        return None

    # ------------------------------------------------------------------ classes
    def _resolve_bases(self):
        for ci in self.classes.values():
            for b in ci.node.bases:
                r = self.resolve_expr(ci.module, b, ci.parent_fn)
                if r is None:
                    d = dotted_of(b)
                    ci.bases.append(".".join(d) if d else ast.unparse(b))
                elif r.kind == "class":
                    ci.bases.append(r.val.name)
                    ci.base_infos.append(r.val)
                elif r.kind in ("external", "builtin"):
                    ci.bases.append(r.val)
                else:
                    ci.bases.append(ast.unparse(b))

    def mro(self, ci):
        out = [ci]
        for b in ci.base_infos:
            for x in self.mro(b):
                if x not in out:
                    out.append(x)
        return out

    def mro_names(self, ci):
        names = []
        for c in self.mro(ci):
            names.append(c.name)
            for b in c.bases:
                if b not in names and not any(b == x.name for x in c.base_infos):
                    names.append(b)
        return names

    def cls(self, name):
        """the unique top-level class called `name`"""
        cs = [c for c in self.classes_by_name.get(name, []) if c.parent_fn is None]
        if len(cs) != 1:
            raise AnalysisError(f"anchor class {name}: {len(cs)} definitions")
        return cs[0]

    def has_cls(self, name):
        return len([c for c in self.classes_by_name.get(name, []) if c.parent_fn is None]) == 1

    def subclasses(self, base_name, strict=False):
        out = []
        for ci in self.classes.values():
            if ci.parent_fn is not None:
                continue
            names = [c.name for c in self.mro(ci)]
            if base_name in names and not (strict and ci.name == base_name):
                out.append(ci)
        return sorted(out, key=lambda c: (c.module.name, c.node.lineno))

    def find_method(self, ci, name):
        for c in self.mro(ci):
            if name in c.methods:
                return c.methods[name]
        return None

    def is_subclass_name(self, a, b):
        """class-name level subtyping for concrete class a and type atom b"""
        if b in ("Any", "object"):
            return True
        if a == b:
            return True
        if a in ("Any",):
            return False
        prim = {
            "bool": ("int", "Number"),
            "int": ("Number", ),
            "float": ("Number", ),
            "complex": ("Number", ),
            "np.generic": ("Number", ),
            "function": ("Callable", ),
            "list": (),
            "tuple": (),
            "str": (),
            "ndarray": (),
            "NoneType": (),
        }
        if a in prim:
            return b in prim[a] or (a == "bool" and b == "Number")
        cs = [c for c in self.classes_by_name.get(a, []) if c.parent_fn is None]
        if len(cs) == 1:
            if b in self.mro_names(cs[0]):
                return True
            if b == "Callable" and self.find_method(cs[0], "__call__") is not None:
                return True
        return False

    # ------------------------------------------------------------------ types of annotations
    def type_atoms(self, m, ann, fn=None):
        if ann is None:
            return frozenset({"Any"})
        if isinstance(ann, ast.Constant):
            if ann.value is None:
                return frozenset({"NoneType"})
            if isinstance(ann.value, str):
                try:
                    return self.type_atoms(m, ast.parse(ann.value, mode="eval").body, fn)
                except SyntaxError:
                    return frozenset({"Any"})
        if isinstance(ann, ast.BinOp) and isinstance(ann.op, ast.BitOr):
            return self.type_atoms(m, ann.left, fn) | self.type_atoms(m, ann.right, fn)
        if isinstance(ann, ast.Subscript):
            base = self.resolve_expr(m, ann.value, fn)
            bname = base.val if base is not None and base.kind == "external" else None
            elts = ann.slice.elts if isinstance(ann.slice, ast.Tuple) else [ann.slice]
            if bname == "typing.Union":
                r = frozenset()
                for e in elts:
                    r |= self.type_atoms(m, e, fn)
                return r
            if bname == "typing.Optional":
                return self.type_atoms(m, elts[0], fn) | {"NoneType"}
            if bname in ("typing.List", ):
                return frozenset({"list"})
            if bname in ("typing.Tuple", ):
                return frozenset({"tuple"})
            if bname in ("typing.Set", ):
                return frozenset({"set"})
            if bname in ("typing.Callable", "collections.abc.Callable"):
                return frozenset({"Callable"})
            if base is not None and base.kind == "class":
                return frozenset({base.val.name})  # parametric pattern: approximated by its class
            return frozenset({"Any"})
        r = self.resolve_expr(m, ann, fn)
        if r is None:
            raise AnalysisError(f"unresolved annotation {ast.unparse(ann)} in {m.rel}")
        if r.kind == "class":
            return frozenset({r.val.name})
        if r.kind == "builtin":
            return frozenset({r.val})
        if r.kind == "external":
            tail = r.val
            table = {
                "typing.Any": "Any",
                "numbers.Number": "Number",
                "typing.Callable": "Callable",
                "collections.abc.Callable": "Callable",
                "typing.List": "list",
                "typing.Tuple": "tuple",
                "types.ModuleType": "module",
            }
            return frozenset({table.get(tail, tail)})
        if r.kind == "value":
            return self.type_atoms(r.mod, r.val, None)
        raise AnalysisError(f"annotation {ast.unparse(ann)} in {m.rel} resolves to {r}")

    # ------------------------------------------------------------------ dispatch rules
    def decorator_kind(self, fi, dec):
        """-> None | ('rule', precedence, cond) | ('abstract', 0, None)"""
        call = dec if isinstance(dec, ast.Call) else None
        target = dec.func if call else dec
        r = self.resolve_expr(fi.module, target, fi.parent)
        if r is None or r.kind != "external":
            return None
        if r.val == "plum.dispatch":
            prec, cond = 0, None
            if call:
                for k in call.keywords:
                    if k.arg == "precedence":
                        try:
                            prec = ast.literal_eval(k.value)
                        except ValueError:
                            raise AnalysisError(f"non-literal precedence at {fi.module.rel}:{getattr(dec, '_src_line', dec.lineno)}")
                    elif k.arg == "cond":
                        cond = k.value
            return ("rule", prec, cond)
        if r.val == "plum.dispatch.abstract":
            return ("abstract", 0, None)
        return None

    def _collect_rules(self):
        order = 0
        for modname in self.import_order():
            m = self.modules[modname]
            for node in m.tree.body:
                if not isinstance(node, ast.FunctionDef):
                    continue
                fi = self.funcs_by_node[node]
                for dec in node.decorator_list:
                    dk = self.decorator_kind(fi, dec)
                    if dk is None:
                        continue
                    a = node.args
                    pos = a.posonlyargs + a.args
                    ndef = len(a.defaults)
                    params = []
                    for i, p in enumerate(pos):
                        d = a.defaults[i - (len(pos) - ndef)] if i >= len(pos) - ndef else None
                        params.append((p.arg, self.type_atoms(m, p.annotation), d))
                    rule = Rule(node.name, fi, dk[0], dk[1], dk[2], params, order)
                    order += 1
                    self.rules.setdefault(node.name, []).append(rule)
                    fi.rule = rule
                    break

    # ------------------------------------------------------------------ import graph / configurations
    def module_imports(self, m, top_level_only=False):
        """dotted names of in-package modules imported by m (in source order)"""
        out = []

        def add(name):
            parts = name.split(".")
            for i in range(1, len(parts) + 1):
                p = ".".join(parts[:i])
                if p in self.modules and p not in out:
                    out.append(p)

        nodes = m.tree.body if top_level_only else list(ast.walk(m.tree))
        stack = list(nodes)
        seq = []
        if top_level_only:
            # flatten compound statements at module level but do not descend into defs
            def flat(body):
                for n in body:
                    if isinstance(n, (ast.FunctionDef, ast.ClassDef, ast.AsyncFunctionDef)):
                        continue
                    seq.append(n)
                    for f in ("body", "orelse", "finalbody", "handlers"):
                        sub = getattr(n, f, None)
                        if sub:
                            flat([s for s in sub if isinstance(s, (ast.stmt, ast.ExceptHandler))])
            flat(m.tree.body)
        else:
            seq = stack
        for node in seq:
            if isinstance(node, ast.Import):
                for a in node.names:
                    add(a.name)
            elif isinstance(node, ast.ImportFrom):
                src = self._abs_import(m, node)
                if src:
                    add(src)
                    for a in node.names:
                        add(f"{src}.{a.name}")
            elif isinstance(node, ast.Expr) or isinstance(node, ast.For):
                for c in ast.walk(node):
                    if isinstance(c, ast.Call) and isinstance(c.func, ast.Name) and c.func.id in ("import_from_all", "import_every") and c.args:
                        a0 = c.args[0]
                        if isinstance(a0, ast.Constant) and isinstance(a0.value, str):
                            add(f"{m.package}.{a0.value}")
                        elif isinstance(a0, ast.Name) and isinstance(node, ast.For):
                            for ch in self._children_of(m):
                                add(ch)
        return out

    def import_order(self, roots=(PKG, ), extra=()):
        """modules in the order `import cola` executes them (DFS over top-level imports);
        modules never reached are appended afterwards in name order."""
        done, order = set(), []

        def visit(name):
            if name in done or name not in self.modules:
                return
            done.add(name)
            parts = name.split(".")
            for i in range(1, len(parts)):
                visit(".".join(parts[:i]))
            m = self.modules[name]
            for dep in self.module_imports(m, top_level_only=True):
                visit(dep)
            order.append(name)

        for r in roots:
            visit(r)
        core = list(order)
        for e in extra:
            visit(e)
        for name in sorted(self.modules):
            visit(name)
        self._core = core
        return order

    def core_modules(self):
        """modules loaded by `import cola` (incl. lazily imported ones inside functions)"""
        if not hasattr(self, "_core_full"):
            done = set()

            def visit(name):
                if name in done or name not in self.modules:
                    return
                done.add(name)
                parts = name.split(".")
                for i in range(1, len(parts)):
                    visit(".".join(parts[:i]))
                for dep in self.module_imports(self.modules[name], top_level_only=True):
                    visit(dep)

            visit(PKG)
            self._core_full = done
        return self._core_full

    def closure(self, names):
        done = set(self.core_modules())

        def visit(name):
            if name in done or name not in self.modules:
                return
            done.add(name)
            for dep in self.module_imports(self.modules[name], top_level_only=True):
                visit(dep)

        for n in names:
            visit(n)
        return done

    def optional_modules(self):
        core = self.core_modules()
        return sorted(n for n in self.modules if n not in core)

    # ------------------------------------------------------------------ backend table
    def backend(self):
        """name -> {backend: ('def', FuncInfo) | ('alias', dotted or text)}"""
        if self._backend is None:
            tab = {}
            for b in BACKENDS:
                m = self.modules.get(f"{PKG}.backends.{b}")
                if m is None:
                    raise AnalysisError(f"backend module {b} missing")
                for name, ds in m.defs.items():
                    last = ds[-1]
                    if isinstance(last, FuncInfo):
                        tab.setdefault(name, {})[b] = ("def", last)
                    elif isinstance(last, tuple):
                        r = self.resolve_expr(m, last[1])
                        if r is not None and r.kind == "external":
                            tab.setdefault(name, {})[b] = ("alias", r.val)
                        elif r is not None and r.kind == "funcs":
                            tab.setdefault(name, {})[b] = ("def", r.val[-1])
                        else:
                            tab.setdefault(name, {})[b] = ("alias", ast.unparse(last[1]))
                for name, imp in m.imports.items():
                    if name in m.defs:
                        continue
                    r = self.resolve_in_module(m.name, name)
                    if r is None:
                        continue
                    if r.kind == "external":
                        tab.setdefault(name, {})[b] = ("alias", r.val)
                    elif r.kind == "funcs":
                        tab.setdefault(name, {})[b] = ("def", r.val[-1])
            self._backend = tab
        return self._backend

    # ------------------------------------------------------------------ backend handles
    def _mark_xnp_calls(self):
        """tag every call `H.f(...)` whose receiver H is a backend handle with `_xnp_name = 'f'`:
        `<expr>.xnp`, a parameter called xnp, or a local bound to one of those / to get_library_fns(...) / get_xnp(...)"""
        def is_handle_expr(e, aliases):
            if isinstance(e, ast.Attribute) and e.attr == "xnp":
                return True
            if isinstance(e, ast.Name) and e.id in aliases:
                return True
            if isinstance(e, ast.Call) and isinstance(e.func, ast.Name) and e.func.id in ("get_library_fns", "get_xnp"):
                return True
            if isinstance(e, ast.Call) and isinstance(e.func, ast.Attribute) and e.func.attr in ("get_library_fns", "get_xnp"):
                return True
            return False

        def aliases_of(fi, inherited):
            al = set(inherited)
            a = fi.node.args
            for x in a.posonlyargs + a.args + a.kwonlyargs:
                if x.arg == "xnp":
                    al.add("xnp")
            changed = True
            while changed:
                changed = False
                for n in ast.walk(fi.node):
                    if isinstance(n, ast.Assign) and len(n.targets) == 1:
                        t, v = n.targets[0], n.value
                        if isinstance(t, ast.Name) and t.id not in al and is_handle_expr(v, al):
                            al.add(t.id)
                            changed = True
                        elif isinstance(t, ast.Tuple) and isinstance(v, ast.Tuple) and len(t.elts) == len(v.elts):
                            for a_, b_ in zip(t.elts, v.elts):
                                if isinstance(a_, ast.Name) and a_.id not in al and is_handle_expr(b_, al):
                                    al.add(a_.id)
                                    changed = True
            return al

        def mark(fi, inherited):
            al = aliases_of(fi, inherited)
            fi.xnp_aliases = al
            for n in ast.walk(fi.node):
                if isinstance(n, ast.Call) and isinstance(n.func, ast.Attribute) and is_handle_expr(n.func.value, al | {"xnp"} if "xnp" in al else al):
                    n._xnp_name = n.func.attr
            for g in fi.nested.values():
                mark(g, al)

        for fi in list(self.funcs.values()):
            if fi.parent is None:
                mark(fi, set())

    # ------------------------------------------------------------------ convenience
    def func(self, modname, short):
        for fi in self.funcs.values():
            if fi.module.name == modname and fi.short == short:
                return fi
        raise AnalysisError(f"anchor function {modname}:{short} not found")

    def funcs_named(self, name, top_level=True):
        return [f for f in self.funcs_by_name.get(name, []) if not top_level or (f.parent is None and f.cls is None)]

    def loc(self, m, node):
        return f"{m.rel}:{getattr(node, '_src_line', getattr(node, 'lineno', 0))}"

    def operator_classes(self):
        return self.subclasses("LinearOperator")

    def algorithm_classes(self):
        return self.subclasses("Algorithm")


def local_names(fnode):
    """names bound inside a function body (assignment targets, for/with targets, comprehension
    variables are not included), excluding nested function bodies"""
    cached = getattr(fnode, "_locals", None)
    if cached is not None:
        return cached
    names = set()

    def visit(n):
        for c in ast.iter_child_nodes(n):
            if isinstance(c, (ast.FunctionDef, ast.AsyncFunctionDef, ast.ClassDef)):
                names.add(c.name)
                continue
            if isinstance(c, ast.Lambda):
                continue
            if isinstance(c, ast.Name) and isinstance(c.ctx, (ast.Store, ast.Del)):
                names.add(c.id)
            elif isinstance(c, ast.MatchAs) and c.name:
                names.add(c.name)
            elif isinstance(c, ast.MatchStar) and c.name:
                names.add(c.name)
            elif isinstance(c, ast.ExceptHandler) and c.name:
                names.add(c.name)
            visit(c)

    visit(fnode)
    # nested function names are defs, handled by caller through fn.nested; drop them here
    for c in ast.walk(fnode):
        if c is not fnode and isinstance(c, (ast.FunctionDef, ast.AsyncFunctionDef, ast.ClassDef)):
            names.discard(c.name)
    try:
        fnode._locals = names
    except AttributeError:
        pass
    return names
