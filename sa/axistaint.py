"""AXIS-TAINT -- which axes of the parts' shapes an integer expression is computed from.

A block-structured product slices its operand into pieces whose sizes must come from the COLUMN counts of the blocks and assembles
the result from pieces whose sizes come from their ROW counts.  The value of an expression is the set of axes k of every `<x>.shape[k]`
read that flows into it (through arithmetic, names, comprehensions, zip / accumulate / sum, helper functions and methods of the operator
with their arguments bound -- `self._bounds(axis=-1)` reads axis 1); -1 / -2 are normalised to 1 / 0, an unknown axis is '?'."""
import ast

from sa.absint import AbsInt

E = frozenset()


class AxisTaint(AbsInt):
    def unknown(self, why=""):
        return E

    def const(self, node):
        if isinstance(node.value, int) and not isinstance(node.value, bool):
            return ("int", node.value)
        return E

    operand = None  # name of the operand parameter: its own shape is not a block size

    def param(self, fi, name):
        return ("operand", ) if name == self.operand else E

    def self_attr(self, fi, attr, node):
        return ("shapevec", ) if attr == "shape" else E

    def cyclic(self, name):
        return E

    def flat(self, v):
        if isinstance(v, frozenset):
            return v
        if isinstance(v, tuple) and v and v[0] == "tuple":
            return frozenset().union(*[self.flat(x) for x in v[1]]) if v[1] else E
        if isinstance(v, tuple) and v and v[0] == "join":
            return frozenset().union(*[self.flat(x) for x in v[1]])
        if isinstance(v, tuple) and v and v[0] == "zipped":
            return frozenset().union(*[self.flat(x) for x in v[1]]) if v[1] else E
        return E

    def join(self, vals):
        vals = list(vals)
        if len(vals) == 1:
            return vals[0]
        ints = {v for v in vals if isinstance(v, tuple) and v and v[0] == "int"}
        if len(ints) == 1 and len(vals) == len([v for v in vals if v in ints]):
            return next(iter(ints))
        if all(isinstance(v, tuple) and v and v[0] == "shapevec" for v in vals) and vals:
            return ("shapevec", )
        return frozenset().union(*[self.flat(v) for v in vals]) if vals else E

    def alternatives(self, v):
        return [v]

    def index(self, v, i):
        if isinstance(v, tuple) and v and v[0] == "tuple" and isinstance(i, int) and -len(v[1]) <= i < len(v[1]):
            return v[1][i]
        if isinstance(v, tuple) and v and v[0] == "zipped" and i == "*":
            return self.element_of(v, i)
        return self.flat(v)

    def element_of(self, v, i):
        # an element of zip(a, b, ..) is a tuple of one element of each: the components keep their own axes
        if isinstance(v, tuple) and v and v[0] == "zipped":
            return ("tuple", tuple(self.element_of(c, "*") if isinstance(c, tuple) and c and c[0] == "zipped" else self.flat(c) for c in v[1]))
        return self.flat(v)

    def attribute(self, base, attr, node, ctx):
        if isinstance(base, tuple) and base and base[0] == "operand":
            return ("opshape", ) if attr == "shape" else base
        if attr == "shape":
            return ("shapevec", )
        return self.flat(base)

    def subscript(self, base, node, ctx):
        if isinstance(base, tuple) and base and base[0] in ("opshape", ):
            return E
        if isinstance(base, tuple) and base and base[0] == "operand":
            return base  # a piece of the operand is still the operand
        if isinstance(base, tuple) and base and base[0] == "shapevec":
            k = self.ev(node.slice, ctx) if not isinstance(node.slice, ast.Slice) else None
            if isinstance(k, tuple) and k and k[0] == "int":
                return frozenset({{-1: 1, -2: 0}.get(k[1], k[1])})
            return frozenset({"?"})
        out = self.flat(base)
        if not isinstance(node.slice, ast.Slice):
            out |= self.flat(self.ev(node.slice, ctx))
        else:
            for e in (node.slice.lower, node.slice.upper, node.slice.step):
                if e is not None:
                    out |= self.flat(self.ev(e, ctx))
        return out

    def binop(self, node, l, r, ctx):
        if isinstance(l, tuple) and l and l[0] == "int" and isinstance(r, tuple) and r and r[0] == "int":
            try:
                v = {ast.Add: l[1] + r[1], ast.Sub: l[1] - r[1], ast.Mult: l[1] * r[1]}.get(type(node.op))
                if v is not None:
                    return ("int", v)
            except Exception:
                pass
        return self.flat(l) | self.flat(r)

    def unaryop(self, node, v, ctx):
        if isinstance(node.op, ast.USub) and isinstance(v, tuple) and v and v[0] == "int":
            return ("int", -v[1])
        return self.flat(v)

    def _all(self, args, kwargs):
        out = E
        for a in list(args) + list(kwargs.values()):
            out |= self.flat(a)
        return out

    def call_xnp(self, name, node, args, kwargs, ctx):
        return self._all(args, kwargs)

    def call_method(self, recv, name, node, args, kwargs, ctx):
        return self.flat(recv) | self._all(args, kwargs)

    def call_builtin(self, name, node, args, kwargs, ctx):
        if name == "zip" and args and not kwargs:
            return ("zipped", tuple(args))
        if name == "enumerate" and len(args) == 1:
            return ("zipped", (E, args[0]))
        if name in ("list", "tuple", "iter", "reversed") and len(args) == 1 and isinstance(args[0], tuple) and args[0] and args[0][0] == "zipped":
            return args[0]
        return self._all(args, kwargs)

    def call_external(self, dotted, node, args, kwargs, ctx):
        return self._all(args, kwargs)

    def call_class(self, ci, node, args, kwargs, ctx):
        return self._all(args, kwargs)

    def call_dispatch(self, fname, node, args, kwargs, ctx):
        return self._all(args, kwargs)

    def call_unknown(self, node, ctx):
        return E

    def follow_callee(self, callee):
        return callee.module.name.startswith("cola.ops")

    def other(self, node, ctx):
        if isinstance(node, (ast.ListComp, ast.GeneratorExp, ast.SetComp)):
            env = dict(ctx.env)
            out = E
            def bind(t, v):
                if isinstance(t, ast.Name):
                    env[t.id] = v
                elif isinstance(t, (ast.Tuple, ast.List)):
                    for i, e in enumerate(t.elts):
                        bind(e.value if isinstance(e, ast.Starred) else e, self.index(v, i) if not isinstance(e, ast.Starred) else self.flat(v))
            for g in node.generators:
                itv = self.ev(g.iter, AbsInt.Ctx(ctx.fi, env, ctx.depth + 1))
                out |= self.flat(itv)
                bind(g.target, self.index(itv, "*"))
            return out | self.flat(self.ev(node.elt, AbsInt.Ctx(ctx.fi, env, ctx.depth + 1)))
        if isinstance(node, (ast.List, ast.Tuple)):
            return frozenset().union(*[self.flat(self.ev(x, ctx)) for x in node.elts]) if node.elts else E
        return E
