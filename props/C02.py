"""C02 — transpose, adjoint, left multiplication (DESIGN.md section 4, C02) with TERM.

* every explicit `_rmatmat` must be the right-multiplication by the same matrix term that the
  class's `_matmat` left-multiplies with;
* the default `_rmatmat`'s self-adjoint shortcut must be X·A under H(A)=A;
* every transpose / adjoint rule must return T(A) / C(T(A)) under its own cond and the defining
  equation of its operand kind; `.T` / `.H` must call them.
"""
import ast

from sa import dataflow as df
from sa.term import C, H, I, INV, MUL, T, TermEval, alternatives, equal, has_opaque, norm, opaque_text, show, sym
from sa.termutil import kind_def, guard_hyps, strip_operand

OPAQUE_CLASSES = {"FFT": "FFT primitives", "Jacobian": "autodiff primitives", "Sliced": "scatter/gather buffers (shapes checked under C20)"}
# the defining equation of wrapper / payload kinds:  A = <term over A's attributes>
KIND_DEF = {
    "Transpose": lambda a: T(sym(f"{a}.A")),
    "Adjoint": lambda a: H(sym(f"{a}.A")),
    "Dense": lambda a: sym(f"{a}.A"),
    "Triangular": lambda a: sym(f"{a}.A"),
}


def run(idx, rep, tier):
    te = TermEval(idx)
    # ------------------------------------------------------------ (a) explicit _rmatmat vs _matmat
    n = 0
    for ci in idx.operator_classes():
        # the left product of every CONCRETE kind, own or inherited from an intermediate base class (template-method bases
        # such as a shared Transpose/Adjoint implementation are evaluated once per concrete subclass, with `self` of that class)
        rm = idx.find_method(ci, "_rmatmat")
        if rm is None or ci.name == "LinearOperator" or rm.cls is None or rm.cls.name == "LinearOperator":
            continue
        if any(te._is_abstract(m_) for m_ in ci.methods.values()):
            continue  # an abstract base: judged through its concrete subclasses
        te.self_cls = ci
        mm = idx.find_method(ci, "_matmat")
        construct = f"{ci.name}._rmatmat"
        loc = idx.loc(rm.module, rm.node)
        if ci.name in OPAQUE_CLASSES:
            rep.note(f"{construct}: declared opaque ({OPAQUE_CLASSES[ci.name]})")
            continue
        if mm is None or mm.cls.name == "LinearOperator":
            rep.undecided("left-product", construct, "class has no own _matmat to compare with", locs=[loc])
            continue
        n += 1
        xm, xr = sym(mm.params[1]), sym(rm.params[1])
        rets_m = [r for r in df.returns(mm.node) if r.value is not None]
        rets_r = [r for r in df.returns(rm.node) if r.value is not None]
        if len(rets_m) != 1 or len(rets_r) != 1:
            rep.undecided("left-product", construct, "several return statements", locs=[loc])
            continue
        tm = te.eval_in(mm, rets_m[0].value)
        tr = te.eval_in(rm, rets_r[0].value)
        M = strip_operand(tm, xm, "right")
        if M is None or has_opaque(M):
            # composite kinds whose product is a reshape / concatenation algorithm: the matrix that algorithm is checked against (C01)
            M = kind_def(idx, ci.name, "self")
            if M is not None:
                tm = MUL(M, xm)
        if M is None or has_opaque(M):
            rep.undecided("left-product", construct, f"_matmat is not of the form M·X in the term grammar: {show(norm(tm))}", locs=[loc])
            continue
        # inside the class, `self` as a whole denotes the same matrix M
        defs = {sym("self"): M}
        want = MUL(xr, M)
        ok = equal(tr, want, defs=defs)
        got_s, want_s = show(norm(tr)), show(norm(want))
        rep.decide(ok, "left-product", construct, f"_matmat(X) = {show(norm(tm))}; _rmatmat(X) = {got_s}; required {want_s}" +
                   (f" [outside the grammar: {opaque_text(norm(tr))}]" if ok is None else ""), detail="" if ok else "mismatch", locs=[loc, idx.loc(mm.module, mm.node)],
                   derivation={"matmat": show(norm(tm)), "rmatmat": got_s, "want": want_s})
    te.self_cls = None
    # ------------------------------------------------------------ default _rmatmat, self-adjoint branch
    base = idx.cls("LinearOperator")
    drm = base.methods.get("_rmatmat")
    if drm is None:
        rep.missing_anchor("LinearOperator._rmatmat")
    else:
        found = False
        for r in df.returns(drm.node):
            hyp = guard_hyps(idx, drm, r)
            if ("herm", sym("self")) not in hyp:
                continue
            found = True
            t = te.eval_in(drm, r.value)
            # self._matmat(Y) is the product self·Y
            want = MUL(sym(drm.params[1]), sym("self"))
            ok = equal(t, want, hyp)
            rep.decide(ok, "left-product", "LinearOperator._rmatmat[SelfAdjoint]", f"under H(A)=A the shortcut evaluates to {show(norm(t, hyp))}; required {show(norm(want, hyp))}",
                       detail="" if ok else "mismatch", locs=[idx.loc(drm.module, r)])
            ok2 = equal(t, want, frozenset())
            if ok2 is True:
                rep.note("default _rmatmat shortcut does not need the self-adjoint hypothesis (unexpected)")
        if not found:
            rep.note("default _rmatmat has no self-adjoint shortcut")
        n += 1
    # ------------------------------------------------------------ Transpose / Adjoint wrappers: _matmat must be T(A)·X / H(A)·X
    for kind in ("Transpose", "Adjoint"):
        if not idx.has_cls(kind):
            rep.missing_anchor(f"class {kind}")
            continue
        ci = idx.cls(kind)
        mm = idx.find_method(ci, "_matmat")
        if mm is None or mm.cls is None or mm.cls.name == "LinearOperator":
            rep.missing_anchor(f"{kind}._matmat")
            continue
        te.self_cls = ci
        rets = [r for r in df.returns(mm.node) if r.value is not None]
        t = te.eval_in(mm, rets[0].value) if len(rets) == 1 else ("opaque", "returns")
        te.self_cls = None
        want = MUL(KIND_DEF[kind]("self"), sym(mm.params[1]))
        ok = equal(t, want)
        rep.decide(ok, "wrapper-product", f"{kind}._matmat", f"evaluates to {show(norm(t))}; required {show(norm(want))}", detail="" if ok else "mismatch",
                   locs=[idx.loc(mm.module, mm.node)])
    # ------------------------------------------------------------ kind hierarchy: a subclass is selected by every dispatch rule of its
    # ancestors, so it must represent the same matrix over the same attributes as they do
    for ci in idx.operator_classes():
        ancestors = [c for c in idx.mro(ci)[1:] if c.name != "LinearOperator" and c in idx.operator_classes()]
        for sup in ancestors:
            m_sub, m_sup = idx.find_method(ci, "_matmat"), idx.find_method(sup, "_matmat")
            construct = f"{ci.name}<{sup.name}"
            loc = [idx.loc(ci.module, ci.node)]
            if m_sub is None or m_sup is None or m_sub.cls.name == "LinearOperator":
                rep.undecided("kind-hierarchy", construct, "no own product method to derive the represented matrix from", locs=loc)
                continue
            if m_sub is m_sup:
                rep.proved("kind-hierarchy", construct, f"{ci.name} inherits the product of {sup.name}: same represented matrix", locs=loc, nontrivial=False)
                continue
            Ms = []
            for mth in (m_sub, m_sup):
                rets = [r for r in df.returns(mth.node) if r.value is not None]
                t = te.eval_in(mth, rets[0].value) if len(rets) == 1 else ("opaque", "returns")
                Ms.append(strip_operand(t, sym(mth.params[1]), "right"))
            if Ms[0] is None or Ms[1] is None or has_opaque(Ms[0]) or has_opaque(Ms[1]):
                rep.undecided("kind-hierarchy", construct, "a product method is outside the term grammar", locs=loc)
                continue
            ok = equal(Ms[0], Ms[1])
            inherited = sorted({r.role for rs in idx.rules.values() for r in rs if r.kind == "rule" and any(sup.name in ts for ts in r.types)
                                and not any(r2 is not r and r2.fname == r.fname and any(ci.name in ts for ts in r2.types) for r2 in idx.rules.get(r.fname, []))})
            rep.decide(ok, "kind-hierarchy", construct, f"{ci.name} represents {show(norm(Ms[0]))}, its base class {sup.name} represents {show(norm(Ms[1]))}" +
                       ("" if ok else f"; every dispatch rule written for {sup.name} operands is selected for a {ci.name} too ({len(inherited)} rules, e.g. {', '.join(inherited[:4])})"),
                       detail="" if ok else "meaning", locs=loc)
    # ------------------------------------------------------------ (b) transpose / adjoint rules
    for fname, mk in (("transpose", T), ("adjoint", H)):
        rules = [r for r in idx.rules.get(fname, []) if r.kind == "rule"]
        if not rules:
            rep.missing_anchor(f"dispatched function {fname}")
            continue
        for rule in rules:
            fi = rule.func
            a = rule.params[0][0]
            kinds = sorted(rule.types[0])
            construct = rule.role
            rets = [r for r in df.returns(fi.node) if r.value is not None]
            if not rets:
                rep.undecided("transpose-rule", construct, "no return")
                continue
            for r in rets:
                hyp = guard_hyps(idx, fi, r)
                defs = {}
                kind = kinds[0] if len(kinds) == 1 else None
                kd = kind_def(idx, kind, a) if kind is not None else None
                if kd is not None:
                    defs[sym(a)] = kd
                want = mk(sym(a))
                if kind == "Sparse":
                    ok, why = sparse_rule(r.value, a, fname)
                    rep.decide(ok, "transpose-rule", construct, why, detail="" if ok else "coo", locs=[idx.loc(fi.module, r)])
                    continue
                t = te.eval_in(fi, r.value)
                ok = equal(t, want, hyp, defs)
                if ok is False and kd is None and kind is not None and f"'{a}." in repr(norm(t, hyp)):
                    # the rule builds its result from the operand's payload attributes, but what the kind represents in terms of them
                    # could not be read off its _matmat (outside the term grammar): nothing to compare with
                    ok = None
                hy = ", ".join(sorted(f"{h[0]}({show(h[1])})" for h in hyp))
                rep.decide(ok, "transpose-rule", construct, f"returns {show(norm(t, hyp))}; required {show(norm(want if not defs else want, hyp))}"
                           + (f" = {show(norm(__import__('sa.term', fromlist=['expand']).expand(want, defs), hyp))}" if defs else "") + (f" under {hy}" if hy else "")
                           + (f" [outside the grammar: {opaque_text(norm(t))}]" if ok is None else ""),
                           detail="" if ok else f"got:{show(norm(t, hyp))}".replace(" ", ""), locs=[idx.loc(fi.module, r)])
                # triangular flag must flip exactly when the matrix is transposed
                if kind == "Triangular":
                    flag_ok = triangular_flag(r.value, a)
                    rep.decide(flag_ok, "transpose-rule", construct + ":lower", "the `lower` flag of the result is the negation of the operand's flag" if flag_ok else
                               "the `lower` flag is not flipped although the matrix is transposed", detail="" if flag_ok else "flag", locs=[idx.loc(fi.module, r)])
    # ------------------------------------------------------------ (c) .T / .H call the combinators
    for prop, fname in (("T", "transpose"), ("H", "adjoint")):
        m = base.methods.get(prop)
        if m is None:
            rep.missing_anchor(f"LinearOperator.{prop}")
            continue
        calls = [c for c in df.calls(m.node) if ast.unparse(c.func).endswith(fname) and c.args and ast.unparse(c.args[0]) == "self"]
        rep.decide(True if calls else False, "property-delegates", f"LinearOperator.{prop}", f".{prop} {'calls' if calls else 'does not call'} {fname}(self)",
                   detail="" if calls else "delegate", locs=[idx.loc(m.module, m.node)])
    rep.floor("left-product", 7)
    rep.floor("transpose-rule", 9)
    rep.floor("wrapper-product", 2)
    rep.floor("property-delegates", 2)
    rep.explanation = ("TERM: product methods and transpose/adjoint rules are evaluated into a free algebra over T, C, inv, products, sums and factor families and "
                       "normalised with the involution / anti-homomorphism identities; the self-adjoint hypothesis of a guard or cond is used as H(A)=A.")
    rep.assumptions += ["numerical agreement for any nesting is not decided", "opaque: " + ", ".join(f"{k} ({v})" for k, v in OPAQUE_CLASSES.items()) + ", the linear_transpose branch"]


def sparse_rule(expr, a, fname):
    """Sparse(data, rows, cols, shape): transpose swaps rows/cols and the shape; adjoint additionally conjugates data"""
    if not (isinstance(expr, ast.Call) and ast.unparse(expr.func).endswith("Sparse")):
        return None, "Sparse rule does not return a Sparse constructor call"
    b = df.bind_call(expr, ["data", "row_indices", "col_indices", "shape"])
    txt = {k: ast.unparse(v) for k, v in b.items() if not k.startswith("*")}
    rows_ok = txt.get("row_indices") == f"{a}.col_indices" and txt.get("col_indices") == f"{a}.row_indices"
    sh = txt.get("shape", "").replace(" ", "")
    shape_ok = sh in (f"({a}.shape[1],{a}.shape[0])", f"({a}.shape[-1],{a}.shape[-2])", f"{a}.shape[::-1]")
    data = txt.get("data", "")
    data_ok = data == f"{a}.data" if fname == "transpose" else ("conj" in data and f"{a}.data" in data)
    ok = rows_ok and shape_ok and data_ok
    return ok, f"Sparse({', '.join(f'{k}={v}' for k, v in txt.items())}): indices {'swapped' if rows_ok else 'NOT swapped'}, shape {'swapped' if shape_ok else 'NOT swapped'}, data {'ok' if data_ok else 'wrong'}"


def triangular_flag(expr, a):
    if isinstance(expr, ast.Call):
        for k in expr.keywords:
            if k.arg == "lower":
                return ast.unparse(k.value).replace(" ", "") in (f"not{a}.lower", f"(not{a}.lower)")
        if len(expr.args) > 1:
            return ast.unparse(expr.args[1]).replace(" ", "") == f"not{a}.lower"
    return None
