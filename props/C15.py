"""C15 — Arnoldi (DESIGN.md section 4, C15; thin): cap min(max_iters, n) with a counter from 0 tested by <,
zero-initialised buffers sized by the requested cap, sub-diagonal entries are norms, the normalisation floor
depends on the tolerance that detects breakdown, normalised first column, modified Gram-Schmidt projection
convention, consistent dropping of the last row / column in arnoldi_eigs."""
import ast

from sa import dataflow as df
from sa import loop as lp
from sa.krylov import basis_aliasing, buffer_dtype_obligations, clip_certificate, closure, first_column_obligation, nospace, norm_written, projection_convention


def fn(idx, rep, name):
    fs = [f for f in idx.funcs_named(name) if f.module.name.endswith("arnoldi")]
    if not fs:
        rep.missing_anchor(f"function {name}")
        return None
    return fs[-1]


def run(idx, rep, tier):
    arnoldi, fact, init, eigs = fn(idx, rep, "arnoldi"), fn(idx, rep, "arnoldi_fact"), fn(idx, rep, "init_arnoldi"), fn(idx, rep, "arnoldi_eigs")
    if not all((arnoldi, fact, init, eigs)):
        return
    a = fact.params[0]
    # ---- cap
    ok, clip_txt = clip_certificate(fact, a)
    rep.decide(ok, "loop-cap", "arnoldi_fact:clip", f"max_iters is clipped to `{clip_txt}`" + ("" if ok else f"; required min(max_iters, {a}.shape[0])"),
               detail="" if ok else "clip", locs=[idx.loc(fact.module, fact.node)])
    # the driver allocates the buffers: they must be sized by the clipped cap as well -- the loop stops after n steps, and columns /
    # rows of H beyond that stay zero, which arnoldi_eigs would diagonalise as spurious zero eigenvalues of A
    okd, clip_d = clip_certificate(arnoldi, arnoldi.params[0])
    rep.decide(okd, "loop-cap", "arnoldi:alloc-clip", (f"the driver clips the cap before it allocates the buffers: `{clip_d}`" if okd else
               f"the buffers are allocated for the requested max_iters ({clip_d}) while the loop inside {fact.short} stops at min(max_iters, n): for max_iters > n the zero padding "
               "of H is part of the returned factorisation and arnoldi_eigs returns max_iters - n spurious zero eigenvalues"), detail="" if okd else "alloc-clip",
               locs=[idx.loc(arnoldi.module, arnoldi.node)])
    loops = [l for l in lp.find_loops(idx, fact) if l.kind != "for"]
    if not loops:
        rep.missing_anchor("while loop of arnoldi_fact")
    else:
        l = loops[0]
        cert = lp.cap_certificate(idx, l)
        if cert["ok"] is not True:
            rep.decide(cert["ok"], "loop-cap", "arnoldi_fact:loop", cert["why"], detail="no-cap" if cert["ok"] is False else "", locs=[idx.loc(fact.module, l.call)])
        else:
            okc, why = lp.counter_step(idx, l, cert["counter_slot"])
            rets = [r.value for r in df.returns(init.node) if isinstance(r.value, ast.Tuple)]
            start = None
            if rets:
                e = rets[0].elts[cert["counter_slot"]]
                vals = [v for v, p, st in df.assignments(init.node).get(e.id, [])] if isinstance(e, ast.Name) else [e]
                if vals and isinstance(vals[0], ast.Call) and vals[0].args and isinstance(vals[0].args[0], ast.Constant):
                    start = vals[0].args[0].value
            consistent = (start == 0 and cert["strict"]) or (start == 1 and not cert["strict"])
            v = okc if okc is not True else (True if consistent else (False if start in (0, 1) else None))
            rep.decide(v, "loop-cap", "arnoldi_fact:loop", f"cond contains `{cert['expr']}`; {why}; counter starts at {start}", detail="" if v is not False else "off-by-one",
                       locs=[idx.loc(fact.module, l.call)])
        okq, whyq = lp.batch_quantifier(idx, l)
        rep.decide(okq, "batch-quantifier", "arnoldi_fact:cond", whyq, detail="" if okq is not False else "quantifier", locs=[idx.loc(fact.module, l.call)])
        basis_aliasing(idx, rep, l, "arnoldi_fact:body")
        if cert.get("ok") is True:
            from sa.krylov import breakdown_reference
            breakdown_reference(idx, rep, fact, "breakdown-reference", "arnoldi_fact:cond", l, cert["counter_slot"])
    # ---- buffers: zeros, sized by the requested cap
    # roles by position in init_arnoldi's returned state (slot 0 = basis Q, slot 1 = Hessenberg H), not by local name
    bufs = {}
    irets = [r.value for r in df.returns(init.node) if isinstance(r.value, ast.Tuple) and len(r.value.elts) >= 2]
    ALLOC = ("zeros", "empty", "ones", "zeros_like", "empty_like")
    for r in irets[:1]:
        for role, e in zip(("Q", "H"), r.elts[:2]):
            # the allocation bound to the returned name, or written in the returned tuple itself
            cands = [v for v, p, st in df.assignments(init.node).get(e.id, [])] if isinstance(e, ast.Name) else [e]
            for v in cands:
                # the buffer under the writes that fill it: update_array(update_array(zeros(..), ..), ..) -> zeros(..)
                while isinstance(v, ast.Call) and df.is_xnp_call(v) == "update_array" and v.args:
                    v = df.resolve_value(init.node, v.args[0]) if isinstance(v.args[0], ast.Name) else v.args[0]
                if isinstance(v, ast.Call) and df.is_xnp_call(v) in ALLOC:
                    shape = next((k.value for k in v.keywords if k.arg == "shape"), v.args[0] if v.args else None)
                    bufs[role] = (df.is_xnp_call(v), nospace(shape) if shape is not None else "", v)
    if set(bufs) != {"H", "Q"}:
        rep.undecided("buffers", "init_arnoldi", f"buffers found: {sorted(bufs)}")
    else:
        cap = init.params[2] if len(init.params) > 2 else "max_iters"
        def linform(e, fnode, depth=0):
            """integer expression -> {name: coefficient, 1: constant} through singly-bound names; None outside the fragment"""
            if isinstance(e, ast.Constant) and isinstance(e.value, int):
                return {1: e.value}
            if isinstance(e, ast.Name):
                v = df.resolve_value(fnode, e)
                if v is not e and depth < 5:
                    return linform(v, fnode, depth + 1)
                return {e.id: 1}
            if isinstance(e, ast.BinOp) and isinstance(e.op, (ast.Add, ast.Sub)):
                l, r = linform(e.left, fnode, depth), linform(e.right, fnode, depth)
                if l is None or r is None:
                    return None
                out = dict(l)
                for k_, c_ in r.items():
                    out[k_] = out.get(k_, 0) + (c_ if isinstance(e.op, ast.Add) else -c_)
                return {k_: c_ for k_, c_ in out.items() if c_}
            return None

        def dims(call):
            shp = next((k.value for k in call.keywords if k.arg == "shape"), call.args[0] if call.args else None)
            fnode = next((f_.node for f_ in idx.funcs.values() if any(x is call for x in ast.walk(f_.node))), init.node)
            shp = df.resolve_value(fnode, shp) if isinstance(shp, ast.Name) else shp
            return [linform(x, fnode) for x in shp.elts] if isinstance(shp, (ast.Tuple, ast.List)) else None
        hd, qd = dims(bufs["H"][2]), dims(bufs["Q"][2])
        ok = all(b[0] == "zeros" for b in bufs.values()) and hd is not None and qd is not None and len(hd) >= 2 and len(qd) >= 1 and \
            hd[-2] == {cap: 1, 1: 1} and hd[-1] == {cap: 1} and qd[-1] == {cap: 1, 1: 1}
        rep.decide(ok, "buffers", "init_arnoldi", f"H = {bufs['H'][0]}{bufs['H'][1]}, Q = {bufs['Q'][0]}{bufs['Q'][1]}" + ("" if ok else f"; required zero-initialised (..., {cap}+1, {cap}) and (..., {cap}+1)"),
                   detail="" if ok else "buffers", locs=[idx.loc(init.module, init.node)])
        # the driver sizes the buffers with the cap it runs the loop with: the value handed to the allocator as `max_iters` is the value
        # handed to the factorisation (a smaller buffer is written out of bounds, a larger one leaves zero padding in the result)
        def cap_arg(callee_fi, call):
            return df.bind_call(call, callee_fi.params).get("max_iters")
        c_init = [c for c in df.calls(arnoldi.node) if idx.resolve_expr(arnoldi.module, c.func, arnoldi) is not None
                  and getattr(idx.resolve_expr(arnoldi.module, c.func, arnoldi), "kind", None) == "funcs" and idx.resolve_expr(arnoldi.module, c.func, arnoldi).val[-1] is init]
        c_fact = [c for c in df.calls(arnoldi.node) if idx.resolve_expr(arnoldi.module, c.func, arnoldi) is not None
                  and getattr(idx.resolve_expr(arnoldi.module, c.func, arnoldi), "kind", None) == "funcs" and idx.resolve_expr(arnoldi.module, c.func, arnoldi).val[-1] is fact]
        e1 = cap_arg(init, c_init[0]) if c_init else None
        e2 = cap_arg(fact, c_fact[0]) if c_fact else None
        if e1 is None or e2 is None:
            rep.undecided("buffers", "arnoldi:same-cap", "calls of the allocator / the factorisation with a max_iters argument not found", locs=[idx.loc(arnoldi.module, arnoldi.node)])
        else:
            v1 = df.resolve_value(arnoldi.node, e1) if isinstance(e1, ast.Name) else e1
            v2 = df.resolve_value(arnoldi.node, e2) if isinstance(e2, ast.Name) else e2
            okc = nospace(e1) == nospace(e2) or nospace(v1) == nospace(v2)
            rep.decide(okc, "buffers", "arnoldi:same-cap", f"the allocator receives `{nospace(e1)}` and the factorisation `{nospace(e2)}` as cap" +
                       ("" if okc else ": the buffers and the loop disagree on the number of steps"), detail="" if okc else "cap", locs=[idx.loc(arnoldi.module, arnoldi.node)])
    # ---- body: sub-diagonal = norm; normalisation floor depends on tol
    # the loop body is whatever function is handed to the loop runner as body_fun (not recognised by its name)
    _l = [l_ for l_ in lp.find_loops(idx, fact) if l_.kind != "for"]
    body = _l[0].body if _l and not isinstance(_l[0].body, ast.Lambda) else None
    if body is None:
        rep.missing_anchor("loop body of arnoldi_fact")
    else:
        # the Hessenberg buffer is slot 1 of the loop state; the column stored into it is the coefficient vector,
        # whose entry at counter + 1 is the sub-diagonal
        hname = None
        for st in df.body_nodes(body.node):
            if isinstance(st, ast.Assign) and isinstance(st.targets[0], ast.Tuple) and isinstance(st.value, ast.Name) and body.params and st.value.id == body.params[0] \
                    and len(st.targets[0].elts) > 1 and isinstance(st.targets[0].elts[1], ast.Name):
                hname = st.targets[0].elts[1].id
        allw = norm_written(body)
        # the column stored into H: a named vector (then its own `+1` write is looked up by that name) or a write nested in place
        cols = {nospace(w[2].args[1]) for w in allw if w[0] == hname and isinstance(w[2].args[1], ast.Name)}
        nested = {id(w[2].args[1]) for w in allw if w[0] == hname and isinstance(w[2].args[1], ast.Call)}
        writes = [w for w in allw if (w[0] in cols or id(w[2]) in nested) and nospace(w[2].args[-1]).endswith("+1")]
        if writes:
            ok = all(w[1] for w in writes)
            rep.decide(ok, "nonneg-subdiagonal", "arnoldi_fact:subdiagonal", f"sub-diagonal entry written: `{ast.unparse(writes[0][2].args[1])[:40]}`" + ("" if ok else ": must be a norm"),
                       detail="" if ok else "not-norm", locs=[idx.loc(fact.module, writes[0][2])])
        else:
            rep.undecided("nonneg-subdiagonal", "arnoldi_fact:subdiagonal", "write of h[idx+1] not found")
        clips = [c for c in df.calls(body.node) if df.is_xnp_call(c) == "clip"]
        divs = [n for n in df.body_nodes(body.node) if (isinstance(n, ast.AugAssign) and isinstance(n.op, ast.Div)) or (isinstance(n, ast.BinOp) and isinstance(n.op, ast.Div))]
        guarded = [c for c in clips if any(c in list(ast.walk(d)) for d in divs)]
        def is_norm(c):
            if isinstance(c, ast.Call):
                return df.is_xnp_call(c) == "norm"
            return isinstance(c, ast.Name) and any(isinstance(v, ast.Call) and df.is_xnp_call(v) == "norm" for v, p_, st_ in df.assignments(body.node).get(c.id, []))
        norm_divs = [d for d in divs if any(is_norm(c) for c in ast.walk(d.value if isinstance(d, ast.AugAssign) else d.right))]
        if not guarded and not norm_divs:
            rep.undecided("normalisation-floor", "arnoldi_fact:normalise", "no division of the new vector by its norm found in the loop body (the step may live in a method the analysis does not follow)",
                          locs=[idx.loc(fact.module, body.node)])
        elif not guarded:
            rep.refuted("normalisation-floor", "arnoldi_fact:normalise", "the new basis vector is divided by its norm without a floor: division by zero at breakdown", detail="no-floor",
                        locs=[idx.loc(fact.module, body.node)])
        else:
            c = guarded[0]
            floor = next((k.value for k in c.keywords if k.arg in ("a_min", "min")), c.args[1] if len(c.args) > 1 else None)
            dep = floor is not None and "tol" in df.names_in(floor)
            rep.decide(True if dep else False, "normalisation-floor", "arnoldi_fact:normalise",
                       f"normalisation divides by clip(norm, a_min={ast.unparse(floor) if floor is not None else '?'})" +
                       ("" if dep else ": the floor does not depend on tol, so after a breakdown (norm <= tol * scale) rounding noise is blown up to a unit-norm, non-orthogonal column "
                        "whose H column is zero: A Q = Q H fails"), detail="" if dep else "floor", locs=[idx.loc(fact.module, c)])
        n_proj = 0
        for f in closure(idx, fact, same_module=True):
            for okp, text, node in projection_convention(f):
                n_proj += 1
                rep.decide(okp, "projection", f"{f.short}:projection", text, detail="" if okp else "conjugate-side", locs=[idx.loc(f.module, node)])
        if not n_proj:
            rep.undecided("projection", "arnoldi_fact:projection", "no Gram-Schmidt projection step recognised")
    # ---- first column
    first_column_obligation(idx, rep, init, "0", "init_arnoldi")
    # ---- arnoldi_eigs: drop last row of H and last column of Q
    src = nospace(eigs.node)
    qn = hn = None
    for st in df.body_nodes(eigs.node):
        if isinstance(st, ast.Assign) and isinstance(st.targets[0], ast.Tuple) and isinstance(st.value, ast.Call) and nospace(st.value.func) == arnoldi.short:
            els = st.targets[0].elts
            if len(els) >= 2 and all(isinstance(e, ast.Name) for e in els[:2]):
                qn, hn = els[0].id, els[1].id
    if qn is None:
        rep.undecided("eigs-pairing", "arnoldi_eigs", "the unpacking of arnoldi's result was not found")
    else:
        # H is (m + 1, m) and Q is (n, m + 1) (buffers rule): the Ritz problem uses the leading m rows of H and the first m columns of Q.
        # "m" can be written as the stop -1, as the column count of H, or as a row / column count minus one.
        def stop_kind(e):
            e = df.resolve_value(eigs.node, e) if isinstance(e, ast.Name) else e
            t = nospace(e).replace("[1]", "[-1]").replace("[0]", "[-2]")
            if t in ("-1", f"{hn}.shape[-1]", f"{hn}.shape[-2]-1", f"{qn}.shape[-1]-1"):
                return "m"
            return t

        def cut_of(name, axis_last):
            """stop of the slice applied to `name` on its last (Q) / first (H) axis, wherever the slice is written"""
            for n_ in df.body_nodes(eigs.node):
                if isinstance(n_, ast.Subscript) and isinstance(n_.value, ast.Name) and n_.value.id == name:
                    sl = n_.slice
                    parts = sl.elts if isinstance(sl, ast.Tuple) else [sl]
                    part = parts[-1] if axis_last else parts[0]
                    full_before = all(isinstance(p_, ast.Slice) and p_.lower is None and p_.upper is None for p_ in (parts[:-1] if axis_last else parts[1:]))
                    if isinstance(part, ast.Slice) and part.lower is None and part.upper is not None and part.step is None and (full_before or len(parts) == 1) and \
                            (len(parts) == (2 if axis_last else 1) or not axis_last):
                        return stop_kind(part.upper)
            return None
        qc, hc = cut_of(qn, True), cut_of(hn, False)
        ok = qc == "m" and hc == "m"
        rep.decide(ok if (ok or qc is not None or hc is not None) else None, "eigs-pairing", "arnoldi_eigs", "drops the last column of Q and the last row of H" if ok else
                   f"Q is cut to `{qc}` columns and H to `{hc}` rows: not the square leading block for both", detail="" if ok else "pairing", locs=[idx.loc(eigs.module, eigs.node)])
        prod = any(isinstance(n_, ast.BinOp) and isinstance(n_.op, ast.MatMult) and qn in {x.id for x in ast.walk(df.resolve_value(eigs.node, n_.left)) if isinstance(x, ast.Name)} | (
            {n_.left.id} if isinstance(n_.left, ast.Name) else set()) for n_ in df.body_nodes(eigs.node)) or f"{qn}@" in src
        rep.decide(True if prod else None, "eigs-pairing", "arnoldi_eigs:vectors", "Ritz vectors are Q times the eigenvectors of H", locs=[idx.loc(eigs.module, eigs.node)])
    # ---- arnoldi_eigs returns EVERY Ritz value of H: no data-dependent mask on the spectrum
    masks = []
    for n in df.body_nodes(eigs.node):
        if isinstance(n, ast.Subscript) and isinstance(n.ctx, ast.Load):
            idx_e = n.slice.elts[-1] if isinstance(n.slice, ast.Tuple) else n.slice
            d = df.resolve_value(eigs.node, idx_e)
            if isinstance(d, ast.Compare) or (isinstance(d, ast.BinOp) and isinstance(d.op, (ast.BitAnd, ast.BitOr)) and any(isinstance(x, ast.Compare) for x in ast.walk(d))):
                masks.append((n, d))
    if masks:
        n, d = masks[0]
        rep.refuted("eigs-pairing", "arnoldi_eigs:complete", f"`{nospace(n)}` selects Ritz values by the data-dependent mask `{nospace(d)[:60]}`: eigenvalues of A that fail the test (zero or tiny "
                    "relative to the spectral radius) disappear from the returned spectrum", detail="masked", locs=[idx.loc(eigs.module, n)])
    else:
        rep.proved("eigs-pairing", "arnoldi_eigs:complete", "no Ritz value is discarded by a data-dependent mask", locs=[idx.loc(eigs.module, eigs.node)])
    buffer_dtype_obligations(idx, rep, init, "buffer-dtype")
    # ---- the loop stops at an exact breakdown
    from sa.krylov import breakdown_stops
    _loops = lp.find_loops(idx, fact)
    _cert = lp.cap_certificate(idx, _loops[0]) if _loops else {"ok": None}
    breakdown_stops(idx, rep, fact, "breakdown-stops", f"{fact.short}:cond", _cert.get("counter_slot") if _cert.get("ok") is True else None,
                    cond=_loops[0].cond if _loops and not isinstance(_loops[0].cond, ast.Lambda) else None)
    # ---- HOMOG in the scale of the operator: floors inside the factorisation loop must scale with what they guard
    from sa.homog import krylov_floor_obligations
    krylov_floor_obligations(idx, rep, fact, init, "scale-floor")
    # ---- the monitored loop runner only observes: it must not add stopping criteria of its own
    for f_, ok_, text_, node_ in lp.runner_transparency(idx):
        rep.decide(ok_, "runner-transparency", "while_loop_winfo", text_, detail="" if ok_ else "extra-exit", locs=[idx.loc(f_.module, node_)])
    rep.floor("buffer-dtype", 2)
    rep.floor("loop-cap", 3)
    rep.floor("batch-quantifier", 1)
    rep.floor("basis-aliasing", 1)
    rep.floor("buffers", 2)
    rep.floor("normalisation-floor", 1)
    rep.floor("projection", 1)
    # ---- tolerance / iteration cap reach the factorisation from every entry point (wrappers and the algorithm object)
    from sa.autorule import passthrough_in
    passthrough_in(idx, rep, ("decompositions.arnoldi", ), ("Arnoldi", ), ("tol", "max_iters"), 8)
    rep.explanation = ("LOOP + sign/DEP provenance on arnoldi / arnoldi_fact / init_arnoldi / arnoldi_eigs: cap min(max_iters, n) with a counter from 0 tested by <; buffers "
                       "zero-initialised and sized by the requested cap; sub-diagonal entries are norms; the normalisation floor depends on the tolerance; modified Gram-Schmidt "
                       "conjugates the basis; consistent trimming in arnoldi_eigs.")
    rep.assumptions += ["the Arnoldi relation, orthonormality and breakdown behaviour as numbers are not decided"]
