"""ANNOT (DESIGN.md 4/C05 clause 1): abstract interpretation of the `get_annotations`
rules over operator descriptors, and the specification of which annotations each
combinator preserves (oracle_annotations, bottom of this file)."""
import ast
import itertools

from sa.index import AnalysisError

SA, PSD, ST, UN = "SelfAdjoint", "PSD", "Stiefel", "Unitary"
ALL = (SA, PSD, ST, UN)
PARENT = {PSD: SA, UN: ST}


def closure(s):
    out = set(s)
    for a in list(out):
        if a in PARENT:
            out.add(PARENT[a])
    return frozenset(out)


class OpD:
    """operator descriptor: kind, raw annotation set (names), parts, identity"""
    _n = itertools.count()

    def __init__(self, kind, annots=(), parts=(), slices=None, label=None):
        self.kind, self.annots, self.parts, self.slices = kind, frozenset(annots), list(parts), slices
        self.ident = next(OpD._n)
        self.label = label or kind

    def isa(self, x):
        return x in closure(self.annots)

    def __repr__(self):
        a = "{" + ",".join(sorted(self.annots)) + "}" if self.annots else ""
        if self.parts:
            return f"{self.kind}[{', '.join(map(repr, self.parts))}]{a}"
        return f"{self.label}{a}"


class SliceD:
    def __init__(self, kind, ident, overlap=False):
        self.kind, self.ident = kind, ident  # kind: 'slice' | 'array'
        self.overlap = overlap  # an index array that agrees with the other index array in some position although the two are different


class Undecidable(Exception):
    pass


class RaisesAtRuntime(Undecidable):
    """the rule raises for this configuration (no annotation is reported at all)"""


class TypeV:
    """value of type(x)"""
    def __init__(self, op):
        self.op = op


class Interp:
    """interpreter for the pure fragment the annotation rules are written in"""
    def __init__(self, idx, module):
        self.idx, self.module = idx, module
        self.trace = []

    # ---- class lattice of operator kinds
    def kind_sub(self, kind, clsname):
        if clsname == "LinearOperator":
            return True
        if not self.idx.has_cls(kind):
            return kind == clsname
        return clsname in [c.name for c in self.idx.mro(self.idx.cls(kind))]

    def run_rule(self, fi, arg):
        env = {fi.params[0]: arg}
        return self.exec_block(fi.node.body, env, fi)

    class _Return(Exception):
        def __init__(self, value, node):
            self.value, self.node = value, node

    def exec_block(self, stmts, env, fi):
        try:
            self._block(stmts, env, fi)
        except Interp._Return as r:
            self.last_return = r.node
            return r.value
        raise Undecidable("rule falls off its end")

    def _block(self, stmts, env, fi):
        for st in stmts:
            if isinstance(st, ast.Expr):
                if isinstance(st.value, ast.Constant):
                    continue
                self.ev(st.value, env, fi)
            elif isinstance(st, ast.Return):
                raise Interp._Return(self.ev(st.value, env, fi), st)
            elif isinstance(st, ast.Assign) and len(st.targets) == 1 and isinstance(st.targets[0], ast.Name):
                env[st.targets[0].id] = self.ev(st.value, env, fi)
            elif isinstance(st, ast.Assign) and len(st.targets) == 1 and isinstance(st.targets[0], ast.Tuple) and all(isinstance(t_, ast.Name) for t_ in st.targets[0].elts):
                v = self.ev(st.value, env, fi)
                if not isinstance(v, (list, tuple)) or len(v) != len(st.targets[0].elts):
                    raise Undecidable("tuple assignment of a non-sequence")
                for t_, x_ in zip(st.targets[0].elts, v):
                    env[t_.id] = x_
            elif isinstance(st, ast.If):
                if self.truth(self.ev(st.test, env, fi)):
                    self._block(st.body, env, fi)
                else:
                    self._block(st.orelse, env, fi)
            elif isinstance(st, ast.Pass):
                continue
            elif isinstance(st, ast.FunctionDef) and not st.decorator_list:
                env[st.name] = ("closure", st, env)
            else:
                raise Undecidable(f"statement {type(st).__name__} outside the fragment")

    def truth(self, v):
        if isinstance(v, tuple) and v and v[0] == "eqarr":
            raise RaisesAtRuntime("truth value of an element-wise array comparison")
        if isinstance(v, (bool, int)):
            return bool(v)
        if isinstance(v, (frozenset, set, list, tuple)):
            return len(v) > 0
        if v is None:
            return False
        raise Undecidable(f"truth value of {v!r}")

    def ev(self, e, env, fi):
        if isinstance(e, ast.Constant):
            return e.value
        if isinstance(e, ast.Name):
            if e.id in env:
                return env[e.id]
            r = self.idx.resolve_name(self.module, e.id, fi)
            if r is None:
                raise Undecidable(f"name {e.id}")
            if r.kind == "class":
                return ("class", r.val.name)
            if r.kind == "funcs":
                return ("func", r.val[-1])
            if r.kind == "builtin":
                return ("builtin", r.val)
            if r.kind == "external":
                return ("external", r.val)
            if r.kind == "value":
                # module-level constants: a set of annotation classes, a tuple of classes (for isinstance), literals
                if isinstance(r.val, (ast.Set, ast.Tuple, ast.List, ast.Constant)):
                    try:
                        return Interp(self.idx, r.mod).ev(r.val, {}, None)
                    except Undecidable:
                        pass
                return ("pattern", r.val, r.mod)
            raise Undecidable(f"name {e.id} -> {r.kind}")
        if isinstance(e, ast.Attribute):
            v = self.ev(e.value, env, fi)
            if isinstance(v, OpD):
                if e.attr == "Ms":
                    return list(v.parts)
                if e.attr == "A":
                    if not v.parts:
                        raise Undecidable(f"{v.kind}.A")
                    return v.parts[0]
                if e.attr == "annotations":
                    return frozenset(v.annots)
                if e.attr == "slices":
                    if v.slices is None:
                        raise Undecidable("slices")
                    return v.slices
                raise Undecidable(f"attribute {e.attr} of operator")
            if isinstance(v, tuple) and v[0] == "module":
                pass
            r = self.idx.resolve_expr(self.module, e, fi)
            if r is not None and r.kind == "class":
                return ("class", r.val.name)
            if r is not None and r.kind == "funcs":
                return ("func", r.val[-1])
            raise Undecidable(f"attribute {ast.unparse(e)}")
        if isinstance(e, ast.Set):
            return frozenset(self._annot_name(self.ev(x, env, fi)) for x in e.elts)
        if isinstance(e, (ast.List, ast.Tuple)):
            return [self.ev(x, env, fi) for x in e.elts]
        if isinstance(e, ast.Subscript):
            v = self.ev(e.value, env, fi)
            if isinstance(v, (list, tuple)):
                if isinstance(e.slice, ast.Slice):
                    lo = self.ev(e.slice.lower, env, fi) if e.slice.lower else None
                    hi = self.ev(e.slice.upper, env, fi) if e.slice.upper else None
                    st = self.ev(e.slice.step, env, fi) if e.slice.step else None
                    return list(v)[lo:hi:st]
                i = self.ev(e.slice, env, fi)
                try:
                    return v[i]
                except IndexError:
                    raise Undecidable("index out of range (rule would raise)")
            raise Undecidable("subscript")
        if isinstance(e, ast.BinOp):
            a, b = self.ev(e.left, env, fi), self.ev(e.right, env, fi)
            if isinstance(a, frozenset) and isinstance(b, frozenset):
                if isinstance(e.op, ast.BitAnd):
                    return a & b
                if isinstance(e.op, ast.BitOr):
                    return a | b
                if isinstance(e.op, ast.Sub):
                    return a - b
                if isinstance(e.op, ast.BitXor):
                    return a ^ b
            if isinstance(a, bool) and isinstance(b, bool) and isinstance(e.op, (ast.BitAnd, ast.BitOr)):
                return (a and b) if isinstance(e.op, ast.BitAnd) else (a or b)
            if isinstance(a, int) and isinstance(b, int):
                if isinstance(e.op, ast.Add):
                    return a + b
                if isinstance(e.op, ast.Sub):
                    return a - b
            raise Undecidable(f"binary op {type(e.op).__name__}")
        if isinstance(e, ast.BoolOp):
            if isinstance(e.op, ast.And):
                v = True
                for x in e.values:
                    v = self.ev(x, env, fi)
                    if not self.truth(v):
                        return v
                return v
            v = False
            for x in e.values:
                v = self.ev(x, env, fi)
                if self.truth(v):
                    return v
            return v
        if isinstance(e, ast.UnaryOp) and isinstance(e.op, ast.Not):
            return not self.truth(self.ev(e.operand, env, fi))
        if isinstance(e, ast.UnaryOp) and isinstance(e.op, ast.USub):
            return -self.ev(e.operand, env, fi)
        if isinstance(e, ast.IfExp):
            return self.ev(e.body, env, fi) if self.truth(self.ev(e.test, env, fi)) else self.ev(e.orelse, env, fi)
        if isinstance(e, ast.Compare):
            left = self.ev(e.left, env, fi)
            for op, right in zip(e.ops, e.comparators):
                r = self.ev(right, env, fi)
                if isinstance(op, (ast.Is, ast.IsNot)):
                    same = (left.ident == r.ident) if isinstance(left, OpD) and isinstance(r, OpD) else (left is r)
                    ok = same if isinstance(op, ast.Is) else not same
                elif isinstance(op, (ast.Eq, ast.NotEq)):
                    if isinstance(left, SliceD) and isinstance(r, SliceD):
                        same = ("eqarr", left.ident == r.ident, left.ident == r.ident or (left.overlap and r.overlap and left.kind == r.kind == "array")) \
                            if left.kind == "array" or r.kind == "array" else (left.ident == r.ident)
                    else:
                        same = left == r
                    if isinstance(same, tuple):
                        return same if isinstance(op, ast.Eq) else ("eqarr", not same[2], not same[1])  # all(a != b) = not any(a == b)
                    ok = same if isinstance(op, ast.Eq) else not same
                elif isinstance(op, ast.In):
                    ok = left in r
                elif isinstance(op, ast.NotIn):
                    ok = left not in r
                elif isinstance(op, (ast.Lt, ast.LtE, ast.Gt, ast.GtE)) and isinstance(left, int) and isinstance(r, int):
                    ok = {ast.Lt: left < r, ast.LtE: left <= r, ast.Gt: left > r, ast.GtE: left >= r}[type(op)]
                else:
                    raise Undecidable("comparison")
                if not ok:
                    return False
                left = r
            return True
        if isinstance(e, (ast.ListComp, ast.GeneratorExp)):
            return self._comp(e, env, fi)
        if isinstance(e, ast.SetComp):
            return frozenset(self._comp(e, env, fi))
        if isinstance(e, ast.Lambda):
            return ("lambda", e, dict(env))
        if isinstance(e, ast.Call):
            return self._call(e, env, fi)
        raise Undecidable(f"expression {type(e).__name__}")

    def _annot_name(self, v):
        if isinstance(v, tuple) and v[0] == "class" and v[1] in ALL:
            return v[1]
        raise Undecidable(f"set element {v!r} is not an annotation class")

    def _comp(self, e, env, fi):
        if len(e.generators) != 1:
            raise Undecidable("nested comprehension")
        g = e.generators[0]
        it = self.ev(g.iter, env, fi)
        if isinstance(it, (set, frozenset)):
            it = sorted(it, key=repr)
        out = []
        for x in it:
            env2 = dict(env)
            if isinstance(g.target, ast.Name):
                env2[g.target.id] = x
            else:
                raise Undecidable("comprehension target")
            if all(self.truth(self.ev(c, env2, fi)) for c in g.ifs):
                out.append(self.ev(e.elt, env2, fi))
        return out

    def _apply(self, f, args, fi):
        if isinstance(f, tuple) and f[0] == "lambda":
            lam, env = f[1], dict(f[2])
            ps = [a.arg for a in lam.args.args]
            env.update(zip(ps, args))
            return self.ev(lam.body, env, fi)
        if isinstance(f, tuple) and f[0] == "closure":
            node, cenv = f[1], f[2]
            env = dict(cenv)
            env.update(zip([a.arg for a in node.args.args], args))
            return self.exec_block(node.body, env, fi)
        if isinstance(f, tuple) and f[0] == "external" and f[1] in ("operator.and_", "operator.or_", "operator.sub", "operator.xor") and len(args) == 2 \
                and all(isinstance(a_, (set, frozenset)) for a_ in args):
            a_, b_ = frozenset(args[0]), frozenset(args[1])
            return {"operator.and_": a_ & b_, "operator.or_": a_ | b_, "operator.sub": a_ - b_, "operator.xor": a_ ^ b_}[f[1]]
        if isinstance(f, tuple) and f[0] == "func":
            callee = f[1]
            if getattr(callee, "rule", None) is not None:
                raise Undecidable(f"call of dispatched function {callee.name}")
            env = dict(zip(callee.params, args))
            sub = Interp(self.idx, callee.module)
            return sub.exec_block(callee.node.body, env, callee)
        raise Undecidable(f"call of {f!r}")

    def _call(self, e, env, fi):
        # method calls on abstract values
        if isinstance(e.func, ast.Attribute):
            recv = None
            try:
                recv = self.ev(e.func.value, env, fi)
            except Undecidable:
                recv = None
            if isinstance(recv, OpD) and e.func.attr == "isa":
                a = self.ev(e.args[0], env, fi)
                return recv.isa(self._annot_name(a))
            if isinstance(recv, tuple) and recv and recv[0] == "eqarr" and e.func.attr in ("all", "any") and not e.args:
                return recv[1] if e.func.attr == "all" else recv[2]
            if isinstance(recv, bool) and e.func.attr in ("all", "any") and not e.args:
                return recv
        f = self.ev(e.func, env, fi)
        args = [self.ev(a, env, fi) for a in e.args]
        if isinstance(f, tuple) and f[0] == "builtin":
            name = f[1]
            if name == "set" and not args:
                return frozenset()
            if name in ("set", "frozenset"):
                return frozenset(args[0])
            if name == "len":
                return len(args[0])
            if name == "type":
                return TypeV(args[0]) if isinstance(args[0], OpD) else ("typeof", args[0])
            if name == "isinstance":
                return self._isinstance(args[0], args[1])
            if name == "issubclass":
                if isinstance(args[0], TypeV):
                    return self._matches(args[0].op, args[1])
                a0 = args[0][1] if isinstance(args[0], tuple) and args[0] and args[0][0] == "class" else args[0]
                a1 = args[1][1] if isinstance(args[1], tuple) and args[1] and args[1][0] == "class" else args[1]
                if isinstance(a0, str) and isinstance(a1, str) and a0 in ALL and a1 in ALL and self.idx.has_cls(a0):
                    # annotation classes: the hierarchy is read from the class definitions (PSD < SelfAdjoint, Unitary < Stiefel)
                    return a1 in [c.name for c in self.idx.mro(self.idx.cls(a0))]
                raise Undecidable("issubclass on a non-operator type")
            if name in ("all", "any"):
                vals = [self.truth(x) for x in args[0]]
                return all(vals) if name == "all" else any(vals)
            if name in ("list", "tuple"):
                return list(args[0])
            if name == "reversed":
                return list(args[0])[::-1]
            if name == "hasattr":
                raise Undecidable("hasattr")
            raise Undecidable(f"builtin {name}")
        if isinstance(f, tuple) and f[0] == "external" and f[1] == "functools.reduce":
            fn, seq = args[0], list(args[1])
            if len(args) > 2:
                acc = args[2]
            else:
                if not seq:
                    raise Undecidable("reduce of empty sequence (rule would raise)")
                acc, seq = seq[0], seq[1:]
            for x in seq:
                acc = self._apply(fn, [acc, x], fi)
            return acc
        return self._apply(f, args, fi)

    def _isinstance(self, v, t):
        ts = t if isinstance(t, list) else [t]
        for x in ts:
            if isinstance(x, tuple) and x[0] == "class":
                if isinstance(v, OpD) and self.kind_sub(v.kind, x[1]):
                    return True
            elif isinstance(x, tuple) and x[0] == "builtin" and x[1] == "slice":
                if isinstance(v, SliceD) and v.kind == "slice":
                    return True
            else:
                raise Undecidable(f"isinstance against {x!r}")
        return False

    def _matches(self, op, pat):
        """issubclass(type(op), pattern) for plum parametric patterns"""
        if isinstance(pat, tuple) and pat[0] == "class":
            return self.kind_sub(op.kind, pat[1])
        if isinstance(pat, tuple) and pat[0] == "pattern":
            return self._match_ast(op, pat[1], pat[2])
        raise Undecidable("type pattern")

    def _match_ast(self, op, node, module):
        idx = self.idx
        if isinstance(node, ast.Subscript):
            base = idx.resolve_expr(module, node.value)
            elts = node.slice.elts if isinstance(node.slice, ast.Tuple) else [node.slice]
            if base is not None and base.kind == "external" and base.val == "typing.Union":
                return any(self._match_ast(op, x, module) for x in elts)
            if base is not None and base.kind == "class":
                if not self.kind_sub(op.kind, base.val.name):
                    return False
                # parametric: the type parameters are the types of the constructor arguments
                if len(op.parts) != len(elts):
                    return False
                return all(self._match_ast(p, x, module) for p, x in zip(op.parts, elts))
            raise Undecidable("pattern subscript")
        if isinstance(node, ast.BinOp) and isinstance(node.op, ast.BitOr):
            return self._match_ast(op, node.left, module) or self._match_ast(op, node.right, module)
        r = idx.resolve_expr(module, node)
        if r is not None and r.kind == "class":
            return self.kind_sub(op.kind, r.val.name)
        if r is not None and r.kind == "value":
            return self._match_ast(op, r.val, r.mod)
        raise Undecidable("pattern element")


# ------------------------------------------------------------------------------------------
# oracle_annotations: which annotations each combinator preserves.  One line per fact with the
# mathematical reason; `allowed` returns the set a composite may claim when every declaration on
# its parts is true, and `why_not` the counter-example used in reports.
def allowed(op):
    k = op.kind
    parts = op.parts

    def every(x, ps=None):
        ps = parts if ps is None else ps
        return all(p.isa(x) for p in ps)

    if k in ("Kronecker", "BlockDiag"):
        # (A (x) B)^H = A^H (x) B^H; eigenvalues multiply / blocks act independently; (A (x) B)^H (A (x) B) = A^H A (x) B^H B
        return closure({x for x in ALL if every(x)})
    if k == "Sum":
        # sums of Hermitian / PSD matrices stay Hermitian / PSD; I + I = 2I is not unitary
        return closure({x for x in (SA, PSD) if every(x)})
    if k == "Product":
        out = set()
        nonsc = [p for p in parts if p.kind != "ScalarMul"]
        if len(parts) >= 1 and every(ST):
            out.add(ST)  # (AB)^H AB = B^H (A^H A) B = I
        if len(parts) >= 1 and every(UN):
            out.add(UN)
        if len(nonsc) <= 1:
            # scalars commute: c*M keeps X only if the scalar itself has X (c real / c >= 0 / |c| = 1)
            out |= {x for x in ALL if every(x)}
        if len(parts) == 2:
            a, b = parts
            if (a.kind == "Adjoint" and a.parts and a.parts[0].ident == b.ident) or (b.kind == "Adjoint" and b.parts and b.parts[0].ident == a.ident):
                out.add(PSD)  # B^H B and B B^H are Hermitian with x^H B^H B x = |Bx|^2 >= 0
        if len(parts) == 3:
            a, m, b = parts
            if a.kind == "Adjoint" and a.parts and a.parts[0].ident == b.ident:
                out |= {x for x in (SA, PSD) if m.isa(x)}  # K^H X K inherits Hermitian / PSD from X
        return closure(out)
    if k in ("Transpose", "Adjoint"):
        # A^T = conj(A) for Hermitian A (still Hermitian, same real spectrum); unitary stays unitary;
        # the transpose of a tall matrix with orthonormal columns is wide: not Stiefel
        b = parts[0]
        return closure({x for x in (SA, PSD, UN) if b.isa(x)})
    if k == "Sliced":
        b = parts[0]
        s0, s1 = op.slices
        if s0.ident == s1.ident:
            return closure({x for x in (SA, PSD) if b.isa(x)})  # principal sub-matrix
        return frozenset()
    if k == "Identity":
        return closure({UN, PSD})
    if k == "Permutation":
        return closure({UN})
    if k == "Hessian":
        return closure({SA})  # symmetric second derivatives
    return frozenset()


WHY_NOT = {
    ("Product", PSD): "(-1) * PSD(A) is not PSD; and B^T B is not Hermitian for complex B; and K^H X K is PSD only if X is",
    ("Product", SA): "1j * Hermitian is not Hermitian; a product of two Hermitian matrices is not Hermitian",
    ("Product", UN): "2 * Unitary is not unitary",
    ("Product", ST): "2 * Q does not have orthonormal columns",
    ("Transpose", ST): "the transpose of a tall matrix with orthonormal columns is wide: Q^T has no orthonormal columns",
    ("Adjoint", ST): "the adjoint of a tall matrix with orthonormal columns is wide",
    ("Sum", UN): "I + I = 2I is not unitary",
    ("Sum", ST): "Q + Q = 2Q does not have orthonormal columns",
    ("Sliced", UN): "a principal sub-matrix of a unitary matrix is not unitary",
    ("Sliced", ST): "a row-sliced matrix loses orthonormal columns",
}


def raw_subsets(n=16):
    base = []
    for r in range(5):
        for c in itertools.combinations(ALL, r):
            base.append(frozenset(c))
    return base


CLOSED9 = [frozenset(s) for s in ([], [SA], [PSD], [ST], [UN], [SA, ST], [SA, UN], [PSD, ST], [PSD, UN])]
