"""C12 — conjugate gradients (DESIGN.md section 4, C12): LOOP + DEP on the routine reachable from CG.__call__.

cap; stopping test (any column above tolerance continues; tolerance computed once from the normalised
right-hand side); scaling by the same column norms on the way in and out; column independence of every
reduction that feeds the iterate; iteration bookkeeping of the instrumented while loop."""
import ast

from sa import dataflow as df
from sa import loop as lp
from sa.homog import solver_scale_obligations
from sa.krylov import axis_value, closure, is_norm_value, nospace, reductions


def polynomial(e, routine, idx_=None, tol_name="tol"):
    """expression over tol, norm(<initial residual>) and numbers -> {monomial: coefficient}; None outside the fragment.
    monomial = sorted tuple of (atom, power)"""
    def mul(p, q):
        out = {}
        for m1, c1 in p.items():
            for m2, c2 in q.items():
                d = dict(m1)
                for a, k in m2:
                    d[a] = d.get(a, 0) + k
                key = tuple(sorted(d.items()))
                out[key] = out.get(key, 0.0) + c1 * c2
        return out

    def go(x):
        if isinstance(x, ast.Constant) and isinstance(x.value, (int, float)):
            return {(): float(x.value)}
        if isinstance(x, ast.Name) and x.id == tol_name:
            return {(("tol", 1), ): 1.0}
        if isinstance(x, ast.Name):
            v = df.resolve_value(routine.node, x)
            return go(v) if v is not x else None
        if isinstance(x, ast.Call) and ((df.is_xnp_call(x) == "norm" and x.args) or (idx_ is not None and is_norm_value(idx_, routine, x))):
            return {(("N", 1), ): 1.0}
        if isinstance(x, ast.BinOp) and isinstance(x.op, (ast.Add, ast.Sub)):
            l, r = go(x.left), go(x.right)
            if l is None or r is None:
                return None
            out = dict(l)
            for m, c in r.items():
                out[m] = out.get(m, 0.0) + (c if isinstance(x.op, ast.Add) else -c)
            return out
        if isinstance(x, ast.BinOp) and isinstance(x.op, ast.Mult):
            l, r = go(x.left), go(x.right)
            return None if l is None or r is None else mul(l, r)
        if isinstance(x, ast.Call) and idx_ is not None and depth[0] < 3:
            # a plain helper of the same package (`stopping_threshold(r0, tol, xnp)`): its returned expression with the arguments bound
            r_ = idx_.resolve_expr(routine.module, x.func, routine)
            if r_ is not None and r_.kind == "funcs" and getattr(r_.val[-1], "rule", None) is None:
                callee = r_.val[-1]
                rets = [y for y in df.returns(callee.node) if y.value is not None]
                if len(rets) == 1:
                    bound = df.bind_call(x, callee.params)
                    # the callee's names for the tolerance / the residual are whatever the arguments are
                    tol_params = {p_ for p_, a_ in bound.items() if isinstance(a_, ast.Name) and a_.id == tol_name}
                    inner_tol = next(iter(tol_params), None)
                    depth[0] += 1
                    try:
                        sub = polynomial_in(rets[0].value, callee, bound, inner_tol)
                    finally:
                        depth[0] -= 1
                    return sub
        return None

    depth = [0]

    def polynomial_in(expr, callee, bound, inner_tol):
        """the callee's return expression; a parameter bound to an expression of the caller is evaluated in the caller"""
        def go2(y):
            if isinstance(y, ast.Name) and inner_tol is not None and y.id == inner_tol:
                return {(("tol", 1), ): 1.0}
            if isinstance(y, ast.Name) and y.id in bound and not df.assignments(callee.node).get(y.id):
                return go(bound[y.id]) if bound[y.id] is not None else None
            if isinstance(y, ast.Name):
                v = df.resolve_value(callee.node, y)
                return go2(v) if v is not y else None
            if isinstance(y, ast.Constant) and isinstance(y.value, (int, float)):
                return {(): float(y.value)}
            if isinstance(y, ast.Call) and df.is_xnp_call(y) == "norm" and y.args:
                return {(("N", 1), ): 1.0}  # as in the caller: a norm taken when the threshold is set up is the norm of the initial residual
            if isinstance(y, ast.BinOp) and isinstance(y.op, (ast.Add, ast.Sub)):
                l, r = go2(y.left), go2(y.right)
                if l is None or r is None:
                    return None
                out = dict(l)
                for m, c in r.items():
                    out[m] = out.get(m, 0.0) + (c if isinstance(y.op, ast.Add) else -c)
                return out
            if isinstance(y, ast.BinOp) and isinstance(y.op, ast.Mult):
                l, r = go2(y.left), go2(y.right)
                return None if l is None or r is None else mul(l, r)
            return None
        return go2(expr)

    p = go(e)
    return None if p is None else {m: c for m, c in p.items() if abs(c) > 1e-12}


def find_routine(idx, rep, cls_name):
    """the function reachable from <cls>.__call__ that starts a while_loop_winfo loop"""
    if not idx.has_cls(cls_name):
        rep.missing_anchor(f"algorithm class {cls_name}")
        return None, []
    call = idx.cls(cls_name).methods.get("__call__")
    if call is None:
        rep.missing_anchor(f"{cls_name}.__call__")
        return None, []
    fns = closure(idx, call, same_module=True)
    for f in fns:
        if any(isinstance(c.func, ast.Attribute) and c.func.attr == "while_loop_winfo" for c in df.calls(f.node, into_nested=False)):
            return f, fns
    rep.missing_anchor(f"loop routine reachable from {cls_name}.__call__")
    return None, fns


def run(idx, rep, tier):
    routine, fns = find_routine(idx, rep, "CG")
    if routine is None:
        return
    rep.analysed["routine"] = routine.short
    rep.analysed["helpers"] = [f.short for f in fns]
    loops = lp.find_loops(idx, routine)
    if not loops:
        rep.missing_anchor("while loop of the CG routine")
        return
    l = loops[0]
    loc = idx.loc(routine.module, l.call)
    # ---- cap
    cert = lp.cap_certificate(idx, l)
    if cert["ok"] is not True:
        rep.decide(cert["ok"], "loop-cap", "cg:loop", cert["why"], detail="no-cap" if cert["ok"] is False else "", locs=[loc])
    else:
        ok, why = lp.counter_step(idx, l, cert["counter_slot"])
        init = lp.init_slot(l, cert["counter_slot"], idx)
        init_ok = isinstance(init, ast.Constant) and init.value == 0
        v = ok if ok is not True else (True if init_ok else None)
        strict = cert["strict"]
        if v is True and not strict:
            v, why = False, f"cap conjunct `{cert['expr']}` uses <= with a counter starting at 0: max_iters + 1 steps are possible"
        rep.decide(v, "loop-cap", "cg:loop", f"cond contains `{cert['expr']}`; {why}; initial counter `{ast.unparse(init) if init is not None else '?'}`", detail="" if v is not False else "counter", locs=[loc])
    # ---- stopping test
    cond = l.cond
    test_fn = cond
    if cond is not None and not isinstance(cond, ast.Lambda):
        rets = lp.return_exprs(cond)
        e = lp.inline_expr(idx, cond, rets[0]) if rets else None
        callee, bound = lp.expand_call(idx, cond, e) if e is not None else (None, None)
        if callee is not None:
            test_fn = callee
    if test_fn is not None and not isinstance(test_fn, ast.Lambda):
        rets = lp.return_exprs(test_fn)
        e = lp.inline_expr(idx, test_fn, rets[0]) if rets else None
        conj = lp.conjuncts(e) if e is not None else []
        res = [c for c in conj if isinstance(c, ast.Call) and ast.unparse(c.func).endswith((".any", ".all"))]
        if res:
            c = res[0]
            is_any = ast.unparse(c.func).endswith(".any")
            arg = c.args[0] if c.args else None
            gt = isinstance(arg, ast.Compare) and isinstance(arg.ops[0], (ast.Gt, ast.GtE))
            lhs_norm = isinstance(arg, ast.Compare) and is_norm_value(idx, test_fn, arg.left)
            # refuted on positive evidence only (wrong quantifier / direction); an unrecognised left-hand side is undecided
            unknown_call = isinstance(arg, ast.Compare) and any(
                isinstance(c_, ast.Call) and df.is_xnp_call(c_) is None and not (isinstance(c_.func, ast.Attribute) and c_.func.attr in ("abs", "sqrt", "real", "sum", "max", "mean"))
                and idx.resolve_expr(test_fn.module, c_.func, test_fn) is None for c_ in ast.walk(df.resolve_value(test_fn.node, arg.left)))
            # an expression built from known operations that contains no norm of the state is a different quantity (refuted);
            # only a call that cannot be resolved leaves the question open
            ok = (is_any and gt and lhs_norm) if (lhs_norm or not (is_any and gt) or not unknown_call) else None
            rep.decide(ok, "stopping-test", "cg:cond", f"continues while `{ast.unparse(c)}`" + ("" if ok else ": the loop must continue while ANY column's residual norm exceeds the tolerance "
                       "(stop only when every column is below)"), detail="" if ok else "quantifier", locs=[idx.loc(test_fn.module, test_fn.node)])
            # residual norm per column
            for call, name, axis in reductions(test_fn):
                if name == "norm":
                    av = axis_value(axis)
                    rep.decide(av in (-2, 0), "column-independence", f"{test_fn.short}:{name}", f"`{ast.unparse(call)[:60]}` reduces over axis {av}" + ("" if av in (-2, 0) else ": must be the row axis (-2)"),
                               detail="" if av in (-2, 0) else f"axis:{av}", locs=[idx.loc(test_fn.module, call)])
        else:
            # a statistic of the batch in place of the per-column test: mean / sum / min / median of the residual norms against
            # (a statistic of) the tolerance lets the fast columns hide a slow one -- that column is returned unconverged
            agg = None
            for c in conj:
                if isinstance(c, ast.Compare) and len(c.ops) == 1 and isinstance(c.ops[0], (ast.Gt, ast.GtE, ast.Lt, ast.LtE)):
                    for side in (c.left, c.comparators[0]):
                        side = df.resolve_value(test_fn.node, side) if isinstance(side, ast.Name) else side
                        nm = df.is_xnp_call(side) if isinstance(side, ast.Call) else None
                        if nm is None and isinstance(side, ast.Call) and isinstance(side.func, ast.Attribute) and side.func.attr in ("mean", "sum", "min", "median") and not side.args:
                            nm, inner = side.func.attr, side.func.value
                        elif nm in ("mean", "sum", "min", "median", "average") and side.args:
                            inner = side.args[0]
                        else:
                            continue
                        if is_norm_value(idx, test_fn, inner):
                            agg = (c, nm)
            if agg is not None:
                rep.refuted("stopping-test", "cg:cond", f"continues while `{ast.unparse(agg[0])}`: the {agg[1]} over the batch replaces the per-column test -- the loop must continue while ANY "
                            "column's residual norm exceeds its tolerance; columns that converge early pull the statistic down and a slow column is returned above the tolerance",
                            detail="quantifier", locs=[idx.loc(test_fn.module, test_fn.node)])
            else:
                rep.undecided("stopping-test", "cg:cond", "no any()/all() conjunct over the residual found")
    # ---- tolerance computed once, from the initial residual of the normalised system.  The threshold is whatever the stopping test
    # compares the residual norm with, traced from the test function through the loop condition into the routine; the caller's
    # tolerance is what the routine hands to the loop runner for reporting.  Neither is recognised by its name.
    ok = None
    why = "threshold of the stopping test not traced to the routine"
    thr = None
    if test_fn is not None and not isinstance(test_fn, ast.Lambda):
        rets = lp.return_exprs(test_fn)
        e = lp.inline_expr(idx, test_fn, rets[0]) if rets else None
        cmp_ = next((c.args[0] for c in (lp.conjuncts(e) if e is not None else []) if isinstance(c, ast.Call) and ast.unparse(c.func).endswith((".any", ".all")) and c.args
                     and isinstance(c.args[0], ast.Compare)), None)
        if cmp_ is not None:
            t = cmp_.comparators[0] if is_norm_value(idx, test_fn, cmp_.left) else (cmp_.left if is_norm_value(idx, test_fn, cmp_.comparators[0]) else None)
            t = df.resolve_value(test_fn.node, t) if t is not None else None
            if isinstance(t, ast.Name) and test_fn is not cond and bound and t.id in bound:
                t = bound[t.id]  # the loop condition's argument for the test function's threshold parameter
            thr = t
    tol_arg = l.winfo_call.args[1] if l.winfo_call is not None and len(l.winfo_call.args) > 1 else None
    tol_src = df.resolve_at(routine.node, tol_arg) if tol_arg is not None else None
    if thr is not None and isinstance(tol_src, ast.Name) and tol_src.id in routine.params:
        # read where the loop condition is defined (a closure of the routine) or, for a lambda / module-level test, at the loop call
        at = cond.node.lineno if cond is not None and not isinstance(cond, ast.Lambda) and getattr(cond, "parent", None) is routine else l.call.lineno
        v = df.resolve_at(routine.node, thr, at)
        # the threshold as a polynomial in (tol, N = ||r0||) must be tol*N + tol, however it is written
        poly = polynomial(v, routine, idx, tol_name=tol_src.id)
        want = {(("N", 1), ("tol", 1)): 1.0, (("tol", 1), ): 1.0}
        ok = None if poly is None else poly == want
        why = f"threshold = `{ast.unparse(v)}`" + ("" if ok else (f": required {tol_src.id} * ||r0|| + {tol_src.id}" if ok is False else ": outside the polynomial fragment"))
    rep.decide(ok, "stopping-test", "cg:tolerance", why, detail="" if ok else "tolerance", locs=[idx.loc(routine.module, routine.node)])
    # ---- scaling in and out by the same quantity: decided by HOMOG below (an un-normalised right-hand side makes the threshold
    # inhomogeneous, a missing or doubled rescaling gives the solution a degree other than 1); the axis of the column norms is
    # one of the reductions checked for column independence
    # ---- column independence of the reductions that feed the iterate
    errfn = None
    if l.winfo_call is not None and l.winfo_call.args:
        errfn = lp._fn_of(idx, routine, l.winfo_call.args[0])
    skip = {id(errfn.node)} if errfn is not None and not isinstance(errfn, ast.Lambda) else set()
    for f in fns:
        if id(f.node) in skip or f.cls is not None:
            continue
        if f is test_fn:
            continue
        for call, name, axis in reductions(f):
            av = axis_value(axis)
            ok = av in (-2, 0)
            rep.decide(ok, "column-independence", f"{f.short}:{name}:{nospace(call.args[0])[:30] if call.args else ''}",
                       f"`{ast.unparse(call)[:70]}` reduces over axis {av}" + ("" if ok else ": a reduction without the row axis mixes the right-hand-side columns (each column must be solved independently)"),
                       detail="" if ok else f"axis:{av}", locs=[idx.loc(f.module, call)])
    # ---- HOMOG: relative tolerance, linear solution, cap = the caller's max_iters
    cond_fns = []
    if cond is not None and not isinstance(cond, ast.Lambda):
        cond_fns = closure(idx, cond, same_module=True)
    solver_scale_obligations(idx, rep, routine, cond_fns, "scale-homogeneity", "cg")
    # ---- bookkeeping of the instrumented while loop
    bookkeeping(idx, rep)
    # ---- finite reciprocals: a division guard replaces a zero denominator by a tiny constant; dividing BY the guarded value is fine
    # (0 / tiny = 0), but forming its RECIPROCAL overflows in single precision when the constant is below the smallest normal float32
    # (1 / 1e-40 = inf, and 0 * inf = nan: the zero right-hand-side column comes back as nan instead of exactly 0)
    F32_TINY = 1.1754944e-38
    n_recip = 0
    n_zero = [0]
    for f in fns:
        if f.cls is not None:
            continue

        def literals(e, depth=0):
            """numeric literals an expression may evaluate to through guards (where / maximum / clip / array wrappers / names)"""
            if depth > 6 or e is None:
                return set()
            if isinstance(e, ast.Constant) and isinstance(e.value, (int, float)) and not isinstance(e.value, bool):
                return {float(e.value)}
            if isinstance(e, ast.Name):
                v = df.resolve_value(f.node, e)
                if v is not e:
                    return literals(v, depth + 1)
                r = idx.resolve_name(f.module, e.id, f)
                if r is not None and r.kind == "value" and isinstance(getattr(r, "val", None), ast.AST):
                    return literals(r.val, depth + 1)
                mv = f.module.values.get(e.id) if hasattr(f.module, "values") else None
                return literals(mv, depth + 1) if isinstance(mv, ast.AST) else set()
            if isinstance(e, ast.Call) and df.is_xnp_call(e) in ("where", ):
                return set().union(*[literals(a_, depth + 1) for a_ in e.args[1:]])
            if isinstance(e, ast.Call) and df.is_xnp_call(e) in ("maximum", "clip", "array", "cast"):
                return set().union(*[literals(a_, depth + 1) for a_ in e.args]) if e.args else set()
            return set()
        for n in df.body_nodes(f.node):
            if isinstance(n, ast.BinOp) and isinstance(n.op, ast.Div) and isinstance(n.left, ast.Constant) and isinstance(n.left.value, (int, float)) and n.left.value:
                lits = {x for x in literals(n.right) if x != 0}
                if not lits:
                    continue
                n_recip += 1
                tiny = sorted(x for x in lits if abs(x) < F32_TINY)
                rep.decide(not tiny, "finite-reciprocal", f"{f.short}:reciprocal#{n_recip}", f"`{ast.unparse(n)}`: the denominator may be the guard constant {sorted(lits)}" +
                           ("" if not tiny else f"; {tiny[0]:g} is below the smallest normal single-precision number, so the reciprocal is inf in float32 and a zero numerator gives nan "
                            "(a zero right-hand-side column is returned as nan instead of exactly 0)"), detail="" if not tiny else "overflow", locs=[idx.loc(f.module, n)])
        # ---- "is zero" thresholds: a comparison of a norm / magnitude with a literal constant decides that a column (or a denominator) is
        # treated as exactly zero -- the column is then neither normalised nor iterated.  Every right-hand side that is a NORMAL number of a
        # supported precision has to stay outside: the constant must not exceed the smallest normal single-precision number, otherwise
        # columns with norms between it and the constant (perfectly ordinary float32 / float64 data) are returned as zero and the solve is
        # no longer linear in b
        for n in df.body_nodes(f.node):
            if isinstance(n, ast.Compare) and len(n.ops) == 1 and isinstance(n.ops[0], (ast.Lt, ast.LtE, ast.Gt, ast.GtE)):
                small_side = n.comparators[0] if isinstance(n.ops[0], (ast.Lt, ast.LtE)) else n.left
                other = n.left if small_side is n.comparators[0] else n.comparators[0]
                lits = {x for x in literals(small_side) if x != 0}
                mag = df.resolve_value(f.node, other) if isinstance(other, ast.Name) else other
                is_mag = isinstance(mag, ast.Call) and (df.is_xnp_call(mag) in ("norm", "abs") or (isinstance(mag.func, ast.Attribute) and mag.func.attr in ("norm", "abs")))
                if not lits or not is_mag:
                    continue
                n_zero[0] += 1
                big = sorted(x for x in lits if abs(x) > F32_TINY)
                rep.decide(not big, "zero-threshold", f"{f.short}:threshold#{n_zero[0]}", f"`{ast.unparse(n)[:70]}` treats magnitudes below {sorted(lits)} as zero" +
                           ("" if not big else f": {big[0]:g} exceeds the smallest normal single-precision number ({F32_TINY:g}), so right-hand sides / denominators of ordinary "
                            "magnitude are treated as zero: the column is not normalised (or its step is suppressed) and the result does not scale with b"),
                           detail="" if not big else "too-large", locs=[idx.loc(f.module, n)])
    if not n_recip:
        rep.note("finite-reciprocal: no reciprocal of a guarded denominator on this tree")
    # ---- the caller's numbers reach the loop as they are: `max_iters or 1000` turns an explicit 0 into the default
    n_f = 0
    for f in fns:
        for node_, p_, c_ in lp.falsy_numeric_defaults(f):
            n_f += 1
            rep.refuted("loop-cap", f"{f.short}:{p_}-or-default", f"`{ast.unparse(node_)}`: `or` replaces every falsy value, so an explicit {p_}=0 silently becomes {c_} "
                        f"(max_iters=0 must return the initial guess; write `{p_} if {p_} is not None else {c_}`)", detail="falsy-zero", locs=[idx.loc(f.module, node_)])
    if not n_f:
        rep.proved("loop-cap", "cg:numeric-defaults", f"no `parameter or <number>` default in the {len(fns)} functions of the CG path: an explicit 0 stays 0")
    # ---- the monitored loop runner only observes: it must not add stopping criteria of its own
    for f_, ok_, text_, node_ in lp.runner_transparency(idx):
        rep.decide(ok_, "runner-transparency", "while_loop_winfo", text_, detail="" if ok_ else "extra-exit", locs=[idx.loc(f_.module, node_)])
    rep.floor("loop-cap", 1)
    rep.floor("zero-threshold", 2)
    rep.floor("stopping-test", 2)
    rep.floor("scale-homogeneity", 3)
    rep.floor("column-independence", 2)
    rep.floor("iteration-count", 1)
    # ---- tolerance, cap, start vector and preconditioner reach the iteration from every entry point
    from sa.autorule import passthrough_in
    passthrough_in(idx, rep, ("inverse.cg", ), ("CG", ), ("tol", "max_iters", "x0", "P"), 12)
    rep.explanation = ("LOOP + DEP: cap conjunct k < max_iters with k from 0 by +1 per body; the loop continues while any column's residual norm exceeds tol' = tol*||r0|| + tol; the "
                       "right-hand side is divided by its column norms and solution / residual are multiplied back by the same array; every reduction on the CG state is over the "
                       "row axis; the iteration counter reported in info must advance once per body execution.")
    rep.assumptions += ["Krylov optimality of the iterate, the recurrences themselves and preconditioner independence are numerical and not decided"]


def bookkeeping(idx, rep):
    """while_loop_winfo: info['iterations'] must be incremented once per body execution"""
    fs = [f for f in idx.funcs_named("while_loop_winfo") if f.module.name.endswith("torch_tqdm")]
    if not fs:
        rep.missing_anchor("while_loop_winfo (numpy/torch)")
        return
    f = fs[-1]
    sites = [x for x in lp.runner_iteration_sites(idx) if x[0] is f]
    role, node = (sites[0][1], sites[0][2]) if sites else (None, None)
    if role is None:
        rep.undecided("iteration-count", "while_loop_winfo", "no increment of info['iterations'] found in the condition or the body handed to the inner loop")
    elif role == "body":
        rep.proved("iteration-count", "while_loop_winfo", "info['iterations'] is incremented in the body wrapper", locs=[idx.loc(f.module, node)])
    else:
        rep.refuted("iteration-count", "while_loop_winfo", "info['iterations'] is incremented in the condition wrapper, which runs once more than the body: the reported step count is "
                    "steps + 1 (max_iters = 3 reports 4)", detail="counted-in-cond", locs=[idx.loc(f.module, node)])
