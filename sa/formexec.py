"""FORMS -- which index forms reach an exit of `__getitem__`, read off by executing its (normal-form) body on abstract index values.

An index is 'int' | 'slice' | 'array' | 'list' | 'other' or a pair of those.  The interpreter follows assignments (names, tuple
unpacking, `slice(None)`), `match` statements with class / sequence / or / capture patterns, and `if` tests built from isinstance
with and / or / not.  -> 'exit' (a return is reached), 'raise', or None when a test cannot be evaluated."""
import ast

ATOMS = ("int", "slice", "array", "list", "other")


class Unknown(Exception):
    pass


class _Exit(Exception):
    def __init__(self, what):
        self.what = what


def _classes(e):
    """set of abstract kinds a class expression (or tuple of them) admits"""
    if isinstance(e, ast.Tuple):
        out = set()
        for x in e.elts:
            out |= _classes(x)
        return out
    t = ast.unparse(e)
    tail = t.split(".")[-1]
    if t == "int":
        return {"int"}
    if t == "slice":
        return {"slice"}
    if t == "list":
        return {"list"}
    if tail in ("ndarray", "Tensor", "Array") or t.endswith(".ndarray"):
        return {"array"}
    if t in ("tuple", ):
        return {"tuple"}
    raise Unknown(f"class {t}")


def _kind(v):
    return "tuple" if isinstance(v, tuple) else v


def run_form(fnode, ids_name, value, max_steps=400):
    env = {ids_name: value}
    steps = [0]

    def ev(e):
        if isinstance(e, ast.Name):
            if e.id in env:
                return env[e.id]
            raise Unknown(f"name {e.id}")
        if isinstance(e, ast.Tuple):
            return tuple(ev(x) for x in e.elts)
        if isinstance(e, ast.Call) and isinstance(e.func, ast.Name) and e.func.id == "slice":
            return "slice"
        if isinstance(e, ast.Subscript) and isinstance(e.slice, ast.Constant) and isinstance(e.slice.value, int):
            v = ev(e.value)
            if isinstance(v, tuple) and -len(v) <= e.slice.value < len(v):
                return v[e.slice.value]
        raise Unknown(ast.unparse(e)[:30])

    def test(t):
        if isinstance(t, ast.BoolOp):
            vals = [test(v) for v in t.values]
            return all(vals) if isinstance(t.op, ast.And) else any(vals)
        if isinstance(t, ast.UnaryOp) and isinstance(t.op, ast.Not):
            return not test(t.operand)
        if isinstance(t, ast.Call) and isinstance(t.func, ast.Name) and t.func.id == "isinstance" and len(t.args) == 2:
            return _kind(ev(t.args[0])) in _classes(t.args[1])
        if isinstance(t, ast.Compare) and len(t.ops) == 1 and isinstance(t.ops[0], ast.Eq) and isinstance(t.left, ast.Call) and isinstance(t.left.func, ast.Name) \
                and t.left.func.id == "len" and isinstance(t.comparators[0], ast.Constant):
            v = ev(t.left.args[0])
            if isinstance(v, tuple):
                return len(v) == t.comparators[0].value
            if v == "list":
                raise Unknown("length of a list")
            return False
        raise Unknown(ast.unparse(t)[:40])

    def match_pattern(pt, v, binds):
        if isinstance(pt, ast.MatchAs):
            if pt.pattern is not None and not match_pattern(pt.pattern, v, binds):
                return False
            if pt.name is not None:
                binds[pt.name] = v
            return True
        if isinstance(pt, ast.MatchClass):
            if pt.kwd_patterns or len(pt.patterns) > 1:
                raise Unknown("class pattern with sub-patterns")
            if _kind(v) not in _classes(pt.cls):
                return False
            if pt.patterns:
                # int(i), list(l), tuple(t): the builtin types match their single positional sub-pattern against the value itself
                if ast.unparse(pt.cls) not in ("int", "list", "tuple", "float", "str", "bool"):
                    raise Unknown("positional sub-pattern of a class without __match_args__ knowledge")
                return match_pattern(pt.patterns[0], v, binds)
            return True
        if isinstance(pt, ast.MatchOr):
            for p in pt.patterns:
                b2 = {}
                if match_pattern(p, v, b2):
                    binds.update(b2)
                    return True
            return False
        if isinstance(pt, ast.MatchSequence):
            # a sequence pattern matches tuples and lists (not str); a list index has unknown length
            if v == "list":
                raise Unknown("sequence pattern against a list of unknown length")
            if not isinstance(v, tuple) or len(v) != len(pt.patterns) or any(isinstance(p, ast.MatchStar) for p in pt.patterns):
                return False
            return all(match_pattern(p, x, binds) for p, x in zip(pt.patterns, v))
        raise Unknown(type(pt).__name__)

    def bind(t, v):
        if isinstance(t, ast.Name):
            env[t.id] = v
        elif isinstance(t, (ast.Tuple, ast.List)):
            if not isinstance(v, tuple) or len(v) != len(t.elts):
                raise _Exit("raise")  # unpacking the wrong number of values raises
            for e, x in zip(t.elts, v):
                bind(e, x)
        else:
            raise Unknown("assignment target")

    def block(stmts):
        for st in stmts:
            steps[0] += 1
            if steps[0] > max_steps:
                raise Unknown("budget")
            if isinstance(st, ast.Return):
                raise _Exit("exit")
            if isinstance(st, ast.Raise):
                raise _Exit("raise")
            if isinstance(st, ast.If):
                block(st.body if test(st.test) else st.orelse)
            elif isinstance(st, ast.Match):
                v = ev(st.subject)
                for c in st.cases:
                    binds = {}
                    if match_pattern(c.pattern, v, binds):
                        saved = dict(env)
                        env.update(binds)
                        if c.guard is None or test(c.guard):
                            block(c.body)
                            break
                        env.clear()
                        env.update(saved)
            elif isinstance(st, ast.Assign) and len(st.targets) == 1:
                try:
                    bind(st.targets[0], ev(st.value))
                except Unknown:
                    for x in ast.walk(st.targets[0]):
                        if isinstance(x, ast.Name):
                            env.pop(x.id, None)  # not an index value: later uses of the name are Unknown
            elif isinstance(st, (ast.Expr, ast.Import, ast.ImportFrom, ast.Pass, ast.Assert, ast.AnnAssign, ast.AugAssign)):
                continue
            else:
                raise Unknown(type(st).__name__)

    try:
        block(fnode.body)
    except _Exit as x:
        return x.what
    except Unknown:
        return None
    return "exit"  # falls off the end: returns None, no error
