"""Verdict protocol (DESIGN.md section 3): obligations, floors, known findings,
evidence and replay files, exit codes."""
import json
import os
import sys
import time

VERIF = os.path.dirname(os.path.dirname(os.path.abspath(__file__)))
KNOWN_FILE = os.path.join(VERIF, "KNOWN_FINDINGS.txt")

PROVED, REFUTED, UNDECIDED = "PROVED", "REFUTED", "UNDECIDED"


class Ob:
    __slots__ = ("rule", "construct", "statement", "status", "detail", "derivation", "locs", "nontrivial")

    def __init__(self, rule, construct, statement, status, detail="", derivation=None, locs=(), nontrivial=True):
        self.rule, self.construct, self.statement, self.status = rule, construct, statement, status
        self.detail, self.derivation, self.locs, self.nontrivial = detail, derivation, list(locs), nontrivial

    @property
    def key(self):
        k = f"{self.rule}@{self.construct}"
        if self.detail:
            k += f"#{self.detail}"
        return k.replace(" ", "")

    def to_json(self):
        return {
            "rule": self.rule,
            "construct": self.construct,
            "statement": self.statement,
            "status": self.status,
            "detail": self.detail,
            "key": self.key,
            "derivation": self.derivation,
            "locs": self.locs,
        }


def load_known(path=KNOWN_FILE):
    """-> (open: {(pid, key): text}, fixed: [(pid, text)])"""
    opened, fixed = {}, []
    if not os.path.exists(path):
        return opened, fixed
    with open(path) as fh:
        for line in fh:
            line = line.strip()
            if not line or line.startswith("#"):
                continue
            if line.startswith("open:"):
                rest = line[5:].strip()
                parts = rest.split(None, 2)
                pid = parts[0].split("=", 1)[1]
                key = parts[1].split("=", 1)[1]
                opened[(pid, key)] = parts[2] if len(parts) > 2 else ""
            elif line.startswith("fixed:"):
                rest = line[6:].strip()
                pid = rest.split(None, 1)[0].split("=", 1)[1]
                fixed.append((pid, rest))
    return opened, fixed


class Report:
    def __init__(self, pid, tier, root, evidence_dir=None, seed=0, quiet=False):
        self.pid, self.tier, self.root, self.seed = pid, tier, root, seed
        self.evidence_dir = evidence_dir or os.path.join(VERIF, "evidence")
        self.obs = []
        self.bulk = {}  # rule -> dict(proved=, nontrivial=)
        self.floors = {}
        self.analysed = {}
        self.assumptions = []
        self.samples = []
        self.notes = []
        self.t0 = time.time()
        self.explanation = ""
        self.exhaustive = None
        self.validation = {}
        self.quiet = quiet
        self.incomplete = []

    # ---- recording
    def add(self, ob):
        self.obs.append(ob)
        return ob

    def proved(self, rule, construct, statement, **kw):
        return self.add(Ob(rule, construct, statement, PROVED, **kw))

    def refuted(self, rule, construct, statement, **kw):
        return self.add(Ob(rule, construct, statement, REFUTED, **kw))

    def undecided(self, rule, construct, statement, **kw):
        return self.add(Ob(rule, construct, statement, UNDECIDED, **kw))

    def decide(self, ok, rule, construct, statement, **kw):
        """ok: True -> PROVED, False -> REFUTED, None -> UNDECIDED"""
        st = PROVED if ok is True else REFUTED if ok is False else UNDECIDED
        return self.add(Ob(rule, construct, statement, st, **kw))

    def count(self, rule, proved=0, nontrivial=0, refuted=0):
        """bulk evaluations; `refuted` counts evaluations whose refutation is reported through a grouped obligation"""
        b = self.bulk.setdefault(rule, {"proved": 0, "nontrivial": 0, "refuted": 0})
        b["proved"] += proved
        b["nontrivial"] += nontrivial
        b["refuted"] = b.get("refuted", 0) + refuted

    def floor(self, rule, n):
        self.floors[rule] = n

    def note(self, text):
        self.notes.append(text)

    def missing_anchor(self, what):
        """a role the check relies on is gone: the run is analysis-incomplete (exit 2)"""
        self.incomplete.append(f"anchor vanished: {what}")

    def sample(self, s):
        if len(self.samples) < 12:
            self.samples.append(s)

    # ---- finishing
    def finish(self):
        out = []
        p = out.append
        by_rule = {}
        for ob in self.obs:
            d = by_rule.setdefault(ob.rule, {PROVED: 0, REFUTED: 0, UNDECIDED: 0})
            d[ob.status] += 1
        for rule, b in self.bulk.items():
            d = by_rule.setdefault(rule, {PROVED: 0, REFUTED: 0, UNDECIDED: 0})
            d[PROVED] += b["proved"]
            d["grouped_refuted"] = b.get("refuted", 0)
        incomplete = list(self.incomplete)
        for rule, n in self.floors.items():
            d = by_rule.get(rule, {PROVED: 0, REFUTED: 0, UNDECIDED: 0})
            decided = d[PROVED] + d[REFUTED] + d.get("grouped_refuted", 0)
            if decided < n:
                incomplete.append(f"rule {rule}: decided {decided} < floor {n} (undecided {d[UNDECIDED]})")
        opened, fixed = load_known()
        violations, known = [], []
        seen_keys = set()
        for ob in self.obs:
            if ob.status != REFUTED:
                continue
            if ob.key in seen_keys:
                continue
            seen_keys.add(ob.key)
            if (self.pid, ob.key) in opened:
                known.append(ob)
            else:
                violations.append(ob)
        n_proved = sum(d[PROVED] for d in by_rule.values())
        n_ref = sum(d[REFUTED] for d in by_rule.values())
        n_und = sum(d[UNDECIDED] for d in by_rule.values())
        nontrivial_keys = {ob.key for ob in self.obs if ob.nontrivial and ob.status != UNDECIDED}
        distinct_nontrivial = len(nontrivial_keys) + sum(b["nontrivial"] for b in self.bulk.values())
        evaluations = len(self.obs) + sum(b["proved"] for b in self.bulk.values())
        p(f"== {self.pid} [{self.tier}] root={self.root}")
        for k, v in self.analysed.items():
            p(f"analysed {k}: {v if not isinstance(v, (list, tuple, set)) else len(v)}")
        for rule in sorted(by_rule):
            d = by_rule[rule]
            fl = self.floors.get(rule)
            p(f"rule {rule}: proved={d[PROVED]} refuted={d[REFUTED]} undecided={d[UNDECIDED]}" + (f" floor={fl}" if fl is not None else ""))
        for ob in self.obs:
            if ob.status == UNDECIDED:
                p(f"UNDECIDED: {ob.key} -- {ob.statement}")
        for n in self.notes:
            p(f"note: {n}")
        replay_dir = os.path.join(self.evidence_dir, "replay")
        status = 0
        for ob in known:
            p(f"KNOWN-FINDING: property={self.pid} {ob.key} -- {ob.statement} [{'; '.join(ob.locs[:3])}]")
        stale = [k for (pid, k) in opened if pid == self.pid and k not in seen_keys]
        for k in stale:
            p(f"note: listed known finding not re-derived on this tree: {k}")
        if incomplete:
            for t in incomplete:
                p(f"ANALYSIS-INCOMPLETE property={self.pid} {t}")
            status = 2
        # a refutation is a positive derivation: it is reported even when another rule family fell below its floor
        if violations:
            os.makedirs(replay_dir, exist_ok=True)
            # stale replay files of this property are removed first
            for f in os.listdir(replay_dir):
                if f.startswith(self.pid + "-"):
                    os.unlink(os.path.join(replay_dir, f))
            for i, ob in enumerate(violations):
                path = os.path.join(replay_dir, f"{self.pid}-{i}.json")
                with open(path, "w") as fh:
                    json.dump({"property": self.pid, "root": self.root, "obligation": ob.to_json()}, fh, indent=1, default=str)
                p(f"REFUTED {ob.key}: {ob.statement}")
                for loc in ob.locs[:6]:
                    p(f"    at {loc}")
                if ob.derivation is not None:
                    txt = json.dumps(ob.derivation, default=str)
                    p(f"    derivation: {txt[:600]}")
                p(f"VIOLATION property={self.pid} replay={path}")
            status = 1
        wall = time.time() - self.t0
        cov = {
            "explanation": self.explanation or f"static analysis of {self.root}/cola; obligations per rule listed in by_rule",
            "evaluations": max(evaluations, 1),
            "distinct_nontrivial": distinct_nontrivial,
            "rule": "one evaluation per obligation (rule, construct, statement) instantiated from the parsed tree; "
            "non-trivial = decided obligation whose derivation involved at least one real step "
            "(>=2 candidate rules, >=1 write site, >=1 call site, ...), distinct by obligation key",
            "obligations": evaluations,
            "discharged": n_proved,
            "refuted": n_ref,
            "undecided": n_und,
            "known_findings": [ob.key for ob in known],
            "violations": [ob.key for ob in violations],
            "by_rule": by_rule,
            "floors": self.floors,
            "analysed": {k: (sorted(v) if isinstance(v, (set, frozenset)) else v) for k, v in self.analysed.items()},
            "samples": self.samples or [ob.to_json() for ob in self.obs[:6]],
            "undecided_list": [ob.key for ob in self.obs if ob.status == UNDECIDED][:200],
            "notes": self.notes[:100],
            "checker_cmd": f"./check {self.pid} --tier {self.tier}",
            "trusted_base": ["python ast module", "sa/index.py name resolution (closed world of cola/)", "oracle tables in sa/oracle_*.py"],
            "validation": self.validation,
        }
        if self.exhaustive is not None:
            cov["exhaustive"] = self.exhaustive
        ev = {
            "property_id": self.pid,
            "tier": self.tier,
            "seed": self.seed,
            "level": "other",
            "coverage": cov,
            "assumptions": self.assumptions,
            "wall_s": round(wall, 3),
            "violations": len(violations),
            "status": {0: "held", 1: "violation", 2: "analysis-incomplete"}[status],
        }
        os.makedirs(self.evidence_dir, exist_ok=True)
        with open(os.path.join(self.evidence_dir, f"{self.pid}.json"), "w") as fh:
            json.dump(ev, fh, indent=1, default=str)
        p(f"result {self.pid}: proved={n_proved} refuted={n_ref} (known={len(known)}, new={len(violations)}) undecided={n_und} "
          f"evaluations={evaluations} nontrivial={distinct_nontrivial} wall={wall:.2f}s exit={status}")
        if not self.quiet:
            sys.stdout.write("\n".join(out) + "\n")
        self.output = out
        return status
