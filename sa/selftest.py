"""Checker validation (DESIGN.md section 7): the checks are run on scratch copies of cola/
(tempfile.mkdtemp outside /repo and /verif) with one construct broken ("must fire") or with a
behaviour-preserving rewrite applied ("must stay silent").  A failure here means the *checker* is
broken (exit 2); the property verdict always comes from analysing /repo itself.
"""
import ast
import concurrent.futures as cf
import json
import os
import shutil
import sys
import tempfile
import time

VERIF = os.path.dirname(os.path.dirname(os.path.abspath(__file__)))


def load_mutants():
    if VERIF not in sys.path:
        sys.path.insert(0, VERIF)
    from selftest.mutants import MUTANTS
    return MUTANTS


def make_copy(root):
    tmp = tempfile.mkdtemp(prefix="cola-selftest-")
    shutil.copytree(os.path.join(root, "cola"), os.path.join(tmp, "cola"), ignore=shutil.ignore_patterns("__pycache__", "*.pyc"))
    return tmp


def apply_edit(tmp, m):
    if m.get("patch"):
        import subprocess
        r = subprocess.run(["git", "apply", "--whitespace=nowarn", m["patch"]], cwd=tmp, capture_output=True, text=True)
        if r.returncode != 0:
            return f"seeded patch does not apply: {r.stderr.strip()[:160]}"
    for ed in m["edits"]:
        p = os.path.join(tmp, ed["file"])
        with open(p) as fh:
            s = fh.read()
        if s.count(ed["old"]) != 1:
            return f"edit anchor occurs {s.count(ed['old'])} times in {ed['file']}"
        s = s.replace(ed["old"], ed["new"])
        try:
            ast.parse(s)
        except SyntaxError as e:
            return f"mutant does not parse: {e}"
        with open(p, "w") as fh:
            fh.write(s)
    return None


def baseline_keys(pid, root):
    from sa.main import run_property
    ev = tempfile.mkdtemp(prefix="cola-selftest-ev-")
    try:
        rc, rep = run_property(pid, "quick", root, evidence_dir=ev, quiet=True)
        return rc, {ob.key for ob in rep.obs if ob.status == "REFUTED"}, {ob.key for ob in rep.obs if ob.status == "UNDECIDED"}
    finally:
        shutil.rmtree(ev, ignore_errors=True)


def run_mutant(args):
    m, root, base = args
    sys.path.insert(0, VERIF)
    from sa.main import run_property
    tmp = make_copy(root)
    ev = os.path.join(tmp, "_ev")
    t0 = time.time()
    try:
        err = apply_edit(tmp, m)
        if err:
            return {"id": m["id"], "ok": False, "why": f"invalid mutant: {err}", "stale": True}
        rc, rep = run_property(m["property"], "quick", tmp, evidence_dir=ev, quiet=True)
        refuted = {ob.key for ob in rep.obs if ob.status == "REFUTED"}
        new = sorted(refuted - set(base.get(m["property"], [])))
        if m.get("silent"):
            ok = rc != 2 and not new
            return {"id": m["id"], "ok": ok, "why": "stayed silent" if ok else f"raised {new[:3]} rc={rc}", "wall": time.time() - t0}
        hit = [k for k in new if m["expect"] in k]
        ok = rc == 1 and bool(hit)
        why = f"fired {hit[0]}" if ok else f"rc={rc}, new refutations {new[:4]}, expected a key containing {m['expect']!r}; output tail: {rep.output[-3:] if getattr(rep, 'output', None) else ''}"
        return {"id": m["id"], "ok": ok, "why": why, "wall": time.time() - t0}
    finally:
        shutil.rmtree(tmp, ignore_errors=True)


def roundtrip_copy(root):
    """whole-tree ast.unparse round trip: destroys every line number, column and comment"""
    tmp = make_copy(root)
    for dp, dn, fns in os.walk(os.path.join(tmp, "cola")):
        for f in fns:
            if f.endswith(".py"):
                p = os.path.join(dp, f)
                with open(p) as fh:
                    src = fh.read()
                with open(p, "w") as fh:
                    fh.write(ast.unparse(ast.parse(src)) + "\n")
    return tmp


def rename_copy(root):
    """consistent renaming of every function's plain local variables (sa/rename.py): a check that keys on
    the spelling of a local would change its verdict or its finding keys"""
    from sa.rename import rename_locals
    tmp = make_copy(root)
    for dp, dn, fns in os.walk(os.path.join(tmp, "cola")):
        for f in fns:
            if f.endswith(".py"):
                p = os.path.join(dp, f)
                with open(p) as fh:
                    src = fh.read()
                out, _ = rename_locals(src, p)
                with open(p, "w") as fh:
                    fh.write(out)
    return tmp


def run_roundtrip(args, kind="roundtrip"):
    pid, root, base = args
    sys.path.insert(0, VERIF)
    from sa.main import run_property
    tmp = {"roundtrip": roundtrip_copy, "rename": rename_copy, "extract-return": extract_return_copy, "invert-if": invert_if_copy, "anf": anf_copy, "inline-temps": inline_copy}[kind](root)
    try:
        rc, rep = run_property(pid, "quick", tmp, evidence_dir=os.path.join(tmp, "_ev"), quiet=True)
        refuted = {ob.key for ob in rep.obs if ob.status == "REFUTED"}
        undec = {ob.key for ob in rep.obs if ob.status == "UNDECIDED"}
        b_rc, b_ref, b_und = base
        ok = rc == b_rc and refuted == b_ref and undec == b_und
        what = {"roundtrip": "ast.unparse round trip", "rename": "renaming all function locals", "extract-return": "binding every returned expression to a temporary first",
                "invert-if": "swapping the branches of every if/else under the negated test", "anf": "binding every nested call to a temporary first",
                "inline-temps": "inlining every single-use temporary"}[kind]
        why = f"verdict and keys unchanged after {what}" if ok else f"rc {b_rc}->{rc}; refuted diff {sorted(refuted ^ b_ref)[:4]}; undecided diff {sorted(undec ^ b_und)[:4]}"
        if not ok and rc == 2:
            why += " | " + " ".join(ln for ln in getattr(rep, "output", []) if ln.startswith("ANALYSIS"))[:400]
        return {"id": f"{kind}-{pid}", "ok": ok, "why": why}
    finally:
        shutil.rmtree(tmp, ignore_errors=True)


def run_rename(args):
    return run_roundtrip(args, kind="rename")


def run_benign(args):
    """a behaviour-preserving maintainer change (benign/<id>/patch.diff, written by a sub-agent that saw only the property text):
    the check must not report a violation; falling below a floor (exit 2) is tolerated and reported"""
    bid, patch, pid, root, base = args
    sys.path.insert(0, VERIF)
    from sa.main import run_property
    import subprocess
    tmp = make_copy(root)
    try:
        r = subprocess.run(["git", "apply", "--whitespace=nowarn", patch], cwd=tmp, capture_output=True, text=True)
        if r.returncode != 0:
            return {"id": f"benign-{bid}-{pid}", "ok": False, "why": f"benign patch does not apply: {r.stderr.strip()[:120]}"}
        rc, rep = run_property(pid, "quick", tmp, evidence_dir=os.path.join(tmp, "_ev"), quiet=True)
        refuted = {ob.key for ob in rep.obs if ob.status == "REFUTED"}
        new = sorted(refuted - set(base))
        ok = not new and rc != 1
        return {"id": f"benign-{bid}-{pid}", "ok": ok, "why": ("no violation reported" + (" (analysis incomplete)" if rc == 2 else "")) if ok else f"FALSE ALARM rc={rc} new refutations {new[:3]}"}
    finally:
        shutil.rmtree(tmp, ignore_errors=True)


def benign_patches():
    base = os.path.join(VERIF, "benign")
    out = []
    if os.path.isdir(base):
        for d in sorted(os.listdir(base)):
            p = os.path.join(base, d, "patch.diff")
            if os.path.exists(p) and os.path.exists(os.path.join(base, d, "meta.json")):
                out.append((d, p))
    return out


def validate(pids, root="/repo", jobs=16, verbose=True):
    sys.path.insert(0, VERIF)
    mutants = [m for m in load_mutants() if m["property"] in pids]
    base, base_full = {}, {}
    for pid in pids:
        rc, ref, und = baseline_keys(pid, root)
        base[pid] = sorted(ref)
        base_full[pid] = (rc, ref, und)
    results = []
    # the variants read the memoised normal forms of the files they leave alone but do not add their own (hundreds of one-off entries)
    os.environ["COLA_VERIF_NFCACHE_RO"] = "1"
    with cf.ProcessPoolExecutor(max_workers=jobs) as ex:
        futs = [ex.submit(run_mutant, (m, root, base)) for m in mutants]
        futs += [ex.submit(run_roundtrip, (pid, root, base_full[pid])) for pid in pids]
        futs += [ex.submit(run_rename, (pid, root, base_full[pid])) for pid in pids]
        futs += [ex.submit(run_extract, (pid, root, base_full[pid])) for pid in pids]
        futs += [ex.submit(run_invert, (pid, root, base_full[pid])) for pid in pids]
        futs += [ex.submit(run_anf, (pid, root, base_full[pid])) for pid in pids]
        futs += [ex.submit(run_inline, (pid, root, base_full[pid])) for pid in pids]
        bp = benign_patches()
        futs += [ex.submit(run_benign, (bid, patch, pid, root, base[pid])) for bid, patch in bp for pid in pids]
        for f in futs:
            results.append(f.result())
    bad = [r for r in results if not r["ok"]]
    if verbose:
        for r in results:
            print(f"selftest {'ok  ' if r['ok'] else 'FAIL'} {r['id']}: {r['why']}")
        print(f"selftest: {len(results) - len(bad)}/{len(results)} passed ({len(mutants)} mutants, 6 x {len(pids)} round trips: unparse, local-rename, extract-return, invert-if, anf, inline-temps; {len(bp)} benign patches x {len(pids)} checks)")
    return bad, results


def validate_property(pid, jobs=16):
    bad, results = validate([pid], jobs=jobs)
    if bad:
        print(f"ANALYSIS-INCOMPLETE property={pid} checker validation failed: " + "; ".join(f"{b['id']}: {b['why'][:120]}" for b in bad[:5]))
        return 2
    return 0


def main(args):
    props = sorted(f[:-3] for f in os.listdir(os.path.join(VERIF, "props")) if f.startswith("C") and f.endswith(".py"))
    bad, results = validate(props, root=args.root, jobs=args.jobs)
    return 2 if bad else 0


# ------------------------------------------------------------------------------------------------
class _ExtractReturn(ast.NodeTransformer):
    """`return <expr>`  ->  `_ret_value = <expr>; return _ret_value` for every non-trivial return (the refactoring a
    debugger-friendly style or a logging line produces); lambdas untouched"""
    def visit_Lambda(self, node):
        return node

    def _body(self, body):
        out = []
        for st in body:
            st = self.visit(st)
            if isinstance(st, ast.Return) and st.value is not None and not isinstance(st.value, (ast.Name, ast.Constant)):
                out.append(ast.Assign(targets=[ast.Name(id="_ret_value", ctx=ast.Store())], value=st.value, lineno=st.lineno))
                out.append(ast.Return(value=ast.Name(id="_ret_value", ctx=ast.Load())))
            else:
                out.append(st)
        return out

    def generic_visit(self, node):
        for f in ("body", "orelse", "finalbody"):
            if isinstance(getattr(node, f, None), list):
                setattr(node, f, self._body(getattr(node, f)))
        if hasattr(node, "handlers"):
            node.handlers = [self.visit(h) for h in node.handlers]
        if hasattr(node, "cases"):
            node.cases = [self.visit(c) for c in node.cases]
        return node


def extract_return_copy(root):
    tmp = make_copy(root)
    for dp, dn, fns in os.walk(os.path.join(tmp, "cola")):
        for f in fns:
            if f.endswith(".py"):
                p = os.path.join(dp, f)
                with open(p) as fh:
                    tree = ast.parse(fh.read())
                tree = _ExtractReturn().visit(tree)
                ast.fix_missing_locations(tree)
                with open(p, "w") as fh:
                    fh.write(ast.unparse(tree) + "\n")
    return tmp


def run_extract(args):
    return run_roundtrip(args, kind="extract-return")


# ------------------------------------------------------------------------------------------------
class _InvertIf(ast.NodeTransformer):
    """`if c: A else: B`  ->  `if not c: B else: A` for every plain if/else (elif chains keep their head)"""
    def visit_If(self, node):
        self.generic_visit(node)
        if node.orelse and not (len(node.orelse) == 1 and isinstance(node.orelse[0], ast.If)):
            t = node.test
            nt = t.operand if isinstance(t, ast.UnaryOp) and isinstance(t.op, ast.Not) else ast.UnaryOp(op=ast.Not(), operand=t)
            return ast.copy_location(ast.If(test=nt, body=node.orelse, orelse=node.body), node)
        return node


def invert_if_copy(root):
    tmp = make_copy(root)
    for dp, dn, fns in os.walk(os.path.join(tmp, "cola")):
        for f in fns:
            if f.endswith(".py"):
                p = os.path.join(dp, f)
                with open(p) as fh:
                    tree = ast.parse(fh.read())
                tree = _InvertIf().visit(tree)
                ast.fix_missing_locations(tree)
                with open(p, "w") as fh:
                    fh.write(ast.unparse(tree) + "\n")
    return tmp


def run_invert(args):
    return run_roundtrip(args, kind="invert-if")


# ------------------------------------------------------------------------------------------------
_COND = (ast.Lambda, ast.ListComp, ast.GeneratorExp, ast.SetComp, ast.DictComp, ast.IfExp, ast.BoolOp)


class _Anf(ast.NodeTransformer):
    """every call nested in the value of a simple statement is bound to a fresh temporary first (`f(g(x))` -> `t = g(x); f(t)`),
    except under conditionally evaluated constructs; the opposite direction of sa/normalise.py"""
    def __init__(self):
        self.n = 0

    def _flatten(self, st):
        if not ((isinstance(st, (ast.Assign, ast.Expr)) or (isinstance(st, ast.Return) and st.value is not None)) and not isinstance(st.value, _COND)):
            return [st]
        pre = []

        def visit(node, top):
            for f, val in ast.iter_fields(node):
                if isinstance(val, list):
                    for i, c in enumerate(val):
                        if isinstance(c, ast.keyword):
                            if not isinstance(c.value, _COND):
                                c.value = visit(c.value, False)
                        elif isinstance(c, ast.AST) and not isinstance(c, _COND) and not isinstance(c, ast.Starred):
                            val[i] = visit(c, False)
                elif isinstance(val, ast.AST) and not isinstance(val, _COND) and not isinstance(val, (ast.expr_context, ast.operator, ast.unaryop, ast.cmpop, ast.boolop)):
                    setattr(node, f, visit(val, False))
            if isinstance(node, ast.Call) and not top:
                self.n += 1
                name = f"_anf{self.n}"
                pre.append(ast.Assign(targets=[ast.Name(id=name, ctx=ast.Store())], value=node, lineno=getattr(st, "lineno", 1)))
                return ast.Name(id=name, ctx=ast.Load())
            return node

        st.value = visit(st.value, True)
        return pre + [st]

    def generic_visit(self, node):
        super().generic_visit(node)
        for f in ("body", "orelse", "finalbody"):
            b = getattr(node, f, None)
            if isinstance(b, list) and b and isinstance(b[0], ast.stmt) and not isinstance(node, (ast.Module, ast.ClassDef)):
                out = []
                for s in b:
                    out += self._flatten(s)
                setattr(node, f, out)
        return node


def _transform_copy(root, fn):
    tmp = make_copy(root)
    for dp, dn, fns in os.walk(os.path.join(tmp, "cola")):
        for f in fns:
            if f.endswith(".py"):
                p = os.path.join(dp, f)
                with open(p) as fh:
                    tree = ast.parse(fh.read())
                tree = fn(tree)
                ast.fix_missing_locations(tree)
                with open(p, "w") as fh:
                    fh.write(ast.unparse(tree) + "\n")
    return tmp


def anf_copy(root):
    return _transform_copy(root, lambda t: _Anf().visit(t))


def inline_copy(root):
    from sa.normalise import normalise

    def fn(t):
        normalise(t)
        return t
    return _transform_copy(root, fn)


def run_anf(args):
    return run_roundtrip(args, kind="anf")


def run_inline(args):
    return run_roundtrip(args, kind="inline-temps")
