"""C14 — Lanczos (DESIGN.md section 4, C14): cap, symmetric T by construction with non-negative
off-diagonal, normalised first column (copied, not written), sesquilinear projection convention of the
re-orthogonalisation, ascending paired Ritz pairs, consistent trimming."""
import ast

from sa import dataflow as df
from sa import loop as lp
from sa.krylov import basis_aliasing, buffer_dtype_obligations, clip_certificate, closure, first_column_obligation, is_norm_expr, nospace, norm_written, projection_convention


def fn(idx, rep, name, module_suffix="lanczos"):
    fs = [f for f in idx.funcs_named(name) if f.module.name.endswith(module_suffix)]
    if not fs:
        rep.missing_anchor(f"function {name}")
        return None
    return fs[-1]


def run(idx, rep, tier):
    lanczos = fn(idx, rep, "lanczos")
    fact = fn(idx, rep, "lanczos_fact")
    init = fn(idx, rep, "init_lanczos")
    eigs = fn(idx, rep, "lanczos_eigs")
    if not all((lanczos, fact, init, eigs)):
        return
    # ---- cap: max_iters <- min(max_iters, n); cond contains i <= max_iters; i from 1 by +1
    a = lanczos.params[0]
    ok, clip_txt = clip_certificate(lanczos, a)
    rep.decide(ok, "loop-cap", "lanczos:clip", f"max_iters is clipped to `{clip_txt}`" + ("" if ok else f"; required min(max_iters, {a}.shape[0])"), detail="" if ok else "clip",
               locs=[idx.loc(lanczos.module, lanczos.node)])
    loops = lp.find_loops(idx, fact)
    if not loops:
        rep.missing_anchor("while loop of lanczos_fact")
    else:
        l = loops[0]
        cert = lp.cap_certificate(idx, l)
        if cert["ok"] is not True:
            rep.decide(cert["ok"], "loop-cap", "lanczos_fact:loop", cert["why"], detail="no-cap" if cert["ok"] is False else "", locs=[idx.loc(fact.module, l.call)])
        else:
            okc, why = lp.counter_step(idx, l, cert["counter_slot"])
            # initial counter comes from init_lanczos (the caller passes its result as init_val)
            rets = [r.value for r in df.returns(init.node) if isinstance(r.value, ast.Tuple)]
            start = None
            if rets:
                e = rets[0].elts[cert["counter_slot"]]
                vals = [v for v, p, st in df.assignments(init.node).get(e.id, [])] if isinstance(e, ast.Name) else [e]
                if vals and isinstance(vals[0], ast.Call) and vals[0].args and isinstance(vals[0].args[0], ast.Constant):
                    start = vals[0].args[0].value
                elif vals and isinstance(vals[0], ast.Constant):
                    start = vals[0].value
            # i starts at 1 and the test is i <= max_iters: exactly max_iters steps; i from 0 needs <
            consistent = (start == 1 and not cert["strict"]) or (start == 0 and cert["strict"])
            v = okc if okc is not True else (True if consistent else (False if start in (0, 1) else None))
            rep.decide(v, "loop-cap", "lanczos_fact:loop", f"cond contains `{cert['expr']}`; {why}; counter starts at {start}" +
                       ("" if v is not False or okc is False else ": with this start value the comparison allows one step more or less than max_iters"),
                       detail="" if v is not False else "off-by-one", locs=[idx.loc(fact.module, l.call)])
        okq, whyq = lp.batch_quantifier(idx, l)
        rep.decide(okq, "batch-quantifier", "lanczos_fact:cond", whyq, detail="" if okq is not False else "quantifier", locs=[idx.loc(fact.module, l.call)])
        basis_aliasing(idx, rep, l, "lanczos_fact:body")
        if cert.get("ok") is True:
            from sa.krylov import breakdown_reference
            breakdown_reference(idx, rep, fact, "breakdown-reference", "lanczos_fact:cond", l, cert["counter_slot"])
    # ---- T symmetric by construction
    n_tri = 0
    for c in df.calls(lanczos.node):
        f = nospace(c.func)
        args = None
        if f == "Tridiagonal":
            args = [nospace(x) for x in c.args]
        elif f.endswith("vmap(Tridiagonal)"):
            args = [nospace(x) for x in c.args]
        if args and len(args) == 3:
            n_tri += 1
            ok = args[0] == args[2]
            rep.decide(ok, "symmetric-T", f"lanczos:Tridiagonal#{n_tri}", f"T = Tridiagonal({', '.join(args)})" + ("" if ok else ": lower and upper off-diagonal must be the same array"),
                       detail="" if ok else "asymmetric", locs=[idx.loc(lanczos.module, c)])
    # the DIAGONAL of T holds the Rayleigh quotients q_j^H A q_j as the factorisation produced them: between the unpacking of the
    # factorisation's result and the constructor only selections (trimming, batch element), `.real`, a cast to the same kind or a copy may
    # touch it -- `abs`, a sign, arithmetic change T (the quotients of an indefinite operator are negative)
    busy = set()

    def value_chain(e, depth=0):
        """names of the value-changing operations between e and the tuple unpacking it comes from, or None if not followed"""
        if depth > 12:
            return None
        if isinstance(e, ast.Name):
            if e.id in busy:
                return []  # `x = f(x)`: the earlier value of the same name, whose own bindings are being collected
            vals = [(v_, p_) for v_, p_, st_ in df.assignments(lanczos.node).get(e.id, []) if not isinstance(v_, ast.AugAssign)]
            if not vals:
                return []
            out = []
            busy.add(e.id)
            for v_, p_ in vals:
                if p_ is not None:
                    continue  # a component of an unpacked call result: the origin
                ch = value_chain(v_, depth + 1)
                if ch is None:
                    busy.discard(e.id)
                    return None
                out += ch
            busy.discard(e.id)
            return out
        if isinstance(e, ast.Subscript):
            return value_chain(e.value, depth + 1)
        if isinstance(e, ast.Attribute) and e.attr in ("real", "T"):
            return value_chain(e.value, depth + 1)
        if isinstance(e, ast.Call) and df.is_xnp_call(e) in ("cast", "copy", "array", "conj") and e.args:
            return value_chain(e.args[0], depth + 1)
        if isinstance(e, ast.Call) and df.is_xnp_call(e) is not None and e.args:
            ch = value_chain(e.args[0], depth + 1)
            return None if ch is None else ch + [f"xnp.{df.is_xnp_call(e)}"]
        if isinstance(e, ast.UnaryOp) and isinstance(e.op, ast.USub):
            ch = value_chain(e.operand, depth + 1)
            return None if ch is None else ch + ["negation"]
        if isinstance(e, ast.BinOp):
            return ["arithmetic"]
        return None
    for c in [c for c in df.calls(lanczos.node) if nospace(c.func) == "Tridiagonal" or nospace(c.func).endswith("vmap(Tridiagonal)")]:
        if len(c.args) == 3:
            ch = value_chain(c.args[1])
            if ch:
                rep.refuted("symmetric-T", "lanczos:diagonal", f"the diagonal handed to Tridiagonal (`{nospace(c.args[1])}`) went through {sorted(set(ch))}: the Rayleigh quotients "
                            "q_j^H A q_j of an indefinite or negative definite operator are negative, T is no longer Q^H A Q", detail="diagonal-changed", locs=[idx.loc(lanczos.module, c)])
    if not n_tri:
        rep.missing_anchor("Tridiagonal construction in lanczos")
    # which buffer is the off-diagonal?  the one handed to Tridiagonal slots 0 and 2
    # the loop body is whatever function is handed to the loop runner as body_fun (not recognised by its name)
    _l = [l_ for l_ in lp.find_loops(idx, fact) if l_.kind != "for"]
    body = _l[0].body if _l and not isinstance(_l[0].body, ast.Lambda) else None
    if body is None:
        rep.missing_anchor("loop body of lanczos_fact")
    else:
        writes = norm_written(body)
        # positional linkage, independent of local names: slot 0 of Tridiagonal in lanczos -> its position in the
        # unpacking of lanczos_fact's result -> the same position of the loop state unpacked in the body
        tri0 = next((c for c in df.calls(lanczos.node) if nospace(c.func) == "Tridiagonal" and len(c.args) == 3), None)
        pos = None
        if tri0 is not None and isinstance(tri0.args[0], ast.Name):
            for st in df.body_nodes(lanczos.node):
                if isinstance(st, ast.Assign) and isinstance(st.targets[0], ast.Tuple) and isinstance(st.value, ast.Call) and nospace(st.value.func) == fact.short:
                    names = [t.id if isinstance(t, ast.Name) else None for t in st.targets[0].elts]
                    if tri0.args[0].id in names:
                        pos = names.index(tri0.args[0].id)
        off_name = None
        if pos is not None and body.params:
            for st in df.body_nodes(body.node):
                if isinstance(st, ast.Assign) and isinstance(st.targets[0], ast.Tuple) and isinstance(st.value, ast.Name) and st.value.id == body.params[0] and pos < len(st.targets[0].elts):
                    t = st.targets[0].elts[pos]
                    off_name = t.id if isinstance(t, ast.Name) else None
        sub = [w for w in writes if off_name is not None and w[0] == off_name]
        if sub:
            ok = all(w[1] for w in sub)
            rep.decide(ok, "nonneg-offdiagonal", "lanczos_fact:subdiag", f"off-diagonal entries written: {[ast.unparse(w[2].args[1])[:40] for w in sub]}" + ("" if ok else ": must be norms (non-negative)"),
                       detail="" if ok else "not-norm", locs=[idx.loc(fact.module, sub[0][2])])
        else:
            rep.undecided("nonneg-offdiagonal", "lanczos_fact:subdiag", "no write into the off-diagonal buffer found")
    # ---- first column: start vector normalised, copied
    first_column_obligation(idx, rep, init, "1", "init_lanczos")
    # ---- re-orthogonalisation: projection convention
    n_proj = 0
    for f in closure(idx, fact, same_module=True):
        for ok, text, node in projection_convention(f):
            n_proj += 1
            rep.decide(ok, "projection", f"{f.short}:projection", text, detail="" if ok else "conjugate-side", locs=[idx.loc(f.module, node)])
    if not n_proj:
        rep.undecided("projection", "lanczos_fact:projection", "no Gram-Schmidt projection step recognised")
    # ---- Ritz pairs ascending and paired: the ORDER of the returned values (abstract interpretation over spectrum orders, helpers
    # followed: eigh yields ascending values, x[argsort(x)] ascending, x[argsort(abs(x))] magnitude order, ...), and wherever values
    # are re-ordered by an index that is not the identity the vector columns must be re-ordered by the same index
    from props.C10 import ASC_ALG, Order, index_names, perm_source_calls, uses_of
    od = Order(idx)
    rets = [r for r in df.returns(eigs.node) if isinstance(r.value, ast.Tuple) and len(r.value.elts) >= 2]
    if not rets:
        rep.undecided("ritz-pairs", "lanczos_eigs", "does not return a (values, vectors, ..) tuple", locs=[idx.loc(eigs.module, eigs.node)])
    for r in rets[:1]:
        v = od.eval_in(eigs, r.value.elts[0])
        orders = sorted({a_[1] for a_ in od.spec_alts(v)})
        loc_ = [idx.loc(eigs.module, getattr(r, "_origin", r))]
        if not orders:
            rep.undecided("ritz-pairs", "lanczos_eigs", f"order of the returned values `{ast.unparse(r.value.elts[0])}` not determined", locs=loc_)
        elif orders == [ASC_ALG]:
            rep.proved("ritz-pairs", "lanczos_eigs", f"the returned values `{ast.unparse(r.value.elts[0])}` are in ascending (algebraic) order", locs=loc_)
        else:
            rep.refuted("ritz-pairs", "lanczos_eigs", f"the returned values `{ast.unparse(r.value.elts[0])}` are in {' / '.join(orders)} order; required ascending", detail="order", locs=loc_)
    for f in closure(idx, eigs, same_module=True):
        if getattr(f, "rule", None) is not None:
            continue
        for name_, kind_ in sorted(index_names(f).items()):
            if kind_ != "perm":
                continue
            # the argsort of values that are already ascending is the identity: nothing to pair
            src_calls = perm_source_calls(f, name_)
            arg_orders = {a_[1] for c_ in src_calls for a_ in od.spec_alts(od.eval_in(f, c_.args[0]))}
            plain = all(df.is_xnp_call(c_) == "argsort" and not any(k_.arg == "descending" for k_ in c_.keywords) for c_ in src_calls)
            if src_calls and plain and arg_orders == {ASC_ALG}:
                continue
            uses = uses_of(f, name_)
            vec_uses = [u for u in uses if u[0] == "vec"]
            col_uses = [u for u in uses if u[0] == "col"]
            if vec_uses and not col_uses:
                rep.refuted("ritz-pairs", f"{f.short}:{name_}", f"values are re-ordered by `{name_}` (not the identity) but the vector columns are not", detail="pairing",
                            locs=[idx.loc(f.module, f.node)])
            elif vec_uses and col_uses:
                rep.proved("ritz-pairs", f"{f.short}:{name_}", f"values `{vec_uses[0][1]}` and vector columns `{col_uses[0][1]}` are permuted by the same index", locs=[idx.loc(f.module, f.node)])
    # ---- trimming: one consistent size
    trims = {}
    for st in df.body_nodes(lanczos.node):
        pairs = []
        if isinstance(st, ast.Assign) and isinstance(st.value, ast.Tuple) and isinstance(st.targets[0], ast.Tuple):
            pairs = list(zip(st.targets[0].elts, st.value.elts))
        elif isinstance(st, ast.Assign) and len(st.targets) == 1 and isinstance(st.targets[0], ast.Name):
            pairs = [(st.targets[0], st.value)]
        if pairs:
            for t, v in pairs:
                if isinstance(v, ast.Subscript) and isinstance(t, ast.Name):
                    last = v.slice.elts[-1] if isinstance(v.slice, ast.Tuple) else v.slice
                    if isinstance(last, ast.Slice) and last.upper is not None and last.lower is None and not isinstance(last.upper, ast.Constant):
                        trims[t.id] = nospace(last.upper)
    if trims:
        # T = Tridiagonal(off, diag, off): diag and Q cut to N, off-diagonal to N - 1, for one size variable N;
        # Q is whatever array is wrapped in Dense
        tri = [c for c in df.calls(lanczos.node) if nospace(c.func) == "Tridiagonal"]
        def root(e):
            """the array an expression selects from: `alpha[0]`, `alpha[..., :k]`, `alpha.real` -> alpha"""
            while isinstance(e, (ast.Subscript, ast.Attribute)):
                e = e.value
            return e.id if isinstance(e, ast.Name) else nospace(e)
        off, dg = (root(tri[0].args[0]), root(tri[0].args[1])) if tri else (None, None)
        dense = [c for c in df.calls(lanczos.node) if (nospace(c.func) == "Dense" or nospace(c.func).endswith("vmap(Dense)")) and c.args]
        qn = next((n for c in dense for n in df.names_in(c.args[0]) if n in trims), None)
        # a trimmed array may reach the constructor through plain copies (`diag = trimmed_diag`)
        copies = {st.targets[0].id: st.value.id for st in df.body_nodes(lanczos.node)
                  if isinstance(st, ast.Assign) and len(st.targets) == 1 and isinstance(st.targets[0], ast.Name) and isinstance(st.value, ast.Name)}

        def trim_of(n_):
            seen_ = set()
            while n_ is not None and n_ not in trims and n_ in copies and n_ not in seen_:
                seen_.add(n_)
                n_ = copies[n_]
            return trims.get(n_)
        if qn is None:
            qn = next((n for c in dense for n in df.names_in(c.args[0]) if trim_of(n) is not None), None)
        trims = {**trims, **{n_: trim_of(n_) for n_ in (dg, off, qn) if n_ is not None and trim_of(n_) is not None}}
        size = trims.get(dg)
        ok = size is not None and size.isidentifier() and trims.get(off) == f"{size}-1" and trims.get(qn) == size
        if not ok and (trims.get(dg) is None or trims.get(off) is None or trims.get(qn) is None):
            ok = None  # one of the three cuts was not found: nothing to compare
        rep.decide(ok, "trimming", "lanczos:trim", f"diagonal `{dg}` cut to {trims.get(dg)}, off-diagonal `{off}` to {trims.get(off)}, basis `{qn}` to {trims.get(qn)} columns" +
                   ("" if ok else "; required N, N-1, N for one size N"), detail="" if ok else "sizes", locs=[idx.loc(lanczos.module, lanczos.node)])
    else:
        rep.undecided("trimming", "lanczos:trim", "trimming assignment not found")
    # ---- what the size N counts: the number of steps that were run = final loop counter - its initial value.  `info['iterations']`
    # of the loop runner counts evaluations of the loop CONDITION (it is incremented in the wrapper of cond), one more than the steps.
    if trims:
        trim_count(idx, rep, lanczos, fact, init, size if size is not None else next(iter(trims.values())))
    buffer_dtype_obligations(idx, rep, init, "buffer-dtype")
    # ---- the loop stops at an exact breakdown
    from sa.krylov import breakdown_stops
    _loops = lp.find_loops(idx, fact)
    _cert = lp.cap_certificate(idx, _loops[0]) if _loops else {"ok": None}
    breakdown_stops(idx, rep, fact, "breakdown-stops", f"{fact.short}:cond", _cert.get("counter_slot") if _cert.get("ok") is True else None,
                    cond=_loops[0].cond if _loops and not isinstance(_loops[0].cond, ast.Lambda) else None)
    # ---- HOMOG in the scale of the operator: floors inside the factorisation loop must scale with what they guard
    from sa.homog import krylov_floor_obligations
    krylov_floor_obligations(idx, rep, fact, init, "scale-floor")
    # ---- the monitored loop runner only observes: it must not add stopping criteria of its own
    for f_, ok_, text_, node_ in lp.runner_transparency(idx):
        rep.decide(ok_, "runner-transparency", "while_loop_winfo", text_, detail="" if ok_ else "extra-exit", locs=[idx.loc(f_.module, node_)])
    rep.floor("buffer-dtype", 2)
    rep.floor("loop-cap", 2)
    rep.floor("batch-quantifier", 1)
    rep.floor("basis-aliasing", 1)
    rep.floor("symmetric-T", 2)
    rep.floor("projection", 1)
    rep.floor("first-column", 1)
    rep.floor("ritz-pairs", 1)
    # ---- tolerance / iteration cap reach the factorisation from every entry point (wrappers and the algorithm object)
    from sa.autorule import passthrough_in
    passthrough_in(idx, rep, ("decompositions.lanczos", ), ("Lanczos", ), ("tol", "max_iters"), 8)
    rep.explanation = ("LOOP + DEP + sign provenance on lanczos / lanczos_fact / init_lanczos / lanczos_eigs: iteration cap min(max_iters, n) with a counter from 1 tested by <=, "
                       "T built with one array in both off-diagonal slots whose entries are norms, start vector normalised into column 1 without writing the caller's array, "
                       "Gram-Schmidt coefficients conjugate the basis they are later multiplied with, Ritz values ascending with paired vector columns, consistent trimming.")
    rep.assumptions += ["orthonormality, the three-term recurrence, early termination and A Q - Q T are numerical and not decided", "the annotation of Q is C05"]


def trim_count(idx, rep, lanczos, fact, init, size_text):
    loops = [l_ for l_ in lp.find_loops(idx, fact) if l_.kind != "for"]
    if not loops:
        rep.undecided("trimming", "lanczos:count", "loop of the factorisation not found")
        return
    cert = lp.cap_certificate(idx, loops[0])
    slot = cert.get("counter_slot")
    start = lp.init_slot(loops[0], slot, idx) if slot is not None else None
    if start is None or not isinstance(start, ast.Constant):
        irets = [r.value for r in df.returns(init.node) if isinstance(r.value, ast.Tuple)]
        if irets and slot is not None and -len(irets[0].elts) <= slot < len(irets[0].elts):
            e = df.resolve_value(init.node, irets[0].elts[slot])
            if isinstance(e, ast.Call) and e.args and isinstance(e.args[0], ast.Constant):
                start = e.args[0]
    start_v = start.value if isinstance(start, ast.Constant) and isinstance(start.value, int) else None
    # position of the counter in what the factorisation returns: the name bound to the counter slot of the loop's result
    pos = None
    for st in df.body_nodes(fact.node):
        if isinstance(st, ast.Assign) and isinstance(st.targets[0], ast.Tuple) and isinstance(st.value, ast.Call) and st.value is loops[0].call and slot is not None:
            elts = st.targets[0].elts
            cname = elts[slot].id if -len(elts) <= slot < len(elts) and isinstance(elts[slot], ast.Name) else None
            for r in df.returns(fact.node):
                if isinstance(r.value, ast.Tuple) and cname is not None:
                    names = [e.id if isinstance(e, ast.Name) else None for e in r.value.elts]
                    if cname in names:
                        pos = names.index(cname)
    counter_local = info_local = None
    for st in df.body_nodes(lanczos.node):
        if isinstance(st, ast.Assign) and isinstance(st.targets[0], ast.Tuple) and isinstance(st.value, ast.Call) and nospace(st.value.func) == fact.short:
            elts = st.targets[0].elts
            if pos is not None and pos < len(elts) and isinstance(elts[pos], ast.Name):
                counter_local = elts[pos].id
            if isinstance(elts[-1], ast.Name):
                info_local = elts[-1].id
    # N as `base + offset` over the counter or the runner's iteration count
    root = size_text.split("-")[0].split("+")[0]
    e = None
    for st in df.body_nodes(lanczos.node):
        if isinstance(st, ast.Assign):
            for t, v in (zip(st.targets[0].elts, st.value.elts) if isinstance(st.targets[0], ast.Tuple) and isinstance(st.value, ast.Tuple) and len(st.targets[0].elts) == len(st.value.elts)
                         else [(st.targets[0], st.value)]):
                if isinstance(t, ast.Name) and t.id == root:
                    e = v
    if e is None and counter_local is not None and root == counter_local:
        e = ast.Name(id=root, ctx=ast.Load())  # the cut is written on the factorisation's counter itself
    if e is None:
        rep.undecided("trimming", "lanczos:count", f"definition of the size `{root}` not found")
        return

    def affine(x):
        """(kind, offset): kind 'counter' / 'cond-evaluations' / None"""
        if isinstance(x, ast.BinOp) and isinstance(x.op, (ast.Add, ast.Sub)) and isinstance(x.right, ast.Constant) and isinstance(x.right.value, int):
            k, off = affine(x.left)
            return k, (off + (x.right.value if isinstance(x.op, ast.Add) else -x.right.value)) if k else 0
        if isinstance(x, ast.Name) and x.id == counter_local:
            return "counter", 0
        if isinstance(x, ast.Subscript) and isinstance(x.value, ast.Name) and x.value.id == info_local and isinstance(x.slice, ast.Constant) and x.slice.value == "iterations":
            return "cond-evaluations", 0
        if isinstance(x, ast.Call) and isinstance(x.func, ast.Name) and x.func.id == "int" and x.args:
            return affine(x.args[0])
        return None, 0

    kind_, off = affine(e)
    loc = [idx.loc(lanczos.module, lanczos.node)]
    if kind_ == "cond-evaluations":
        # read off the loop runners: `info['iterations'] += 1` sits in the function that is handed to while_loop as the CONDITION
        confirmed = [role == "cond" for _f, role, _n in lp.runner_iteration_sites(idx)]
        if not confirmed or not all(confirmed):
            rep.undecided("trimming", "lanczos:count", f"N = `{ast.unparse(e)}`: what the runner's 'iterations' counts could not be read off while_loop_winfo", locs=loc)
            return
    if kind_ == "counter" and start_v is not None:
        ok = off == -start_v
        rep.decide(ok, "trimming", "lanczos:count", f"N = `{ast.unparse(e)}`: the loop counter starts at {start_v}, so the steps run are counter - {start_v}" + ("" if ok else f"; N is off by {off + start_v}"),
                   detail="" if ok else "count", locs=loc)
    elif kind_ == "cond-evaluations":
        ok = off == -1
        rep.decide(ok, "trimming", "lanczos:count", f"N = `{ast.unparse(e)}`: the runner's 'iterations' counts evaluations of the loop condition, one more than the steps run" +
                   ("" if ok else f"; N is off by {off + 1}: one extra column of Q (a zero or un-normalised residual) and an extra zero row / column of T when the recurrence stops early"),
                   detail="" if ok else "count", locs=loc)
    else:
        rep.undecided("trimming", "lanczos:count", f"N = `{ast.unparse(e)}` is not an offset of the loop counter or of the runner's iteration count", locs=loc)
