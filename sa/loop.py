"""LOOP analysis: users of xnp.while_loop_winfo / while_loop / for_loop and the
bounded-loop certificate (cap conjunct in cond, counter slot incremented by the body)."""
import ast

from sa import dataflow as df


class LoopInfo:
    def __init__(self, owner, kind, call, cond, body, init, winfo_call=None):
        self.owner, self.kind, self.call = owner, kind, call
        self.cond, self.body, self.init = cond, body, init  # FuncInfo | ast.Lambda | None ; init: expr
        self.winfo_call = winfo_call


def _fn_of(idx, owner, expr):
    """resolve a cond/body argument to a nested FuncInfo, a lambda node, or None"""
    if isinstance(expr, ast.Lambda):
        return expr
    if isinstance(expr, ast.Name):
        f = owner
        while f is not None:
            if expr.id in f.nested:
                return f.nested[expr.id]
            f = f.parent
        r = idx.resolve_name(owner.module, expr.id, owner)
        if r is not None and r.kind == "funcs":
            return r.val[-1]
    return None


def find_loops(idx, owner):
    """loops started directly in the body of `owner` (nested defs are searched as part of owner)"""
    out = []
    asg = df.assignments(owner.node, into_nested=False)
    winfo_names = {}
    for name, vals in asg.items():
        for v, path, st in vals:
            if isinstance(v, ast.Call) and isinstance(v.func, ast.Attribute) and v.func.attr == "while_loop_winfo" and path == (0, ):
                winfo_names[name] = v
    for c in df.calls(owner.node, into_nested=False):
        f = c.func
        kind = None
        winfo = None
        if isinstance(f, ast.Name) and f.id in winfo_names:
            kind, winfo = "while_winfo", winfo_names[f.id]
        elif isinstance(f, ast.Attribute) and f.attr in ("while_loop", "while_loop_no_jit") and df.is_xnp_call(c):
            kind = "while"
        elif isinstance(f, ast.Attribute) and f.attr == "for_loop" and df.is_xnp_call(c):
            kind = "for"
        if kind is None:
            continue
        if kind == "for":
            b = df.bind_call(c, ["lower", "upper", "body_fun", "init_val"])
            out.append(LoopInfo(owner, kind, c, None, _fn_of(idx, owner, b.get("body_fun")), b.get("init_val")))
            out[-1].lower, out[-1].upper = b.get("lower"), b.get("upper")
        else:
            b = df.bind_call(c, ["cond_fun", "body_fun", "init_val"])
            out.append(LoopInfo(owner, kind, c, _fn_of(idx, owner, b.get("cond_fun")), _fn_of(idx, owner, b.get("body_fun")), b.get("init_val"), winfo))
    return out


def fn_node(f):
    return f if isinstance(f, ast.Lambda) else f.node


def fn_params(f):
    n = fn_node(f)
    return [a.arg for a in n.args.posonlyargs + n.args.args]


def return_exprs(f):
    n = fn_node(f)
    if isinstance(n, ast.Lambda):
        return [n.body]
    return [r.value for r in df.returns(n) if r.value is not None]


def state_slots(f, state_param):
    """names bound by unpacking the state parameter: name -> index (negative for slots after a star);
    also records direct subscripts state[i] as ('sub', i)"""
    n = fn_node(f)
    slots = {}
    if isinstance(n, ast.Lambda):
        return slots
    for st in df.body_nodes(n, into_nested=False):
        if isinstance(st, ast.Assign) and isinstance(st.value, ast.Name) and st.value.id == state_param:
            for t in st.targets:
                if isinstance(t, (ast.Tuple, ast.List)):
                    star = [i for i, e in enumerate(t.elts) if isinstance(e, ast.Starred)]
                    for i, e in enumerate(t.elts):
                        if isinstance(e, ast.Name):
                            if star and i > star[0]:
                                slots[e.id] = i - len(t.elts)
                            elif not star or i < star[0]:
                                slots[e.id] = i
        elif isinstance(st, ast.Assign) and isinstance(st.value, ast.Subscript) and isinstance(st.value.value, ast.Name) \
                and st.value.value.id == state_param and isinstance(st.value.slice, ast.Constant):
            for t in st.targets:
                if isinstance(t, ast.Name):
                    slots[t.id] = st.value.slice.value
    return slots


def conjuncts(e):
    """top-level conjuncts of a boolean expression written with & or `and`"""
    if isinstance(e, ast.BinOp) and isinstance(e.op, ast.BitAnd):
        return conjuncts(e.left) + conjuncts(e.right)
    if isinstance(e, ast.BoolOp) and isinstance(e.op, ast.And):
        out = []
        for v in e.values:
            out += conjuncts(v)
        return out
    return [e]


def disjuncts(e):
    if isinstance(e, ast.BinOp) and isinstance(e.op, ast.BitOr):
        return disjuncts(e.left) + disjuncts(e.right)
    if isinstance(e, ast.BoolOp) and isinstance(e.op, ast.Or):
        out = []
        for v in e.values:
            out += disjuncts(v)
        return out
    return [e]


def inline_expr(idx, f, expr, depth=0):
    """substitute single-assignment local names and one level of helper calls so that the
    returned condition is seen as one expression.  Returns (expr, env) where env maps names
    of an inlined callee to caller expressions."""
    n = fn_node(f)
    if isinstance(n, ast.Lambda) or depth > 4:
        return expr
    asg = df.assignments(n, into_nested=False)

    class Sub(ast.NodeTransformer):
        def visit_Name(self, node):
            vals = asg.get(node.id, [])
            if len(vals) == 1 and vals[0][1] is None and not isinstance(vals[0][0], ast.AugAssign) and depth < 4:
                v = vals[0][0]
                if not any(isinstance(x, ast.Name) and x.id == node.id for x in ast.walk(v)):
                    return inline_expr(idx, f, v, depth + 1)
            return node

    import copy
    return Sub().visit(copy.deepcopy(expr))


def expand_call(idx, f, expr):
    """if expr is a call of a plain helper function, return (callee FuncInfo, {param: arg expr})"""
    if isinstance(expr, ast.Call) and not isinstance(f, ast.Lambda):
        r = idx.resolve_expr(f.module, expr.func, f)
        if r is not None and r.kind == "funcs" and getattr(r.val[-1], "rule", None) is None:
            callee = r.val[-1]
            return callee, df.bind_call(expr, callee.params)
    return None, None


def cap_certificate(idx, loop, cap_names=("max_iters", "max_iter")):
    """-> dict(ok=True/False/None, why=..., counter_slot=..., cap=..., strict=bool, first_iter_guard=bool)"""
    cond = loop.cond
    if cond is None:
        return {"ok": None, "why": "cond function not resolved"}
    if getattr(loop, "winfo_call", None) is not None:
        # the cap the monitored runner is told about (third argument of while_loop_winfo) is the cap whatever it is called
        b_ = df.bind_call(loop.winfo_call, ["errorfn", "tol", "max_iters"])
        if isinstance(b_.get("max_iters"), ast.Name):
            cap_names = tuple(cap_names) + (b_["max_iters"].id, )
    params = fn_params(cond)
    if not params:
        return {"ok": None, "why": "cond has no parameter"}
    state = params[0]
    rets = return_exprs(cond)
    if len(rets) != 1:
        return {"ok": None, "why": f"cond has {len(rets)} return expressions"}
    e = inline_expr(idx, cond, rets[0]) if not isinstance(cond, ast.Lambda) else rets[0]
    ctx_f, slots, renames = cond, state_slots(cond, state), {}
    callee, bound = expand_call(idx, cond, e)
    if callee is not None:
        # cond delegates to a helper: continue inside it, remembering how its parameters are bound
        sp = [p for p, a in bound.items() if isinstance(a, ast.Name) and a.id == state]
        if not sp:
            return {"ok": None, "why": "helper cond does not receive the state"}
        rets2 = return_exprs(callee)
        if len(rets2) != 1:
            return {"ok": None, "why": "helper cond has several returns"}
        e = inline_expr(idx, callee, rets2[0])
        ctx_f, slots = callee, state_slots(callee, sp[0])
        state = sp[0]
        renames = {p: a for p, a in bound.items()}
    guard = False
    ds = disjuncts(e)
    if len(ds) == 2:
        # (counter == 0) | (...): first-iteration guard
        for i, d in enumerate(ds):
            if isinstance(d, ast.Compare) and len(d.ops) == 1 and isinstance(d.ops[0], ast.Eq) and isinstance(d.comparators[0], ast.Constant) \
                    and d.comparators[0].value == 0:
                guard = True
                guard_lhs = d.left
                e = ds[1 - i]
                break
        else:
            return {"ok": False, "why": f"returned condition is a disjunction `{ast.unparse(e)}`: the cap is not a conjunct of every way to continue"}
    elif len(ds) > 2:
        return {"ok": False, "why": f"returned condition is a disjunction `{ast.unparse(e)}`"}
    found = None
    for c in conjuncts(e):
        if isinstance(c, ast.Compare) and len(c.ops) == 1 and isinstance(c.ops[0], (ast.Lt, ast.LtE)):
            lhs, rhs = c.left, c.comparators[0]
            slot = _slot_of(lhs, state, slots)
            capname = _cap_name(rhs, renames, cap_names)
            if slot is not None and capname is not None:
                found = {"counter_slot": slot, "cap": capname, "strict": isinstance(c.ops[0], ast.Lt), "expr": ast.unparse(c)}
                break
    if found is None:
        return {"ok": False, "why": f"no conjunct `<counter slot> < <{'/'.join(cap_names)}>` in `{ast.unparse(e)}`"}
    found.update(ok=True, first_iter_guard=guard, why="cap conjunct present")
    return found


def _slot_of(expr, state, slots):
    if isinstance(expr, ast.Name) and expr.id in slots:
        return slots[expr.id]
    if isinstance(expr, ast.Subscript) and isinstance(expr.value, ast.Name) and expr.value.id == state and isinstance(expr.slice, ast.Constant):
        return expr.slice.value
    return None


def _cap_name(expr, renames, cap_names):
    if isinstance(expr, ast.Name):
        if expr.id in renames and isinstance(renames[expr.id], ast.Name):
            if renames[expr.id].id in cap_names:
                return renames[expr.id].id
        if expr.id in cap_names:
            return expr.id
    return None


def counter_step(idx, loop, slot):
    """the body must return, in slot `slot`, the unpacked counter plus one -> (ok, why)"""
    body = loop.body
    if body is None:
        return None, "body not resolved"
    params = fn_params(body)
    state = params[-1] if loop.kind == "for" else params[0]
    slots = state_slots(body, state)
    rets = return_exprs(body)
    if not rets:
        return None, "body has no return"
    # the body may delegate the step to a helper: state = step(state, ...); return state
    if len(rets) == 1 and not isinstance(body, ast.Lambda):
        e = inline_expr(idx, body, rets[0])
        if isinstance(e, ast.Name):
            vals = [v for v, p, st in df.assignments(fn_node(body), into_nested=False).get(e.id, []) if p is None and isinstance(v, ast.Call)]
            if len(vals) == 1:
                e = vals[0]
        callee, bound = expand_call(idx, body, e)
        if callee is not None:
            sp = [p for p, a in bound.items() if isinstance(a, ast.Name) and a.id == state]
            if sp:
                body, state = callee, sp[0]
                slots = state_slots(body, state)
                rets = return_exprs(body)
    for r in rets:
        r = r if isinstance(body, ast.Lambda) else r
        if not isinstance(r, ast.Tuple):
            return None, f"body returns `{ast.unparse(r)[:50]}` (not a tuple)"
        try:
            elt = r.elts[slot]
        except IndexError:
            return None, "slot out of range"
        ok = False
        if isinstance(elt, ast.BinOp) and isinstance(elt.op, ast.Add):
            for a, b in ((elt.left, elt.right), (elt.right, elt.left)):
                if isinstance(b, ast.Constant) and b.value == 1 and _slot_of(a, state, slots) == (slot if slot >= 0 else slot):
                    ok = True
                # negative/positive index equivalence
                if isinstance(b, ast.Constant) and b.value == 1 and _slot_of(a, state, slots) is not None:
                    s = _slot_of(a, state, slots)
                    if s == slot or (s - len(r.elts) == slot) or (slot - len(r.elts) == s):
                        ok = True
        if not ok:
            return False, f"slot {slot} of the returned state is `{ast.unparse(elt)}`, not <counter> + 1"
    return True, "counter incremented by one per body execution"


def init_slot(loop, slot, idx=None):
    """expression of the initial value of a state slot, when the init value is a literal tuple,
    a name assigned from one in the owner, or the result of a helper that returns one"""
    init = loop.init
    owner = loop.owner
    for _ in range(3):
        if isinstance(init, ast.Name):
            vals = df.assignments(owner.node, into_nested=False).get(init.id, [])
            plain = [v for v, p, st in vals if p is None]
            tuples = [v for v in plain if isinstance(v, ast.Tuple)]
            if len(tuples) == 1:
                init = tuples[0]
            elif len(plain) == 1 and isinstance(plain[0], ast.Call) and idx is not None:
                init = plain[0]
            elif owner.parent is None and init.id in fn_params(owner) and idx is not None:
                # init value is a parameter: look at the (single) caller
                break
            else:
                break
        if isinstance(init, ast.Call) and idx is not None:
            r = idx.resolve_expr(owner.module, init.func, owner)
            if r is not None and r.kind == "funcs" and getattr(r.val[-1], "rule", None) is None:
                callee = r.val[-1]
                rets = [x.value for x in df.returns(callee.node) if x.value is not None]
                if len(rets) == 1:
                    init, owner = rets[0], callee
                    continue
        break
    if isinstance(init, ast.Tuple):
        try:
            e = init.elts[slot]
        except IndexError:
            return None
        if isinstance(e, ast.Name):
            vals = df.assignments(owner.node, into_nested=False).get(e.id, [])
            plain = [v for v, p, st in vals if p is None]
            if len(plain) == 1:
                return plain[0]
        return e
    return None



def runner_iteration_sites(idx, module_suffix="torch_tqdm"):
    """for every `while_loop_winfo` runner: where `info['iterations']` is incremented -- in the callable handed to the inner while_loop
    as its condition ('cond': one count per condition evaluation = steps + 1) or as its body ('body': one per step).  The callable may
    be a nested function or an instance of a (private) class with __call__.  -> [(runner FuncInfo, 'cond' | 'body' | None, node)]"""
    out = []
    for f in idx.funcs_named("while_loop_winfo"):
        if module_suffix and not f.module.name.endswith(module_suffix):
            continue
        holders = [f] + list(f.nested.values())
        wl, owner = None, None
        for g in holders:
            for c in df.calls(g.node, into_nested=False):
                if isinstance(c.func, ast.Name) and c.func.id == "while_loop":
                    wl, owner = c, g
        if wl is None:
            out.append((f, None, None))
            continue
        b = df.bind_call(wl, ["cond_fun", "body_fun", "init_val"])

        def callable_of(e):
            if isinstance(e, ast.Name):
                g = owner
                while g is not None:
                    if e.id in g.nested:
                        return g.nested[e.id]
                    g = g.parent
                e = df.resolve_value(owner.node, e)
            if isinstance(e, ast.Call):
                r = idx.resolve_expr(owner.module, e.func, owner)
                if r is not None and r.kind == "class" and "__call__" in r.val.methods:
                    return r.val.methods["__call__"]
            return None
        role = node = None
        for which in ("cond_fun", "body_fun"):
            g = callable_of(b.get(which))
            if g is None:
                continue
            for n in df.body_nodes(g.node):
                if isinstance(n, ast.AugAssign) and isinstance(n.op, ast.Add) and isinstance(n.target, ast.Subscript) and isinstance(n.target.slice, ast.Constant) \
                        and n.target.slice.value == "iterations":
                    role, node = ("cond" if which == "cond_fun" else "body"), n
        out.append((f, role, node))
    return out


def runner_transparency(idx, module_suffix="torch_tqdm"):
    """The monitored loop runner only observes: the condition it hands to the inner while_loop must return exactly what the caller's
    condition returns on the same state, on every path (an extra `return False` / `return True` -- say when the tracked error is below the
    tolerance -- changes when every Krylov routine stops).  -> [(runner FuncInfo, ok | None, text, node)]"""
    out = []
    for f in idx.funcs_named("while_loop_winfo"):
        if module_suffix and not f.module.name.endswith(module_suffix):
            continue
        holders = [f] + list(f.nested.values())
        wl, owner = None, None
        for g in holders:
            for c in df.calls(g.node, into_nested=False):
                if isinstance(c.func, ast.Name) and c.func.id == "while_loop":
                    wl, owner = c, g
        if wl is None:
            out.append((f, None, "inner while_loop call not found", f.node))
            continue
        b = df.bind_call(wl, ["cond_fun", "body_fun", "init_val"])
        user_cond = owner.params[0] if owner.params else None  # new_while(cond_fun, body_fun, init_val)
        e = b.get("cond_fun")
        g = None
        delegate_names = {user_cond}
        if isinstance(e, ast.Name):
            h = owner
            while h is not None and g is None:
                g = h.nested.get(e.id)
                h = h.parent
            if g is None:
                e = df.resolve_value(owner.node, e)
        if g is None and isinstance(e, ast.Call):
            r = idx.resolve_expr(owner.module, e.func, owner)
            if r is not None and r.kind == "class" and "__call__" in r.val.methods:
                g = r.val.methods["__call__"]
                # which attribute of the instance holds the caller's condition: the constructor parameter that receives it
                init = r.val.methods.get("__init__")
                if init is not None:
                    bb = df.bind_call(e, init.params, skip_first=True)
                    for p, a in bb.items():
                        if isinstance(a, ast.Name) and a.id == user_cond:
                            for st in df.body_nodes(init.node):
                                if isinstance(st, ast.Assign) and isinstance(st.targets[0], ast.Attribute) and isinstance(st.value, ast.Name) and st.value.id == p:
                                    delegate_names.add("self." + st.targets[0].attr)
        if isinstance(e, ast.Name) and e.id == user_cond and g is None:
            out.append((f, True, "the caller's condition is handed to the inner loop unchanged", wl))
            continue
        if g is None:
            out.append((f, None, "the condition handed to the inner loop is not a function or callable object of the runner", wl))
            continue
        state = g.params[-1] if g.params else None
        rets = [r for r in df.returns(g.node) if r.value is not None]
        bad = [r for r in rets if not (isinstance(r.value, ast.Call) and ast.unparse(r.value.func) in delegate_names and len(r.value.args) == 1 and ast.unparse(r.value.args[0]) == state)]
        if not rets:
            out.append((f, None, "the condition wrapper returns nothing", g.node))
        elif bad:
            out.append((f, False, f"the condition wrapper also returns `{ast.unparse(bad[0].value)[:40]}`: the loop stops (or goes on) where the caller's condition says otherwise", getattr(bad[0], "_origin", bad[0])))
        else:
            out.append((f, True, f"every exit of the condition wrapper returns the caller's condition on the state ({len(rets)} exit(s))", g.node))
    return out


def _reduction(c):
    """('any'|'all', argument) for xnp.any(e) / xnp.all(e) / e.any() / e.all() / any(e) / all(e)"""
    if not isinstance(c, ast.Call):
        return None
    f = c.func
    name = f.attr if isinstance(f, ast.Attribute) else (f.id if isinstance(f, ast.Name) else None)
    if name not in ("any", "all"):
        return None
    if c.args:
        return name, c.args[0]
    if isinstance(f, ast.Attribute):
        return name, f.value
    return None


def batch_quantifier(idx, loop, tol_names=None):
    """How does the continue-condition of a while loop quantify over the columns of a batched state?  The loop must continue
    while ANY column is still active (its residual / new norm exceeds the threshold) and stop only when every column is done.
    -> (ok, text): ok None when the condition has no reduction over a per-column comparison that could be read.
    The threshold side of a comparison is the side that depends on the tolerance (second argument of while_loop_winfo, or `tol_names`)."""
    cond = loop.cond
    if cond is None:
        return None, "no condition function"
    test_fn = cond
    rets = return_exprs(cond)
    if not rets:
        return None, "condition returns nothing"
    e = inline_expr(idx, cond, rets[0])
    callee, _ = expand_call(idx, cond, e) if not isinstance(cond, ast.Lambda) else (None, None)
    if callee is not None:
        test_fn = callee
        rets = return_exprs(callee)
        e = inline_expr(idx, callee, rets[0]) if rets else None
        if e is None:
            return None, "condition helper returns nothing"
    tols = set(tol_names or ())
    if loop.winfo_call is not None:
        b = df.bind_call(loop.winfo_call, ["errorfn", "tol", "max_iters"])
        if b.get("tol") is not None:
            tols |= {n.id for n in ast.walk(b["tol"]) if isinstance(n, ast.Name)}
    tols |= {p for p in fn_params(test_fn) if p in ("tol", "rtol", "atol")} if not tols else set()

    def names(x):
        return {n.id for n in ast.walk(x) if isinstance(n, ast.Name)}

    def pol(x):
        """'active' (the column still needs work) / 'done' / None for a per-column boolean expression"""
        if isinstance(x, ast.UnaryOp) and isinstance(x.op, (ast.Invert, ast.Not)):
            p = pol(x.operand)
            return {"active": "done", "done": "active"}.get(p)
        if isinstance(x, ast.Compare) and len(x.ops) == 1:
            l, r = x.left, x.comparators[0]
            lt, rt = bool(names(l) & tols), bool(names(r) & tols)
            if lt == rt:
                return None
            big = isinstance(x.ops[0], (ast.Gt, ast.GtE))
            small = isinstance(x.ops[0], (ast.Lt, ast.LtE))
            if not (big or small):
                return None
            # quantity > threshold: active; quantity < threshold: done (mirrored when the threshold is written on the left)
            if rt:
                return "active" if big else "done"
            return "done" if big else "active"
        parts = disjuncts(x)
        if len(parts) > 1:
            ps = [pol(p) for p in parts]
            known = {p for p in ps if p}
            return next(iter(known)) if len(known) == 1 else None  # `| (i <= 1)` first-iteration guards carry no polarity
        parts = conjuncts(x)
        if len(parts) > 1:
            ps = [pol(p) for p in parts]
            known = {p for p in ps if p}
            return next(iter(known)) if len(known) == 1 else None
        return None

    def sem(x):
        """(quantifier, polarity) of a scalar boolean built from a reduction"""
        if isinstance(x, ast.UnaryOp) and isinstance(x.op, (ast.Invert, ast.Not)):
            s = sem(x.operand)
            if s is None or s[1] is None:
                return s
            return ({"any": "all", "all": "any"}[s[0]], {"active": "done", "done": "active"}[s[1]])
        r = _reduction(x)
        if r is not None:
            arg = inline_expr(idx, test_fn, r[1]) if not isinstance(test_fn, ast.Lambda) else r[1]
            return (r[0], pol(arg))
        return None

    found = [(c, sem(c)) for c in conjuncts(e)]
    found = [(c, s) for c, s in found if s is not None]
    if not found:
        return None, "no any/all reduction among the conjuncts of the continue-condition"
    c, s = found[0]
    txt = ast.unparse(c)[:90]
    if s[1] is None:
        return None, f"`{txt}`: the reduced comparison does not compare a state quantity with the tolerance"
    if s == ("any", "active"):
        return True, f"continues while `{txt}`: any column still above its threshold keeps the shared iteration going"
    return False, (f"continues while `{txt}`, i.e. {'only while EVERY column is still above' if s == ('all', 'active') else 'while some column is already below'} the threshold: "
                   "the shared iteration stops as soon as one column of a batch has converged or broken down, truncating the factorisation of the others")


def falsy_numeric_defaults(fi):
    """`p or <number>` on a parameter p: Python's `or` replaces every falsy value, so an explicit 0 (zero iterations, zero tolerance, offset
    0) silently becomes the default.  -> list of (node, parameter, constant).  (`p if p is not None else c` is the form that keeps 0.)"""
    out = []
    params = set(fi.params) | {a.arg for a in fi.node.args.kwonlyargs}
    for n in df.body_nodes(fi.node):
        if isinstance(n, ast.BoolOp) and isinstance(n.op, ast.Or) and len(n.values) == 2 and isinstance(n.values[0], ast.Name) and n.values[0].id in params:
            c = n.values[1]
            if isinstance(c, ast.Constant) and isinstance(c.value, (int, float)) and not isinstance(c.value, bool):
                # the parameter as it was passed: not re-bound before this point (or re-bound by this very statement)
                out.append((n, n.values[0].id, c.value))
    return out
