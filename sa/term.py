"""TERM (DESIGN.md 2.2): abstract interpretation of straight-line rule bodies into a small
free algebra of matrix terms, and a normaliser with the identities

  T(T x)=x  C(C x)=x  inv(inv x)=x  T(xy)=T(y)T(x)  C(xy)=C(x)C(y)  inv(xy)=inv(y)inv(x)
  T/C/inv distribute over kron and bdiag factor-wise (no reversal), over families likewise,
  T and C distribute over sums, scalars are pulled to the front,
  hypotheses:  herm(x): T(x)=C(x)   real(x): C(x)=x   unitary(x): inv(x)=C(T(x))   sym(x): T(x)=x

There is no path enumeration and no solver: anything outside the grammar becomes ('opaque', text)
and the obligation that meets it is UNDECIDED.
"""
import ast

from sa import dataflow as df
from sa.absint import AbsInt

I = ("I", )


def sym(n):
    return ("sym", n)


def T(x):
    return ("T", x)


def C(x):
    return ("C", x)


def H(x):
    return ("C", ("T", x))


def INV(x):
    return ("inv", x)


def MUL(*xs):
    return ("mul", tuple(xs))


def ADD(*xs):
    return ("add", tuple(xs))


def SCAL(s, x):
    return ("scal", s, x)


def FAM(kind, order, body, over="Ms"):
    return ("fam", kind, order, body, over)


VAR = ("var", )


def has_opaque(t):
    if not isinstance(t, tuple):
        return False
    if t and t[0] == "opaque":
        return True
    return any(has_opaque(x) for x in t[1:] if isinstance(x, tuple)) or any(has_opaque(y) for x in t[1:] if isinstance(x, tuple) for y in x if isinstance(y, tuple))


def opaque_text(t):
    if not isinstance(t, tuple):
        return None
    if t and t[0] == "opaque":
        return t[1]
    for x in t[1:]:
        if isinstance(x, tuple):
            r = opaque_text(x)
            if r:
                return r
            for y in x:
                if isinstance(y, tuple):
                    r = opaque_text(y)
                    if r:
                        return r
    return None


def show(t):
    if not isinstance(t, tuple):
        return str(t)
    k = t[0]
    if k == "sym":
        return t[1]
    if k == "ssym":
        return t[1]
    if k == "num":
        return str(t[1])
    if k == "I":
        return "I"
    if k == "var":
        return "M"
    if k in ("T", "C", "inv"):
        return f"{k}({show(t[1])})"
    if k == "mul":
        return "·".join(show(x) for x in t[1]) if t[1] else "I"
    if k == "add":
        return "(" + " + ".join(show(x) for x in t[1]) + ")"
    if k == "scal":
        return f"[{show(t[1])}]{show(t[2])}"
    if k in ("kron", "ksum"):
        return ("⊗" if k == "kron" else "⊕").join(show(x) for x in t[1])
    if k == "bdiag":
        return "bdiag(" + ", ".join(show(x) for x in t[1]) + ")"
    if k == "fam":
        sign = "" if t[2] > 0 else "rev "
        return {"mul": "Π", "add": "Σ", "kron": "⊗", "ksum": "⊕", "bdiag": "bdiag"}[t[1]] + f"[{sign}{show(t[3])} for M in {t[4]}]"
    if k == "fn":
        return f"{t[1]}({show(t[2])})"
    if k == "famrange":
        return {"mul": "Π", "add": "Σ", "kron": "⊗", "ksum": "⊕", "bdiag": "bdiag"}.get(t[1], t[1]) + f"[{show(t[2])} for M in {t[3]}[{t[4] or ''}:{'' if t[5] is None else t[5]}]]"
    if k == "smul":
        return "*".join(show(x) for x in t[1])
    if k == "sadd":
        return "(" + "+".join(show(x) for x in t[1]) + ")"
    if k == "sc":
        return show(t[1])
    if k == "sinv":
        return f"1/({show(t[1])})"
    if k == "sconj":
        return f"conj({show(t[1])})"
    if k == "opaque":
        return f"?{t[1]}?"
    if k == "chol":
        return f"chol({show(t[1])})"
    if k == "plu":
        return f"plu({show(t[1])})[{t[2]}]"
    if k in ("diag", "perm", "argsort", "recip", "pinv"):
        return f"{k}({show(t[1])})"
    if k == "mismatch":
        return f"!{t[1]}!"
    if k in ("eigvals", "eigvecs"):
        return f"{k}_{t[1]}({show(t[2])})"
    if k == "fapply":
        return f"{t[1]}({show(t[2])})"
    if k == "sfn":
        return f"{t[1]}({show(t[2])})"
    if k == "lambdaobj":
        return "<lambda>"
    if k == "zero":
        return "0"
    if k == "where":
        return f"where(mask, {show(t[1])}, {show(t[2])})"
    if k == "join":
        return " | ".join(show(x) for x in t[1])
    if k == "tuple":
        return "(" + ", ".join(show(x) for x in t[1]) + ")"
    return str(t)


# ------------------------------------------------------------------ scalars
def snorm(s, hyp):
    k = s[0]
    if k in ("num", "ssym"):
        return s
    if k == "sconj":
        x = snorm(s[1], hyp)
        if x[0] == "num" and not isinstance(x[1], complex):
            return x
        if x[0] == "sconj":
            return x[1]
        if ("sreal", x) in hyp:
            return x
        if x[0] == "smul":
            return snorm(("smul", tuple(("sconj", y) for y in x[1])), hyp)
        if x[0] == "sinv":
            return ("sinv", snorm(("sconj", x[1]), hyp))
        return ("sconj", x)
    if k == "sinv":
        x = snorm(s[1], hyp)
        if x[0] == "sinv":
            return x[1]
        if x[0] == "num" and x[1] in (1, 1.0):
            return ("num", 1)
        if x[0] == "num" and x[1] != 0:
            v = 1 / x[1]
            return ("num", int(v) if v == int(v) else v)
        if x[0] == "smul":
            return snorm(("smul", tuple(("sinv", y) for y in x[1])), hyp)
        return ("sinv", x)
    if k == "sadd":
        xs = sorted((snorm(x, hyp) for x in s[1]), key=repr)
        return ("sadd", tuple(xs))
    if k == "smul":
        out = []
        for x in s[1]:
            x = snorm(x, hyp)
            if x[0] == "smul":
                out += list(x[1])
            elif x == ("num", 1) or x == ("num", 1.0):
                continue
            else:
                out.append(x)
        # cancel x * 1/x
        res = []
        for x in out:
            inv = x[1] if x[0] == "sinv" else ("sinv", x)
            if inv in res:
                res.remove(inv)
            else:
                res.append(x)
        # fold numbers
        nums = [x[1] for x in res if x[0] == "num"]
        rest = sorted((x for x in res if x[0] != "num"), key=repr)
        val = 1
        for n in nums:
            val = val * n
        if isinstance(val, float) and val == int(val):
            val = int(val)
        if nums and val != 1:
            rest = [("num", val)] + rest
        if not rest:
            return ("num", 1)
        if len(rest) == 1:
            return rest[0]
        return ("smul", tuple(rest))
    return s


# ------------------------------------------------------------------ matrix normaliser
def norm(t, hyp=frozenset()):
    k = t[0]
    if k in ("sym", "I", "var", "opaque", "mismatch", "chol", "plu", "argsort", "recip", "iter", "factor", "elt", "eigvals", "eigvecs", "fapply", "zero", "lu", "svdpart"):
        return t
    if k == "perm":
        return ("perm", norm_vec(t[1]))
    if k == "join":
        return ("join", frozenset(norm(x, hyp) for x in t[1]))
    if k == "tuple":
        return ("tuple", tuple(norm(x, hyp) for x in t[1]))
    if k in ("mul", "add") and any(isinstance(x, tuple) and x and x[0] == "join" for x in t[1]):
        # distribute alternatives: every combination must be compared on its own
        import itertools as _it
        choices = [list(x[1]) if (isinstance(x, tuple) and x and x[0] == "join") else [x] for x in t[1]]
        return ("join", frozenset(norm((k, tuple(c)), hyp) for c in _it.product(*choices)))
    if k == "mul":
        out = []
        scal = []
        for x in t[1]:
            x = norm(x, hyp)
            if x[0] == "scal":
                scal.append(x[1])
                x = x[2]
            if x[0] == "mul":
                out += list(x[1])
            elif x == I:
                continue
            else:
                out.append(x)
        # cancel adjacent x · inv(x)
        changed = True
        while changed:
            changed = False
            for i in range(len(out) - 1):
                a, b = out[i], out[i + 1]
                if norm(INV(a), hyp) == b or norm(INV(b), hyp) == a:
                    del out[i:i + 2]
                    changed = True
                    break
        body = I if not out else (out[0] if len(out) == 1 else ("mul", tuple(out)))
        if scal:
            s = snorm(("smul", tuple(scal)), hyp)
            if s != ("num", 1):
                return ("scal", s, body)
        return body
    if k == "add":
        out = []
        for x in t[1]:
            x = norm(x, hyp)
            if x[0] == "add":
                out += list(x[1])
            else:
                out.append(x)
        # combine like terms: x + x -> 2x, s x + t x stays (no scalar sums of coefficients needed here)
        coeff = {}
        order = []
        for x in out:
            c, b = (x[1], x[2]) if x[0] == "scal" and x[1][0] == "num" else (("num", 1), x)
            if b not in coeff:
                coeff[b] = 0
                order.append(b)
            coeff[b] += c[1]
        out = []
        for b in order:
            c = coeff[b]
            if c == 0:
                continue
            out.append(b if c == 1 else ("scal", ("num", c), b))
        if not out:
            return ("zero", )
        out = sorted(out, key=repr)
        return out[0] if len(out) == 1 else ("add", tuple(out))
    if k == "scal":
        s = snorm(t[1], hyp)
        x = norm(t[2], hyp)
        if x[0] == "join":
            return ("join", frozenset(norm(("scal", s, y), hyp) for y in x[1]))
        if x[0] == "scal":
            s = snorm(("smul", (s, x[1])), hyp)
            x = x[2]
        if s == ("num", 1):
            return x
        if x[0] == "add" and s[0] == "num":
            return norm(("add", tuple(("scal", s, y) for y in x[1])), hyp)
        return ("scal", s, x)
    if k in ("kron", "ksum"):
        out = []
        for x in t[1]:
            x = norm(x, hyp)
            if x[0] == k:
                out += list(x[1])
            else:
                out.append(x)
        out = _merge_ranges(k, out)
        if len(out) == 1 and out[0][0] == "fam":
            return norm(out[0], hyp)
        if k == "kron":
            # bilinearity: (c X) (x) Y = c (X (x) Y); identities of any sizes: I (x) I = I
            cs, xs = [], []
            for x in out:
                if x[0] == "scal":
                    cs.append(x[1])
                    x = x[2]
                if x == I and xs and xs[-1] == I:
                    continue
                xs.append(x)
            if cs or len(xs) != len(out):
                inner = xs[0] if len(xs) == 1 else ("kron", tuple(xs))
                if not cs:
                    return inner
                return norm(("scal", cs[0] if len(cs) == 1 else ("smul", tuple(cs)), inner), hyp)
        return (k, tuple(out))
    if k == "famrange":
        return t
    if k == "bdiag":
        return ("bdiag", tuple(norm(x, hyp) for x in t[1])) + t[2:]
    if k == "fam":
        body = norm(t[3], hyp)
        if t[1] == "add" and body[0] == "mul":
            xs = list(body[1])
            if not contains_var(xs[-1]) and all(contains_var(x) for x in xs[:-1]):
                inner = xs[0] if len(xs) == 2 else ("mul", tuple(xs[:-1]))
                return norm(("mul", (("fam", "add", 1, inner) + t[4:], xs[-1])), hyp)
            if not contains_var(xs[0]) and all(contains_var(x) for x in xs[1:]):
                inner = xs[1] if len(xs) == 2 else ("mul", tuple(xs[1:]))
                return norm(("mul", (xs[0], ("fam", "add", 1, inner) + t[4:])), hyp)
        order = 1 if t[1] in ("add", ) else t[2]
        return ("fam", t[1], order, body) + t[4:]
    if k == "fn":
        x = norm(t[2], hyp)
        f = t[1]
        if x[0] == "diag":
            return ("diag", ("fapply", f, x[1]))  # f(diag(d)) = diag(f(d))
        if x == I:
            return ("scal", ("sfn", f, ("num", 1)), I)  # f(I) = f(1) I
        if x[0] == "scal" and x[2] == I:
            return ("scal", ("sfn", f, x[1]), I)  # f(c I) = f(c) I
        if x[0] in ("T", "C"):
            return norm((x[0], ("fn", f, x[1])), hyp)  # f(A^T) = f(A)^T; f(conj A) = conj f(A) for the real functions used here
        if x[0] == "fam" and x[1] == "bdiag":
            return ("fam", "bdiag", x[2], norm(("fn", f, x[3]), hyp)) + x[4:]  # f acts block-wise
        if x[0] == "fam" and x[1] == "ksum" and f.endswith("exp"):
            return ("fam", "kron", x[2], norm(("fn", f, x[3]), hyp)) + x[4:]  # exp(A (+) B) = exp(A) (x) exp(B)
        if x[0] == "fam" and x[1] == "kron" and f.startswith("pow:"):
            return ("fam", "kron", x[2], norm(("fn", f, x[3]), hyp)) + x[4:]  # (A (x) B)^a = A^a (x) B^a
        return ("fn", f, x)
    if k == "famsplice":
        return norm(("fam", ) + t[1:], hyp)
    if k == "diag":
        v = t[1]
        if isinstance(v, tuple) and v and v[0] == "reshape" and v[2] == ("-1", ) and isinstance(v[1], tuple) and v[1][0] == "outer":
            # Diagonal((a[:, None] * b[None, :]).reshape(-1)) = diag(a) (x) diag(b)   (row-major flattening)
            return ("kron", (("diag", v[1][1]), ("diag", v[1][2])))
        return t
    if k == "tri":
        return norm(t[1], hyp)
    if k == "pinv":
        # Moore-Penrose inverse: distributes over Kronecker products and diagonal blocks, commutes with transposition and conjugation,
        # and is the inverse entrywise on the payload kinds; it does NOT distribute over products or sums
        x = norm(t[1], hyp)
        kx = x[0]
        if kx == "join":
            return ("join", frozenset(norm(("pinv", y), hyp) for y in x[1]))
        if kx == "I":
            return I
        if kx == "scal" and x[2] == I:
            return norm(("scal", ("sinv", x[1]), I), hyp)
        if kx in ("diag", "perm"):
            return norm(("inv", x), hyp)
        if kx == "kron":
            return norm(("kron", tuple(("pinv", y) for y in x[1])), hyp)
        if kx == "bdiag":
            return norm(("bdiag", tuple(("pinv", y) for y in x[1])) + x[2:], hyp)
        if kx == "fam" and x[1] in ("kron", "bdiag"):
            return norm(("fam", x[1], x[2], ("pinv", x[3])) + x[4:], hyp)
        if kx in ("T", "C"):
            return norm((kx, ("pinv", x[1])), hyp)
        if kx == "inv":
            return x[1]
        if kx == "pinv":
            return x[1]
        return ("pinv", x)
    if k in ("T", "C", "inv"):
        x = norm(t[1], hyp)
        kx = x[0]
        if kx == "join":
            return ("join", frozenset(norm((k, y), hyp) for y in x[1]))
        if kx == "mul":
            xs = x[1]
            if k == "C":
                return norm(("mul", tuple(("C", y) for y in xs)), hyp)
            return norm(("mul", tuple((k, y) for y in reversed(xs))), hyp)
        if kx == "add" and k in ("T", "C"):
            return norm(("add", tuple((k, y) for y in x[1])), hyp)
        if kx == "scal":
            s = x[1]
            s2 = s if k == "T" else (("sconj", s) if k == "C" else ("sinv", s))
            return norm(("scal", s2, (k, x[2])), hyp)
        if kx in ("kron", ):
            return norm((kx, tuple((k, y) for y in x[1])), hyp)
        if kx == "ksum" and k in ("T", "C"):
            return norm((kx, tuple((k, y) for y in x[1])), hyp)
        if kx == "bdiag":
            return norm(("bdiag", tuple((k, y) for y in x[1])) + x[2:], hyp)
        if kx == "fam":
            fk, order, body, over = x[1], x[2], x[3], x[4]
            if fk == "mul":
                return norm(("fam", fk, order if k == "C" else -order, (k, body)) + x[4:], hyp)
            if fk in ("kron", "bdiag"):
                return norm(("fam", fk, order, (k, body)) + x[4:], hyp)
            if fk in ("add", "ksum") and k in ("T", "C"):
                return norm(("fam", fk, order, (k, body)) + x[4:], hyp)
            return (k, x)
        if kx == "I":
            return I
        if kx == "perm" and k in ("inv", "T"):
            return ("perm", norm_vec(("argsort", x[1])))  # P^-1 = P^T = permutation by argsort
        if kx == "perm" and k == "C":
            return x
        if kx == "diag" and k == "inv":
            return ("diag", norm_vec(("recip", x[1])))
        if kx == "diag" and k == "T":
            return x
        if kx == "diag" and k == "C":
            return ("diag", norm(("C", x[1]), hyp))  # conj(diag(d)) = diag(conj(d))
        if kx == "kron" and k == "inv":
            return norm(("kron", tuple(("inv", y) for y in x[1])), hyp)
        if kx == "fn" and k in ("T", "C") and x[1].startswith("real:"):
            # a function with a real power series commutes with transposition / conjugation
            return norm(("fn", x[1], (k, x[2])), hyp)
        # wrapper stack on an atom: commute into canonical order and cancel involutions
        stack = [k]
        y = x
        while y[0] in ("T", "C", "inv"):
            stack.append(y[0])
            y = y[1]
        cnt = {s: stack.count(s) % 2 for s in ("T", "C", "inv")}
        if ("herm", y) in hyp and cnt["T"]:
            cnt["T"] = 0
            cnt["C"] ^= 1
        if ("symm", y) in hyp and cnt["T"]:
            cnt["T"] = 0
        if ("real", y) in hyp:
            cnt["C"] = 0
        if ("unitary", y) in hyp and cnt["inv"]:
            cnt["inv"] = 0
            cnt["T"] ^= 1
            cnt["C"] ^= 1
            if ("herm", y) in hyp and cnt["T"]:
                cnt["T"] = 0
                cnt["C"] ^= 1
        if y[0] in ("diag", ) and cnt["T"]:
            cnt["T"] = 0  # diagonal matrices are symmetric
        r = y
        for s in ("inv", "T", "C"):
            if cnt[s]:
                r = (s, r)
        return r
    return t


def expand(t, defs):
    """substitute symbols by their definitions (A := L·H(L))"""
    if not isinstance(t, tuple) or not t:
        return t
    if t[0] == "sym" and t in defs:
        return defs[t]
    if t[0] in ("chol", "plu"):
        return t  # factor symbols are atoms: chol(A) stays chol(A) when A := chol(A)·H(chol(A))
    return tuple(expand(x, defs) if isinstance(x, tuple) else x for x in t)


def norm_vec(v):
    if isinstance(v, tuple) and v and v[0] == "argsort" and isinstance(v[1], tuple) and v[1] and v[1][0] == "argsort":
        inner = v[1][1]
        # argsort(argsort(p)) = p holds for permutation vectors only: the payload of a Permutation operator is one
        if isinstance(inner, tuple) and inner and inner[0] == "sym" and str(inner[1]).endswith(".perm"):
            return inner
        return v
    if isinstance(v, tuple) and v and v[0] == "recip" and isinstance(v[1], tuple) and v[1] and v[1][0] == "recip":
        return norm_vec(v[1][1])
    return v


def contains_var(t):
    if not isinstance(t, tuple):
        return False
    if t == VAR:
        return True
    return any(contains_var(x) for x in t[1:] if isinstance(x, tuple)) or any(contains_var(y) for x in t[1:] if isinstance(x, tuple) for y in x if isinstance(y, tuple))


def alternatives(t):
    if isinstance(t, tuple) and t and t[0] == "join":
        out = []
        for x in t[1]:
            out += alternatives(x)
        return out
    return [t]


def equal(got, want, hyp=frozenset(), defs=None):
    """-> True / False / None (None: opaque on the way)"""
    defs = defs or {}
    if defs:
        # what is assumed about an operator holds for its defining term: a Hermitian diag(d) has real d, a Hermitian c·I real c,
        # a Hermitian / unitary / real Dense(M) has such an M
        hyp = set(hyp)
        for h, s in list(hyp):
            d = defs.get(s)
            if d is None:
                continue
            if d[0] == "sym":
                hyp.add((h, d))
            elif h == "herm" and d[0] == "diag" and isinstance(d[1], tuple) and d[1][0] == "sym":
                hyp.add(("real", d[1]))
            elif h == "herm" and d[0] == "scal" and d[2] == I:
                hyp.add(("sreal", snorm(d[1], frozenset())))
        hyp = frozenset(hyp)
    g = norm(expand(got, defs), hyp)
    w = norm(expand(want, defs), hyp)
    res = True
    for a in alternatives(g):
        if has_opaque(a):
            res = None if res is True else res
            continue
        if a != w:
            return False
    return res


def _splice(kind, fl):
    """a part list spliced into an n-ary constructor: the whole family, or a contiguous range of it (head / tail idioms)"""
    if len(fl) == 5:
        return ("famrange", kind, fl[2], fl[3], fl[4][0], fl[4][1])
    return ("famsplice", kind, fl[1], fl[2], fl[3])


def _merge_ranges(kind, xs):
    """[M_0, *Ms[1:]] = [*Ms[:-1], M_-1] = [*Ms[:k], *Ms[k:]] = the whole family (associativity of the n-ary constructors)"""
    xs = list(xs)
    changed = True
    while changed:
        changed = False
        for i in range(len(xs) - 1):
            a, b = xs[i], xs[i + 1]
            new = None
            if a[0] == "elt" and b[0] == "famrange" and b[1] == kind and b[2] == VAR and a[1] == b[3] and a[2] == b[4] - 1 and a[2] >= 0:
                new = ("famrange", kind, VAR, b[3], a[2], b[5])
            elif a[0] == "famrange" and b[0] == "elt" and a[1] == kind and a[2] == VAR and b[1] == a[3] and a[5] is not None and a[5] < 0 and b[2] == a[5]:
                new = ("famrange", kind, VAR, a[3], a[4], (a[5] + 1) or None)
            elif a[0] == "famrange" and b[0] == "famrange" and a[1:4] == b[1:4] and a[5] is not None and a[5] == b[4]:
                new = ("famrange", kind, a[2], a[3], a[4], b[5])
            if new is not None:
                if new[4] == 0 and new[5] is None:
                    new = ("fam", kind, 1, new[2], new[3])
                xs[i:i + 2] = [new]
                changed = True
                break
    return xs


# ------------------------------------------------------------------ evaluation of expressions
class TermEval(AbsInt):
    """maps Python expressions of rule bodies / product methods to terms"""
    WRAP_ID = {"Dense", "lazify", "densify"}

    def __init__(self, idx):
        super().__init__(idx)
        self.flags = {}

    def unknown(self, why=""):
        return ("opaque", why)

    def const(self, node):
        if isinstance(node.value, (int, float, complex)) and not isinstance(node.value, bool):
            return ("num", node.value)
        return ("pyconst", repr(node.value))

    def param(self, fi, name):
        return sym(name)

    def self_attr(self, fi, attr, node):
        if attr in ("T", "H", "Ms"):
            return self.attribute(sym("self"), attr, node, None)
        return sym(f"self.{attr}")

    def join(self, vals):
        flat = []
        for v in vals:
            for a in alternatives(v):
                if a not in flat:
                    flat.append(a)
        if len(flat) == 1:
            return flat[0]
        tups = [v for v in flat if isinstance(v, tuple) and v and v[0] == "tuple"]
        if tups and len(tups) == len(flat) and len({len(t[1]) for t in tups}) == 1:
            n = len(tups[0][1])
            return ("tuple", tuple(self.join([t[1][i] for t in tups]) for i in range(n)))
        return ("join", frozenset(flat))

    def alternatives(self, v):
        return alternatives(v)

    def element_of(self, v, i):
        if isinstance(v, tuple) and v and v[0] == "factor" and isinstance(i, int):
            name, x = v[1], v[2]
            if name in ("eigh", "eig"):
                return ("eigvals", name, x) if i == 0 else ("eigvecs", name, x)
            if name == "lu":
                return ("lu", x, i)
            if name == "svd":
                return ("svdpart", x, i)
            if name == "qr":
                return ("opaque", "qr factor")
        if isinstance(v, tuple) and v and v[0] == "list":
            if isinstance(i, int) and -len(v[1]) <= i < len(v[1]):
                return v[1][i]
        if isinstance(v, tuple) and v and v[0] == "famlist" and i == "*":
            return v[2]
        if isinstance(v, tuple) and v and v[0] == "fam" and i == "*":
            return v[3]
        return ("opaque", "element")

    # ---- structure
    def attribute(self, base, attr, node, ctx):
        if attr == "T" or attr == "mT":
            return T(base)
        if attr == "H":
            return H(base)
        if attr in ("real", ):
            return ("opaque", ".real")
        if attr == "Ms":
            return ("famlist", +1, VAR, ast.unparse(node))
        if attr in ("A", "diag", "c", "perm", "lower", "multiplicities", "alpha", "beta", "gamma", "data", "shape", "dtype", "device", "xnp"):
            if base[0] == "sym":
                return sym(f"{base[1]}.{attr}")
        if base[0] == "sym" and base[1].endswith(".xnp"):
            return sym(f"{base[1]}.{attr}")
        return ("opaque", f".{attr}")

    def subscript(self, base, node, ctx):
        sl = node.slice
        if base[0] == "famlist":
            if isinstance(sl, ast.Slice) and sl.lower is None and sl.upper is None and isinstance(sl.step, ast.UnaryOp) and isinstance(sl.step.operand, ast.Constant) \
                    and sl.step.operand.value == 1 and isinstance(sl.step.op, ast.USub):
                return ("famlist", -base[1], base[2], base[3])
            if isinstance(sl, ast.Constant) and isinstance(sl.value, int):
                return ("elt", base[3], sl.value)
            if isinstance(sl, ast.UnaryOp) and isinstance(sl.op, ast.USub) and isinstance(sl.operand, ast.Constant) and isinstance(sl.operand.value, int) and len(base) == 4:
                return ("elt", base[3], -sl.operand.value)
            if isinstance(sl, ast.Slice) and sl.step is None and base[1] == 1 and len(base) == 4:
                # head / tail of the part list: A.Ms[1:], A.Ms[:-1] -- a contiguous range with constant bounds
                def bound(b):
                    if b is None:
                        return None
                    if isinstance(b, ast.Constant) and isinstance(b.value, int):
                        return b.value
                    if isinstance(b, ast.UnaryOp) and isinstance(b.op, ast.USub) and isinstance(b.operand, ast.Constant) and isinstance(b.operand.value, int):
                        return -b.operand.value
                    return "?"
                lo, hi = bound(sl.lower), bound(sl.upper)
                if lo != "?" and hi != "?" and (lo is None or lo >= 0) and (hi is None or hi < 0 or lo is None):
                    return ("famlist", 1, base[2], base[3], (lo or 0, hi))
        if base[0] == "tuple" and isinstance(sl, ast.Constant) and isinstance(sl.value, int):
            return self.index(base, sl.value)
        if base[0] == "list" and isinstance(sl, ast.Constant) and isinstance(sl.value, int):
            return self.index(base, sl.value)
        # gathers by a permutation vector p:  X[p] = P X with P = I[p];  X[:, p] = X P^T  (column j of the result is column p[j] of X)
        def perm_vec(e):
            if isinstance(e, (ast.Slice, ast.Tuple, ast.Constant)):
                return None
            v = self.ev(e, ctx)
            if (v[0] == "sym" and str(v[1]).endswith(".perm")) or v[0] == "argsort":
                return v
            return None
        pv = perm_vec(sl)
        if pv is not None:
            return MUL(("perm", pv), base)
        if isinstance(sl, ast.Tuple) and len(sl.elts) == 2 and isinstance(sl.elts[0], ast.Slice) and sl.elts[0].lower is None and sl.elts[0].upper is None and sl.elts[0].step is None:
            pv = perm_vec(sl.elts[1])
            if pv is not None:
                return MUL(base, T(("perm", pv)))
        # diag[:, None] / diag[None, :] idioms
        if isinstance(sl, ast.Tuple) and len(sl.elts) == 2:
            a, b = sl.elts
            is_none = lambda x: isinstance(x, ast.Constant) and x.value is None  # noqa: E731
            is_full = lambda x: isinstance(x, ast.Slice) and x.lower is None and x.upper is None and x.step is None  # noqa: E731
            if is_full(a) and is_none(b):
                return ("colvec", base)
            if is_none(a) and is_full(b):
                return ("rowvec", base)
        return ("opaque", f"{ast.unparse(node)[:30]}")

    def binop(self, node, left, right, ctx):
        op = node.op
        if isinstance(op, ast.MatMult):
            return MUL(left, right)
        if isinstance(op, (ast.Add, ast.Sub)):
            ls, rs = self.as_scalar(left), self.as_scalar(right)
            if ls is not None and rs is not None:
                return ("sc", ("sadd", (ls, rs if isinstance(op, ast.Add) else ("smul", (("num", -1), rs)))))
        if isinstance(op, ast.Add):
            return ADD(left, right)
        if isinstance(op, ast.Sub):
            return ADD(left, SCAL(("num", -1), right))
        if isinstance(op, ast.Mult):
            if left[0] == "colvec" and right[0] == "rowvec":
                return ("outer", left[1], right[1])  # a[:, None] * b[None, :]
            if left[0] == "rowvec" and right[0] == "colvec":
                return ("outer", right[1], left[1])
            if left[0] == "colvec":
                return MUL(("diag", left[1]), right)  # d[:, None] * X = diag(d) X
            if left[0] == "rowvec":
                return MUL(right, ("diag", left[1]))  # d[None, :] * X = X diag(d)
            if right[0] == "colvec":
                return MUL(("diag", right[1]), left)
            if right[0] == "rowvec":
                return MUL(left, ("diag", right[1]))
            ls, rs = self.as_scalar(left), self.as_scalar(right)
            if ls is not None and rs is not None:
                return ("sc", ("smul", (ls, rs)))
            if ls is not None:
                return SCAL(ls, right)
            if rs is not None:
                return SCAL(rs, left)
            return ("opaque", "elementwise product")
        if isinstance(op, ast.Div):
            ls, rs = self.as_scalar(left), self.as_scalar(right)
            if left[0] == "num" and left[1] in (1, 1.0) and rs is None and right[0] == "sym":
                return ("recip", right)
            if ls is not None and rs is not None:
                return ("sc", ("smul", (ls, ("sinv", rs))))
            if rs is not None:
                return SCAL(("sinv", rs), left)
            return ("opaque", "division")
        if isinstance(op, ast.Pow):
            return ("opaque", "power")
        return ("opaque", type(op).__name__)

    def as_scalar(self, t):
        if t[0] == "num":
            return t
        if t[0] == "sc":
            return t[1]
        if t[0] == "sym" and (t[1].endswith(".c") or t[1] in self.scalars):
            return ("ssym", t[1])
        if t[0] == "fapply":
            inner = self.as_scalar(t[2])
            if inner is not None:
                return ("sfn", t[1], inner)
        return None

    scalars = frozenset()

    def unaryop(self, node, val, ctx):
        if isinstance(node.op, ast.USub):
            if val[0] == "num":
                return ("num", -val[1])
            s = self.as_scalar(val)
            if s is not None:
                return ("sc", ("smul", (("num", -1), s)))
            return SCAL(("num", -1), val)
        if isinstance(node.op, ast.Not):
            return ("not", val)
        return val

    # ---- calls
    vector_syms = frozenset()  # payload symbols known to be vectors (from the kind's own product): xnp.diag of one builds a matrix

    def call_xnp(self, name, node, args, kwargs, ctx):
        if name in ("conj", ):
            return C(args[0])
        if name == "diag" and len(args) == 1 and not kwargs and args[0] in self.vector_syms:
            return ("diag", args[0])
        if name in ("cast", "array", "copy", "Parameter", "move_to"):
            return args[0]
        if name == "solvetri":
            lower = next((k.value for k in node.keywords if k.arg == "lower"), None)
            m = norm(args[0])
            ntrans = 0
            y = m
            while y[0] in ("T", "C", "inv"):
                ntrans += 1 if y[0] == "T" else 0
                y = y[1]
            ftext = ast.unparse(lower) if lower is not None else "True"
            nneg = 0
            while ftext.startswith("not "):
                nneg += 1
                ftext = ftext[4:].strip()
            self.flags[id(node)] = (ftext, nneg % 2, ntrans % 2)
            if (nneg % 2) != (ntrans % 2):
                return MUL(("mismatch", f"triangular solve with lower={ast.unparse(lower) if lower is not None else 'True'} on a matrix transposed {ntrans} time(s)"), args[1])
            return MUL(INV(args[0]), args[1])
        if name in ("solve", "lu_solve"):
            return MUL(INV(args[0]), args[1])
        if name == "inv":
            return INV(args[0])
        if name == "eye":
            return I
        if name == "permute":
            return ("opaque", "permute")
        if name == "argsort":
            return ("argsort", args[0])
        if name in ("cholesky", "eigh", "eig", "svd", "lu", "qr"):
            return ("factor", name, args[0], id(node))
        if name == "where" and len(args) == 3:
            # element-wise selection between two values by a data-dependent mask: equal to a term only if both branches are
            return args[1] if args[1] == args[2] else ("where", args[1], args[2])
        if name in ("zeros", "zeros_like"):
            return ("zero", )
        return ("opaque", f"xnp.{name}")

    def call_class(self, ci, node, args, kwargs, ctx):
        n = ci.name
        if n in ("Dense", ):
            return args[0] if args else kwargs.get("A", ("opaque", "Dense()"))
        if n == "Triangular":
            low = kwargs.get("lower", args[1] if len(args) > 1 else ("pyconst", "True"))
            return ("tri", args[0], low)
        if n == "Transpose":
            return T(args[0])
        if n == "Adjoint":
            return H(args[0])
        if n in ("Product", "Sum", "Kronecker", "KronSum", "BlockDiag"):
            kind = {"Product": "mul", "Sum": "add", "Kronecker": "kron", "KronSum": "ksum", "BlockDiag": "bdiag"}[n]
            elems = []
            for a_node, a in zip(node.args, args):
                if isinstance(a_node, ast.Starred):
                    elems.append(("star", a))
                else:
                    elems.append(a)
            return self.build(kind, elems, kwargs)
        if n == "Identity":
            return I
        if n == "ScalarMul":
            c = args[0] if args else kwargs.get("c")
            s = self.as_scalar(c) or (("ssym", show(c)) if c[0] in ("sym", ) else None)
            if s is None:
                if c[0] == "sc":
                    s = c[1]
                else:
                    return ("opaque", "ScalarMul payload")
            return SCAL(s, I)
        if n == "Diagonal":
            return ("diag", args[0] if args else ("opaque", "Diagonal()"))
        if n == "Permutation":
            return ("perm", args[0] if args else ("opaque", "Permutation()"))
        if n in ("SelfAdjoint", "PSD", "Unitary", "Stiefel", "Hermitian"):
            return args[0]
        if n == "TriangularInv":
            return INV(args[0])
        if n in ("IterativeOperatorWInfo", ):
            a0 = args[0] if args else kwargs.get("A", ("opaque", "IterativeOperatorWInfo()"))
            return ("iter", a0, args[1] if len(args) > 1 else kwargs.get("alg", ("opaque", "alg")))
        if n == "LSTSQSolve":
            return ("pinv", args[0])
        return ("opaque", f"{n}()")

    def build(self, kind, elems, kwargs):
        # a single starred family
        if len(elems) == 1 and isinstance(elems[0], tuple) and elems[0][0] == "star":
            v = elems[0][1]
            out = []
            for a in alternatives(v):
                if a[0] == "famlist" and len(a) == 5:
                    out.append(_splice(kind, a))
                elif a[0] == "famlist":
                    out.append(("fam", kind, a[1], a[2], a[3]) + ((show(kwargs["multiplicities"]), ) if kind == "bdiag" and "multiplicities" in kwargs else ()))
                elif a[0] == "list":
                    out.append((kind, tuple(a[1])))
                elif a[0] == "catlist":
                    out.append((kind, tuple(_splice(kind, p) if p[0] == "famlist" else p for p in a[1])))
                else:
                    out.append(("opaque", f"*{show(a)}"))
            return self.join(out)
        xs = []
        for e in elems:
            if isinstance(e, tuple) and e[0] == "star":
                v = e[1]
                if v[0] == "list":
                    xs += list(v[1])
                elif v[0] == "famlist":
                    xs.append(_splice(kind, v))
                elif v[0] == "catlist":
                    xs += [_splice(kind, p) if p[0] == "famlist" else p for p in v[1]]
                else:
                    xs.append(("opaque", "*args"))
            else:
                xs.append(e)
        if kind == "bdiag":
            return ("bdiag", tuple(xs), show(kwargs["multiplicities"]) if "multiplicities" in kwargs else "")
        return (kind, tuple(xs))

    def call_method(self, recv, name, node, args, kwargs, ctx):
        if recv == sym("self") and ctx is not None and ctx.fi is not None and ctx.fi.enc_cls is not None and name.startswith("__"):
            m = self.idx.find_method(ctx.fi.enc_cls, name)
            if m is not None:
                return self.eval_function(m, node, args, kwargs, ctx, skip_first=True)
        if name in ("conj", "conjugate"):
            return C(recv)
        if name in ("to_dense", "to", "copy", "clone", "astype", "cpu"):
            return recv
        if name == "_matmat":
            return MUL(recv, args[0])
        if name == "_rmatmat":
            return MUL(args[0], recv)
        if name == "isa":
            return ("isa", recv, args[0])
        if name == "reshape":
            return ("reshape", recv, tuple(ast.unparse(a) for a in node.args))
        return ("opaque", f".{name}()")

    def call_unknown(self, node, ctx):
        f = node.func
        if isinstance(f, ast.Name):
            fv = self.name(f.id, ctx)
            args = [self.ev(a, ctx) for a in node.args]
            if fv[0] == "sym" and len(args) == 1:
                return ("fapply", fv[1], args[0])
            if fv[0] == "lambdaobj":
                lam = fv[1]
                env = dict(ctx.env)
                ps = [a.arg for a in lam.args.args]
                pos = [(n, a) for n, a in zip(node.args, args) if not isinstance(n, ast.Starred)]
                for p, (n, a) in zip(ps, pos):
                    env[p] = a
                if lam.args.vararg is not None:
                    stars = [a for n, a in zip(node.args, args) if isinstance(n, ast.Starred)]
                    rest = [a for (n, a) in pos[len(ps):]]
                    env[lam.args.vararg.arg] = stars[0] if len(stars) == 1 and not rest else ("list", tuple(rest))
                return self.ev(lam.body, AbsInt.Ctx(ctx.fi, env, ctx.depth + 1))
        return ("opaque", ast.unparse(f)[:30] + "()")

    def call_builtin(self, name, node, args, kwargs, ctx):
        if name == "reversed":
            v = args[0]
            if v[0] == "famlist":
                return ("famlist", -v[1], v[2], v[3])
            if v[0] == "list":
                return ("list", tuple(reversed(v[1])))
        if name in ("list", "tuple"):
            return args[0] if args else ("list", ())
        if name == "sum":
            v = args[0]
            if v[0] == "famlist":
                return ("fam", "add", v[1], v[2], v[3])
            if v[0] == "list":
                return ("add", tuple(v[1]))
        if name == "zip" and len(node.args) == 1 and isinstance(node.args[0], ast.Starred):
            v = args[0]
            if v[0] == "famlist" and v[2][0] == "tuple":
                return ("tuple", tuple(("famlist", v[1], e, v[3]) for e in v[2][1]))
        if name == "len":
            return ("len", args[0])
        return ("opaque", f"{name}()")

    def call_external(self, dotted, node, args, kwargs, ctx):
        if dotted == "functools.reduce" and len(node.args) >= 2 and len(args) >= 2:
            # a fold of the factors with the Kronecker product / Kronecker sum / matrix product
            f = node.args[0]
            fname = f.attr if isinstance(f, ast.Attribute) else (f.id if isinstance(f, ast.Name) else None)
            kind = {"kron": "kron", "kronsum": "ksum"}.get(fname)
            flip = False  # `lambda acc, M: M @ acc`: every element is put to the LEFT of what was accumulated
            if isinstance(f, ast.Lambda) and isinstance(f.body, ast.BinOp) and isinstance(f.body.op, ast.MatMult) and len(f.args.args) == 2:
                sides = [x.id for x in (f.body.left, f.body.right) if isinstance(x, ast.Name)]
                ps = [a_.arg for a_ in f.args.args]
                if sides == ps:
                    kind = "mul"
                elif sides == ps[::-1]:
                    kind, flip = "mul", True
            v = args[1]
            out = None
            if kind and v[0] == "famlist":
                out = ("fam", kind, (-v[1] if flip else v[1]), v[2], v[3])
            elif kind and v[0] in ("list", "tuple"):
                out = (kind, tuple(reversed(v[1])) if flip else tuple(v[1]))
            if out is not None and len(args) >= 3:
                # an initial value: the fold starts from it (matrix product only: the operand the chain is applied to)
                if kind != "mul":
                    return ("opaque", "reduce with an initial value")
                return MUL(out, args[2]) if flip else MUL(args[2], out)
            if out is not None:
                return out
            return ("opaque", "reduce")
        if dotted == "functools.reduce":
            return ("opaque", "reduce")
        return ("opaque", dotted)

    def call_dispatch(self, fname, node, args, kwargs, ctx):
        if fname in ("inv", ):
            return INV(args[0])
        if fname == "pinv":
            return ("pinv", args[0])
        if fname in ("transpose", ):
            return T(args[0])
        if fname == "adjoint":
            return H(args[0])
        if fname == "dot":
            return MUL(args[0], args[1])
        if fname == "add":
            return ADD(args[0], args[1])
        if fname == "mul":
            s = self.as_scalar(args[1]) or (("ssym", show(args[1])) if args[1][0] == "sym" else None)
            if s is None and args[1][0] == "sc":
                s = args[1][1]
            if s is not None:
                return SCAL(s, args[0])
            return ("opaque", "mul")
        if fname == "kron":
            return ("kron", (args[0], args[1]))
        if fname == "kronsum":
            return ("ksum", (args[0], args[1]))
        if fname == "cholesky":
            return ("chol", args[0])
        if fname == "plu":
            return ("tuple", (("plu", args[0], 0), ("plu", args[0], 1), ("plu", args[0], 2)))
        if fname in ("apply_unary", ):
            return ("fn", show(args[0]), args[1])
        if fname in ("exp", "log", "sqrt", "isqrt"):
            return ("fn", fname, args[0])
        if fname == "pow":
            return ("fn", f"pow:{show(args[1])}", args[0])
        return ("opaque", f"{fname}()")

    def other(self, node, ctx):
        if isinstance(node, (ast.ListComp, ast.GeneratorExp)) and len(node.generators) == 1 and not node.generators[0].ifs:
            g = node.generators[0]
            it = self.ev(g.iter, ctx)
            if isinstance(g.target, ast.Name):
                outs = []
                for a in alternatives(it):
                    if a[0] == "famlist":
                        env = dict(ctx.env)
                        env[g.target.id] = a[2]
                        sub = AbsInt.Ctx(ctx.fi, env, ctx.depth + 1)
                        body = self.ev(node.elt, sub)
                        outs.append(("famlist", a[1], body, a[3]))
                    elif a[0] == "list":
                        elems = []
                        for x in a[1]:
                            env = dict(ctx.env)
                            env[g.target.id] = x
                            elems.append(self.ev(node.elt, AbsInt.Ctx(ctx.fi, env, ctx.depth + 1)))
                        outs.append(("list", tuple(elems)))
                    else:
                        outs.append(("opaque", "comprehension over " + show(a)))
                return self.join(outs)
        if isinstance(node, ast.List):
            return ("list", tuple(self.ev(x, ctx) for x in node.elts))
        if isinstance(node, ast.Lambda):
            return ("lambdaobj", node)
        return ("opaque", type(node).__name__)

    def eval_correlated(self, fi, expr, env=None, cap=16):
        """evaluate `expr` once per consistent choice of the alternatives of the names it mentions (a name
        bound to several alternatives takes the SAME one everywhere in the expression)"""
        import itertools as _it
        env = dict(env or {})
        ctx = AbsInt.Ctx(fi, env)
        choices = {}
        for n in sorted(df.names_in(expr)):
            if n in env:
                continue
            v = self.name(n, ctx)
            alts = alternatives(v)
            if len(alts) > 1:
                choices[n] = alts
        if not choices:
            return [self.eval_in(fi, expr, env)]
        names = sorted(choices)
        combos = list(_it.product(*[choices[n] for n in names]))[:cap]
        return [self.eval_in(fi, expr, {**env, **dict(zip(names, c))}) for c in combos]

    def name(self, name, ctx):
        acc = self.accumulate(name, ctx)
        if acc is not None:
            return acc
        return super().name(name, ctx)

    def accumulate(self, name, ctx):
        """`for M in F: v = M @ v` / `v = v @ M` accumulate loops -> family product applied to the start value"""
        f = ctx.fi
        if f is None or name in ctx.env:
            return None
        for st in f.node.body:
            if isinstance(st, ast.For) and isinstance(st.target, ast.Name) and len(st.body) == 1 and isinstance(st.body[0], ast.Assign):
                a = st.body[0]
                if len(a.targets) == 1 and isinstance(a.targets[0], ast.Name) and a.targets[0].id == name and isinstance(a.value, ast.BinOp) and isinstance(a.value.op, ast.MatMult):
                    l, r = a.value.left, a.value.right
                    t = st.target.id
                    it = self.ev(st.iter, ctx)
                    if it[0] != "famlist":
                        return ("opaque", "accumulate loop over " + show(it))
                    # start value: the parameter / earlier binding of `name`
                    start = sym(name)
                    if isinstance(l, ast.Name) and l.id == t and isinstance(r, ast.Name) and r.id == name:
                        # v <- M_i v in iteration order: the last element ends up leftmost
                        return MUL(("fam", "mul", -it[1], it[2], it[3]), start)
                    if isinstance(r, ast.Name) and r.id == t and isinstance(l, ast.Name) and l.id == name:
                        return MUL(start, ("fam", "mul", it[1], it[2], it[3]))
                    return ("opaque", "accumulate loop shape")
        return None

    def ev(self, e, ctx):
        # tuple concatenation A.Ms + (B, )  /  (A, ) + B.Ms
        if isinstance(e, ast.BinOp) and isinstance(e.op, ast.Add):
            l, r = super().ev(e.left, ctx), super().ev(e.right, ctx)
            if l[0] in ("famlist", "tuple", "list", "catlist") and r[0] in ("famlist", "tuple", "list", "catlist"):
                parts = []
                for v in (l, r):
                    if v[0] == "catlist":
                        parts += list(v[1])
                    elif v[0] in ("tuple", "list"):
                        parts += list(v[1])
                    else:
                        parts.append(v)
                return ("catlist", tuple(parts))
            return self.binop(e, l, r, ctx)
        if isinstance(e, ast.Tuple):
            return ("tuple", tuple(self.ev(x, ctx) for x in e.elts))
        return super().ev(e, ctx)
