#!/bin/sh
# usage: verify_seed.sh <seed dir>  -- confirms in a scratch worktree of /repo HEAD: demo passes without the patch, fails with it, suite stays at baseline with it
d="$(cd "$1" && pwd)"
wt=/tmp/wt_verify_$(basename "$d")
git -C /repo worktree remove --force $wt 2>/dev/null
git -C /repo worktree add -q --detach $wt HEAD || exit 2
cd $wt
PYTHONPATH=$wt /venv/bin/python "$d/demo.py" >/tmp/verify_clean_$(basename "$d").out 2>&1; rc_clean=$?
if ! git apply --check "$d/patch.diff" 2>/dev/null; then echo "RESULT $(basename $d): PATCH-DOES-NOT-APPLY"; git -C /repo worktree remove --force $wt; exit 3; fi
git apply "$d/patch.diff"
PYTHONPATH=$wt /venv/bin/python "$d/demo.py" >/tmp/verify_patched_$(basename "$d").out 2>&1; rc_patched=$?
suite=$(/verif/tools/suite.sh $wt | head -1)
echo "RESULT $(basename $d): demo_clean_rc=$rc_clean ($(tail -1 /tmp/verify_clean_$(basename "$d").out | cut -c1-60)) demo_patched_rc=$rc_patched ($(tail -1 /tmp/verify_patched_$(basename "$d").out | cut -c1-60)) suite_with_patch: $suite"
cd /; git -C /repo worktree remove --force $wt
