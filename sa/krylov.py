"""structural rules shared by the iterative routines (C12, C14, C15):
reachable helper closure, column-independent reductions, sesquilinear projection convention, norms."""
import ast

from sa import dataflow as df

REDUCTIONS = {"sum", "norm", "mean", "max", "min", "prod"}


def nospace(n):
    return ast.unparse(n).replace(" ", "")


def closure(idx, root, same_module=True):
    """functions reachable from `root` through direct calls of plain cola functions (incl. nested defs)"""
    seen, order = set(), []
    work = [root]
    while work:
        f = work.pop()
        if id(f.node) in seen:
            continue
        seen.add(id(f.node))
        order.append(f)
        for g in f.nested.values():
            work.append(g)
        for c in df.calls(f.node, into_nested=True):
            r = idx.resolve_expr(f.module, c.func, f)
            if r is not None and r.kind == "funcs":
                callee = r.val[-1]
                if getattr(callee, "rule", None) is None and (not same_module or callee.module is root.module):
                    work.append(callee)
    return order


def reductions(fi):
    """(call, name, axis expr or None) for xnp.<reduction>(...) and <x>.<reduction>(...) calls in fi itself"""
    out = []
    for c in df.calls(fi.node, into_nested=False):
        name = df.is_xnp_call(c)
        if name is None and isinstance(c.func, ast.Attribute) and c.func.attr in REDUCTIONS:
            r = None
            name = c.func.attr
            if isinstance(c.func.value, ast.Name) and c.func.value.id in ("np", "math", "torch", "jnp"):
                continue
        if name not in REDUCTIONS:
            continue
        axis = next((k.value for k in c.keywords if k.arg in ("axis", "dim")), None)
        if axis is None and df.is_xnp_call(c) and len(c.args) >= 2:
            axis = c.args[1]
        if axis is None and not df.is_xnp_call(c) and c.args:
            axis = c.args[0]
        out.append((c, name, axis))
    return out


def axis_value(axis):
    if axis is None:
        return None
    try:
        return ast.literal_eval(axis)
    except Exception:  # noqa: BLE001
        return "?"


def projection_convention(fi):
    """Gram-Schmidt style steps:  c = sum(conj(X) * Y ...) ;  w -= sum(Z * c) / w = w - c * Z  (the coefficient may be bound to a
    name first or written inline).  The basis is the conjugated operand; the subtraction must multiply the coefficient with that
    same basis.  -> list of (ok, text, node)"""
    out = []
    asg = df.assignments(fi.node, into_nested=False)
    bound = {id(v): name for name, vals in asg.items() for v, p, st in vals if p is None}
    for v in df.calls(fi.node, into_nested=False):
        if not (df.is_xnp_call(v) == "sum" or (isinstance(v.func, ast.Attribute) and v.func.attr == "sum")):
            continue
        arg = v.args[0] if v.args else (v.func.value if isinstance(v.func, ast.Attribute) else None)
        if not (isinstance(arg, ast.BinOp) and isinstance(arg.op, ast.Mult)):
            continue
        sides = []
        for side in (arg.left, arg.right):
            conj = any(isinstance(c, ast.Call) and (df.is_xnp_call(c) == "conj" or (isinstance(c.func, ast.Attribute) and c.func.attr in ("conj", "conjugate"))) for c in walk_outside_sums(side))
            base = sorted(n for n in df.names_in(side) if not getattr_is_backend(n))
            sides.append((conj, base))
        if sides[0][0] == sides[1][0]:
            continue  # no (or double) conjugation: not a sesquilinear coefficient
        basis = sides[0][1] if sides[0][0] else sides[1][1]
        other = sides[1][1] if sides[0][0] else sides[0][1]
        # a Rayleigh quotient <A q, q> is not a projection coefficient: the conjugated vector is the operator applied to the other
        # one, and for the Hermitian operators of a Lanczos run the value is real whichever side carries the conjugate
        def applies_operator_to(names, others, depth=0):
            for nm in names:
                for val, _p, _st in asg.get(nm, []):
                    if isinstance(val, ast.AugAssign):
                        continue
                    if any(isinstance(x, ast.BinOp) and isinstance(x.op, ast.MatMult) for x in ast.walk(val)):
                        inner = set(df.names_in(val))
                        if inner & set(others):
                            return True
                        if depth < 2 and applies_operator_to(inner - {nm}, others, depth + 1):
                            return True
                    elif depth < 2 and applies_operator_to(set(df.names_in(val)) - {nm}, others, depth + 1):
                        return True
            return False
        if applies_operator_to(basis, other) or applies_operator_to(other, basis):
            continue
        name = bound.get(id(v))
        if name is None:
            # stored straight into a coefficient buffer:  h = update_array(h, <coefficient>, ...)
            par = getattr(v, "_parent", None)
            if isinstance(par, ast.Call) and df.is_xnp_call(par) == "update_array" and len(par.args) >= 2 and par.args[1] is v:
                name = bound.get(id(par))
        aliases = coeff_aliases(asg, name) if name is not None else set()
        inner_nodes = {id(x) for x in ast.walk(v)}
        cands = []
        for n in df.body_nodes(fi.node, into_nested=False):
            if isinstance(n, ast.AugAssign) and isinstance(n.op, ast.Sub):
                cands.append((n, n.value, n.target))
            elif isinstance(n, (ast.Assign, ast.Return)) and n.value is not None:
                # w = w - c * Z, also as the returned value or as a component of the returned / assigned tuple
                for e_ in ([n.value] + (list(n.value.elts) if isinstance(n.value, ast.Tuple) else [])):
                    if isinstance(e_, ast.BinOp) and isinstance(e_.op, ast.Sub):
                        cands.append((n, e_.right, e_.left))
        for n, sub_expr, target in cands:
            inline = any(x is v for x in ast.walk(sub_expr))
            if not inline and not (aliases & set(df.names_in(sub_expr))):
                continue
            outside = [x for x in ast.walk(sub_expr) if isinstance(x, ast.Name) and id(x) not in inner_nodes]
            mult_names = {x.id for x in outside if not getattr_is_backend(x.id)} - aliases
            tgt_names = set(df.names_in(target))
            uses_basis = bool(mult_names & set(basis))
            removes_from_other = bool(tgt_names & set(other))
            ok = uses_basis and removes_from_other
            cname = f"`{name} = {ast.unparse(v)[:60]}`" if name is not None else f"`{ast.unparse(v)[:60]}`"
            out.append((ok, f"coefficient {cname} conjugates {basis}; `{ast.unparse(n)[:70]}` " +
                        ("removes basis × coefficient from the new vector" if ok else
                         f"multiplies the coefficient with {sorted(mult_names)} and updates {sorted(tgt_names)}: the conjugate sits on the vector being orthogonalised, "
                         "so conj(V^H w) is subtracted instead of V^H w"), n))
    return out


def walk_outside_sums(e):
    """nodes of e that are not inside a nested reduction (an inline inner coefficient is a different Gram-Schmidt quantity)"""
    def is_sum(c):
        return isinstance(c, ast.Call) and (df.is_xnp_call(c) == "sum" or (isinstance(c.func, ast.Attribute) and c.func.attr == "sum"))
    yield e
    if is_sum(e):
        return
    for c in ast.iter_child_nodes(e):
        if is_sum(c):
            continue
        yield from walk_outside_sums(c)


def getattr_is_backend(name):
    return name in ("xnp", "self", "np")


def coeff_aliases(asg, name):
    """the coefficient and every name it is stored into (h = update_array(h, coeff, ...))"""
    out = {name}
    changed = True
    while changed:
        changed = False
        for n, vals in asg.items():
            if n in out:
                continue
            for v, p, st in vals:
                e = v.value if isinstance(v, ast.AugAssign) else v
                if isinstance(e, ast.Call) and df.is_xnp_call(e) == "update_array" and len(e.args) >= 2 and out & set(df.names_in(e.args[1])):
                    out.add(n)
                    changed = True
                elif isinstance(e, (ast.Name, ast.Subscript)) and out & set(df.names_in(e)):
                    out.add(n)
                    changed = True
    return out


def norm_written(fi, buffer_param_names=None):
    """update_array(<buf>, <value>, ...) sites whose written value is a norm -> list of (buf, is_norm, node)"""
    out = []
    asg = df.assignments(fi.node, into_nested=False)
    for c in df.calls(fi.node, into_nested=False):
        if df.is_xnp_call(c) == "update_array" and len(c.args) >= 2:
            buf = ast.unparse(c.args[0])
            val = c.args[1]
            out.append((buf, is_norm_expr(val, asg), c))
    return out


def is_norm_value(idx, fi, e, depth=0):
    """e is a vector norm: xnp.norm(..) / abs(..), a local bound to one, or a call of a cola helper all of whose returns are norms"""
    e = df.resolve_value(fi.node, e)
    if isinstance(e, ast.Subscript):
        return is_norm_value(idx, fi, e.value, depth + 1)
    if isinstance(e, ast.Call):
        if df.is_xnp_call(e) in ("norm", "abs") or (isinstance(e.func, ast.Attribute) and e.func.attr == "norm"):
            return True
        if depth < 3:
            r = idx.resolve_expr(fi.module, e.func, fi)
            if r is not None and r.kind == "funcs" and getattr(r.val[-1], "rule", None) is None:
                callee = r.val[-1]
                rets = [x for x in df.returns(callee.node) if x.value is not None]
                return bool(rets) and all(is_norm_value(idx, callee, x.value, depth + 1) for x in rets)
    return False


def is_norm_expr(e, asg, depth=0):
    if isinstance(e, ast.Call) and df.is_xnp_call(e) in ("norm", "abs"):
        return True
    if isinstance(e, ast.Subscript):
        return is_norm_expr(e.value, asg, depth + 1)
    if isinstance(e, ast.Name) and depth < 4:
        vals = [v for v, p, st in asg.get(e.id, []) if p is None and not isinstance(v, ast.AugAssign)]
        return bool(vals) and all(is_norm_expr(v, asg, depth + 1) for v in vals)
    return False


# ------------------------------------------------------------------------------------------------
def buffer_dtype_obligations(idx, rep, init, rule, operand_names=("start_vector", "rhs", "v0")):
    """DTYPE: the work arrays allocated by a Krylov initialiser receive products A @ q, so their dtype must be
    influenced by the operator's dtype at every call site (typed by the start vector alone, a complex operator run
    from a real start vector is silently truncated to its real part).  Evaluated for a caller-supplied start vector
    (the branch that replaces a missing start vector by a random probe of the operator's dtype is excluded)."""
    from sa.dtype import ARG, DType, OP

    class KDType(DType):
        def __init__(self, idx_, op_param, operand):
            super().__init__(idx_, operand)
            self.op_param = op_param

        def param(self, fi, name):
            if name == self.operand:
                return ARG
            if name == self.op_param:
                return OP
            return frozenset()

        def follow_callee(self, callee):
            return True

    allocs = [c for c in df.calls(init.node, into_nested=False) if df.is_xnp_call(c) in ("zeros", "empty", "ones")]
    n = 0
    for caller in idx.funcs.values():
        if caller.module is not init.module or caller is init:
            continue
        for call in df.calls(caller.node, into_nested=False):
            if not (isinstance(call.func, ast.Name) and call.func.id == init.short):
                continue
            opp = next((p for p in caller.params if p == "A"), caller.params[0] if caller.params else None)
            operand = next((p for p in caller.params if p in operand_names), None)
            if operand is None:
                continue
            d = KDType(idx, opp, operand)
            env0 = {operand: ARG}
            bound = {}
            for i, a in enumerate(call.args):
                if i < len(init.params):
                    bound[init.params[i]] = d.flat(d.eval_in(caller, a, env0))
            for k in call.keywords:
                if k.arg:
                    bound[k.arg] = d.flat(d.eval_in(caller, k.value, env0))
            for z in allocs:
                dt = next((k.value for k in z.keywords if k.arg == "dtype"), z.args[1] if len(z.args) > 1 else None)
                if dt is None:
                    continue
                n += 1
                src = d.flat(d.eval_in(init, dt, bound))
                tgt = getattr(getattr(z, "_parent", None), "targets", None)
                ordinal = allocs.index(z) + 1
                construct = f"{caller.short}->{init.short}:buffer{ordinal}"
                loc = [idx.loc(caller.module, call), idx.loc(init.module, z)]
                if "op" in src:
                    rep.proved(rule, construct, f"buffer `{ast.unparse(tgt[0]) if tgt else '?'}` is typed by {sorted(src)}: the operator's dtype reaches it", locs=loc)
                elif "unknown" in src:
                    rep.undecided(rule, construct, f"dtype sources of the buffer: {sorted(src)}", locs=loc)
                else:
                    rep.refuted(rule, construct, f"buffer `{ast.unparse(tgt[0]) if tgt else '?'}` is typed by {sorted(src) or ['a constant']} only: products with a complex operator stored into it lose "
                                f"their imaginary part when `{operand}` is real", detail="narrow", locs=loc)
    if not n:
        rep.undecided(rule, f"{init.short}:buffers", "no call site with a start-vector parameter found")


def first_column_obligation(idx, rep, init, column, construct):
    """the value stored in the given column of the basis is the start vector (second parameter of the initialiser) divided by its own
    norm -- under any layout: re-bound (`rhs = rhs / norm`), inline (`update_array(Q, (rhs / norm).T, ...)`) or through temporaries --
    and the caller's array is not normalised in place"""
    iasg = df.assignments(init.node)
    rhs = init.params[1]
    rebinds = [st for v, p, st in iasg.get(rhs, [])]

    def value_of(e, seen=()):
        """e without copies / transposes, with singly-bound names replaced by their values (a name inside its own re-binding is the
        earlier value)"""
        while True:
            if isinstance(e, ast.Call) and df.is_xnp_call(e) in ("copy", "array", "cast") and e.args:
                e = e.args[0]
            elif isinstance(e, ast.Attribute) and e.attr in ("T", "mT"):
                e = e.value
            elif isinstance(e, ast.Name) and e.id not in seen:
                asg = iasg.get(e.id, [])
                plain = [v for v, p, st in asg if p is None and not isinstance(v, ast.AugAssign)]
                if len(asg) == 1 and len(plain) == 1:
                    seen = seen + (e.id, )
                    e = plain[0]
                else:
                    return e, seen
            else:
                return e, seen

    def is_start(e, seen):
        e, seen = value_of(e, seen)
        return isinstance(e, ast.Name) and e.id == rhs

    def is_norm_of_start(e, seen):
        e, _ = value_of(e, seen)
        if not (isinstance(e, ast.Call) and df.is_xnp_call(e) == "norm" and e.args and nospace(e.args[0]) == rhs):
            return False
        # taken of the vector as passed in: before any re-binding of the name
        return all(getattr(e, "lineno", 0) <= getattr(st, "lineno", 0) for st in rebinds)

    stores = [c for c in df.calls(init.node) if df.is_xnp_call(c) == "update_array" and len(c.args) >= 2 and nospace(c.args[-1]) == column]
    any_store = [c for c in df.calls(init.node) if df.is_xnp_call(c) == "update_array" and len(c.args) >= 2 and rhs in df.names_in(c.args[1])]
    divided = False
    for c in stores:
        v, seen = value_of(c.args[1])
        if isinstance(v, ast.BinOp) and isinstance(v.op, ast.Div) and is_start(v.left, seen) and is_norm_of_start(v.right, seen):
            divided = True
    inplace = any(isinstance(n, ast.AugAssign) and nospace(n.target) == rhs for n in df.body_nodes(init.node))
    col_ok = bool(stores)
    shown = stores or any_store
    copied = bool(shown) and "copy(" in nospace(shown[0].args[1])
    ok = divided and col_ok and not inplace
    rep.decide(ok, "first-column", construct, f"start vector {'divided by its norm' if divided else 'NOT normalised'}{' IN PLACE' if inplace else ''}, stored in column "
               f"{nospace(shown[0].args[-1]) if shown else '?'}{' (copy)' if copied else ''}", detail="" if ok else "first-column", locs=[idx.loc(init.module, init.node)])


# ------------------------------------------------------------------------------------------------
def breakdown_stops(idx, rep, fact, rule, construct, counter_slot, cap_name="max_iters", cond=None):
    """the loop condition of a Krylov factorisation, evaluated at an EXACT breakdown (every residual / norm quantity of the state is 0,
    the counter is past its first-step exemption and below the cap), must be False: otherwise the next step divides 0 by 0.
    Constant folding over the condition: state arrays -> 0, tol * 0 -> 0, counter > small constants, counter < cap."""
    if cond is None or not getattr(cond, "params", None):
        rep.undecided(rule, construct, "no nested condition function found")
        return
    state = cond.params[0]
    names = None
    for st in df.body_nodes(cond.node):
        if isinstance(st, ast.Assign) and isinstance(st.targets[0], ast.Tuple) and isinstance(st.value, ast.Name) and st.value.id == state:
            names = st.targets[0].elts
    if names is None:
        rep.undecided(rule, construct, "the condition does not unpack the loop state")
        return
    n = len(names)
    star = next((i for i, e in enumerate(names) if isinstance(e, ast.Starred)), None)
    counter = None
    arrays = set()
    for i, e in enumerate(names):
        if isinstance(e, ast.Starred):
            continue
        slot = i if (star is None or i < star) else i - n  # negative index from the end when after the star
        is_counter = slot == counter_slot or (slot < 0 and counter_slot is not None and slot == counter_slot - (len(names) if star is None else 0))
        if isinstance(e, ast.Name):
            if is_counter:
                counter = e.id
            elif e.id != "_":
                arrays.add(e.id)
    rets = [r for r in df.returns(cond.node) if r.value is not None]
    if counter is None or not rets:
        rep.undecided(rule, construct, "counter slot not identified in the condition")
        return
    ZERO, CTR, CAP, POS = ("zero", ), ("ctr", ), ("cap", ), ("pos", )

    def ev(e, depth=0):
        if depth > 30:
            return None
        if isinstance(e, ast.Constant):
            if isinstance(e.value, bool):
                return e.value
            if isinstance(e.value, (int, float)):
                return ZERO if e.value == 0 else ("num", e.value)
            return None
        if isinstance(e, ast.Name):
            if e.id == counter:
                return CTR
            if e.id in arrays:
                return ZERO
            if e.id == cap_name:
                return CAP
            d = df.resolve_value(cond.node, e)
            if d is not e:
                return ev(d, depth + 1)
            return POS  # tolerances and other parameters: positive numbers
        if isinstance(e, ast.Subscript):
            return ev(e.value, depth + 1)
        if isinstance(e, ast.Attribute) and e.attr in ("real", "imag", "T"):
            return ev(e.value, depth + 1)
        if isinstance(e, ast.BinOp):
            l, r = ev(e.left, depth + 1), ev(e.right, depth + 1)
            if isinstance(e.op, ast.Mult):
                return ZERO if ZERO in (l, r) else (POS if l is not None and r is not None else None)
            if isinstance(e.op, (ast.BitOr, ast.BitAnd)) and isinstance(l, bool) and isinstance(r, bool):
                return (l or r) if isinstance(e.op, ast.BitOr) else (l and r)
            if isinstance(e.op, (ast.BitOr, ast.BitAnd)):
                # short-circuit values
                if isinstance(e.op, ast.BitOr) and True in (l, r):
                    return True
                if isinstance(e.op, ast.BitAnd) and False in (l, r):
                    return False
            if isinstance(e.op, (ast.Add, ast.Sub)) and l == CTR:
                return CTR
            return None
        if isinstance(e, ast.UnaryOp) and isinstance(e.op, (ast.Invert, ast.Not)):
            v = ev(e.operand, depth + 1)
            return (not v) if isinstance(v, bool) else None
        if isinstance(e, ast.BoolOp):
            vs = [ev(v, depth + 1) for v in e.values]
            if all(isinstance(v, bool) for v in vs):
                return all(vs) if isinstance(e.op, ast.And) else any(vs)
            return None
        if isinstance(e, ast.Call):
            f = ast.unparse(e.func)
            if f.endswith((".any", ".all")) and e.args:
                return ev(e.args[0], depth + 1)
            if f.endswith((".abs", ".norm", ".max", ".sqrt")) and e.args:
                v = ev(e.args[0], depth + 1)
                return v if v in (ZERO, POS) else None
            return None
        if isinstance(e, ast.Compare) and len(e.ops) == 1:
            l, r, op = ev(e.left, depth + 1), ev(e.comparators[0], depth + 1), e.ops[0]
            if l == ZERO and r == ZERO:
                return isinstance(op, (ast.GtE, ast.LtE, ast.Eq))
            if l == ZERO and r == POS:
                return isinstance(op, (ast.Lt, ast.LtE, ast.NotEq))
            if l == POS and r == ZERO:
                return isinstance(op, (ast.Gt, ast.GtE, ast.NotEq))
            if l == CTR and (r == ZERO or (isinstance(r, tuple) and r[0] == "num")):
                return isinstance(op, (ast.Gt, ast.GtE, ast.NotEq))  # the counter is past every small constant
            if l == CTR and r == CAP:
                return isinstance(op, (ast.Lt, ast.LtE, ast.NotEq))  # and below the cap
            return None
        return None

    v = ev(rets[0].value)
    loc = [idx.loc(cond.module, rets[0])]
    text = ast.unparse(rets[0].value)[:110]
    if v is False:
        rep.proved(rule, construct, f"at an exact breakdown (all residual quantities 0, counter past its first-step exemption) `{text}` is False: the loop stops", locs=loc)
    elif v is True:
        rep.refuted(rule, construct, f"at an exact breakdown (all residual quantities 0, counter past its first-step exemption) `{text}` is True: the loop continues and the next "
                    "step normalises a zero vector (0/0), e.g. when the start vector is an exact eigenvector", detail="continues", locs=loc)
    else:
        rep.undecided(rule, construct, f"`{text}` could not be folded at the breakdown point", locs=loc)


def basis_aliasing(idx, rep, loop, construct):
    """`A @ x` may BE x: some operator kinds hand their operand back unchanged (read off the _matmat methods: Identity, and any
    matrix-free operator whose matmat does).  The operand of the recurrence is a view of the Krylov basis held in the loop state, so
    arithmetic performed IN PLACE on the product (`w -= ...`, a helper that does) overwrites the basis vector itself.  OWN analysis of
    the loop body: an in-place write whose target may be fresh storage or the state -- i.e. a value the code treats as a new vector."""
    from sa.own import Own, show
    body = loop.body
    if body is None or isinstance(body, ast.Lambda):
        rep.undecided("basis-aliasing", construct, "loop body is not a nested function")
        return
    own = Own(idx)
    if not own.matmul_may_alias:
        rep.proved("basis-aliasing", construct, "no operator kind returns its operand unchanged from _matmat: an operator product is always new storage",
                   locs=[idx.loc(body.module, body.node)])
        return
    sp = body.params[0] if body.params else None
    # inner `for_loop(0, counter + c, ...)` with c >= 1 over the outer loop's counter (which starts at >= 0 and only grows: the loop-cap
    # obligations) runs at least once, so what it returns is what its body returns, not the initial value
    from sa import loop as lp
    cert = lp.cap_certificate(idx, loop)
    if cert.get("ok") is True:
        slots = lp.state_slots(body, sp)
        counters = {n for n, i in slots.items() if i == cert["counter_slot"]}
        def mark(fnode, counters_):
            for c in df.calls(fnode, into_nested=False):
                if isinstance(c.func, ast.Attribute) and c.func.attr == "for_loop" and df.is_xnp_call(c):
                    b = df.bind_call(c, ["lower", "upper", "body_fun", "init_val"])
                    lo, up = b.get("lower"), b.get("upper")
                    if isinstance(lo, ast.Constant) and lo.value == 0 and isinstance(up, ast.BinOp) and isinstance(up.op, ast.Add):
                        for x, k in ((up.left, up.right), (up.right, up.left)):
                            if isinstance(x, ast.Name) and x.id in counters_ and isinstance(k, ast.Constant) and isinstance(k.value, int) and k.value >= 1:
                                own.nonempty_loops.add(id(c))
        mark(body.node, counters)
        # the sweep may live in a helper that receives the counter: `project(Q, w, idx, ..)` with `for_loop(0, idx + 1, ..)` inside; the
        # helper's loop is non-empty for this caller, which must be its only one for the fact to be used in the helper's summary
        for c in df.calls(body.node, into_nested=False):
            r = idx.resolve_expr(body.module, c.func, body)
            if r is None or r.kind != "funcs" or getattr(r.val[-1], "rule", None) is not None:
                continue
            callee = r.val[-1]
            sites = [x for f_ in idx.funcs.values() if f_.module is callee.module or f_.module is body.module for x in df.calls(f_.node, into_nested=False)
                     if isinstance(x.func, ast.Name) and x.func.id == callee.short]
            if len(sites) != 1:
                continue
            bound = df.bind_call(c, callee.params)
            cnames = {p_ for p_, a_ in bound.items() if isinstance(a_, ast.Name) and a_.id in counters}
            if cnames:
                mark(callee.node, cnames)
    res = own.analyse(body)
    bad = [s for s in res.sites if ("fresh", ) in s.origins and ("param", sp) in s.origins and not s.kind.startswith("update_array")]
    n_prod = sum(1 for n in df.body_nodes(body.node) if isinstance(n, ast.BinOp) and isinstance(n.op, ast.MatMult))
    if not n_prod:
        rep.undecided("basis-aliasing", construct, "no operator product in the loop body", locs=[idx.loc(body.module, body.node)])
        return
    for s in bad:
        rep.refuted("basis-aliasing", construct, f"{s.kind} on `{s.target_text}` whose storage is {show(s.origins)}: the operator product may be the operand itself "
                    f"({', '.join(own.matmul_may_alias)} returns it unchanged), a view of the basis in the loop state -- the basis vector is overwritten in place",
                    detail="in-place", locs=[idx.loc(body.module, s.node)])
    if not bad:
        rep.proved("basis-aliasing", construct, f"{n_prod} operator product(s) in the loop body; no in-place write on a value that may share storage with the loop state "
                   f"(operand-returning kinds: {', '.join(own.matmul_may_alias)})", locs=[idx.loc(body.module, body.node)])


def clip_certificate(fi, a):
    """is the iteration cap clipped to the dimension?  Some binding `c = min(P, a.shape[i])` of a parameter P (or of a straight-line
    version of it) exists, and P is not read un-clipped after it.  -> (ok, text of the clip or '-')"""
    import re
    params = set(fi.params)
    root = lambda n: re.sub(r"__\d+$", "", n)  # noqa: E731
    for st in df.body_nodes(fi.node, into_nested=False):
        if not (isinstance(st, ast.Assign) and isinstance(st.value, ast.Call) and nospace(st.value.func) == "min" and len(st.value.args) == 2):
            continue
        args = st.value.args
        for x, y in ((args[0], args[1]), (args[1], args[0])):
            if isinstance(y, ast.Name):
                y = df.resolve_value(fi.node, y)  # `n = A.shape[-1]` hoisted
            if isinstance(x, ast.Name) and root(x.id) in params and nospace(y).replace("[-1]", "[0]").replace("[-2]", "[0]").replace("[1]", "[0]") == f"{a}.shape[0]":
                tgt = st.targets[0].id if isinstance(st.targets[0], ast.Name) else None
                if tgt is None or root(tgt) != root(x.id):
                    continue
                raw = x.id
                later = [n for n in df.body_nodes(fi.node) if isinstance(n, ast.Name) and isinstance(n.ctx, ast.Load) and n.id == raw and n is not x
                         and getattr(n, "lineno", 0) > st.lineno]
                if tgt != raw and later:
                    return False, f"{ast.unparse(st)} but `{raw}` is still read un-clipped at line {getattr(later[0], '_src_line', later[0].lineno)}"
                return True, ast.unparse(st.value)
    return False, "-"


def breakdown_reference(idx, rep, fact, rule, construct, loop, counter_slot):
    """The breakdown test of a Krylov loop is relative: `beta_j > tol * beta_1`.  At the first iteration that is tested at all (the
    first ones are exempted by `| (counter <= K)`) the quantity tested must not BE the reference: `beta_1 > tol * beta_1` holds for any
    beta_1 > 0, so a Krylov space that is exhausted after one step (start vector = eigenvector: beta_1 is round-off, not 0) is never
    detected and the loop runs on round-off.  Decided on the condition: index of the tested entry at the first tested counter against
    the constant index of the reference, for the same state array (Lanczos), or through the body's write of the tested value into the
    array the reference is read from (Arnoldi)."""
    from sa import loop as lp
    cond, body = loop.cond, loop.body
    if cond is None or isinstance(cond, ast.Lambda) or body is None or isinstance(body, ast.Lambda):
        rep.undecided(rule, construct, "condition / body not nested functions")
        return
    rets = lp.return_exprs(cond)
    if not rets:
        rep.undecided(rule, construct, "condition returns nothing")
        return
    e = lp.inline_expr(idx, cond, rets[0])
    state = cond.params[0]
    slots = lp.state_slots(cond, state)
    counter = next((n for n, i in slots.items() if i == counter_slot or (isinstance(i, int) and i < 0 and counter_slot is not None and i == counter_slot - len([1 for _ in slots]))), None)
    if counter is None:
        # counter bound after a star (`*_, subdiag, i = state`): the last name
        counter = next((n for n, i in slots.items() if i == -1), None)
    # exemption `counter <= K`
    K = None
    for x in ast.walk(e):
        if isinstance(x, ast.Compare) and len(x.ops) == 1 and isinstance(x.left, ast.Name) and x.left.id == counter and isinstance(x.comparators[0], ast.Constant) \
                and isinstance(x.comparators[0].value, int):
            if isinstance(x.ops[0], ast.LtE):
                K = x.comparators[0].value
            elif isinstance(x.ops[0], ast.Lt):
                K = x.comparators[0].value - 1
    cmp_ = next((x for x in ast.walk(e) if isinstance(x, ast.Compare) and len(x.ops) == 1 and isinstance(x.ops[0], (ast.Gt, ast.GtE))
                 and isinstance(x.comparators[0], ast.BinOp) and isinstance(x.comparators[0].op, ast.Mult)), None)
    if counter is None or K is None or cmp_ is None:
        rep.undecided(rule, construct, "no relative test `x > tol * reference` with a first-iteration exemption found in the condition")
        return
    c0 = K + 1
    lhs = cmp_.left
    ref = next((s_ for s_ in (cmp_.comparators[0].left, cmp_.comparators[0].right) if any(isinstance(y, ast.Subscript) for y in ast.walk(s_))), None)

    def strip(x):
        while isinstance(x, ast.Attribute) and x.attr in ("real", "imag"):
            x = x.value
        return x

    def const_index(sub):
        """integer components of a subscript (Ellipsis / full slices dropped), with the counter replaced by c0; None if not constant"""
        elts = sub.slice.elts if isinstance(sub.slice, ast.Tuple) else [sub.slice]
        out = []
        for el in elts:
            if isinstance(el, ast.Constant) and el.value is Ellipsis:
                continue
            if isinstance(el, ast.Slice) and el.lower is None and el.upper is None:
                continue
            try:
                code = compile(ast.Expression(body=ast.fix_missing_locations(ast.parse(ast.unparse(el), mode="eval").body)), "<i>", "eval")
                out.append(int(eval(code, {"__builtins__": {}}, {counter: c0})))
            except Exception:
                return None
        return tuple(out)
    lhs, ref = strip(lhs), strip(ref) if ref is not None else None
    if not isinstance(ref, ast.Subscript) or not isinstance(ref.value, ast.Name):
        rep.undecided(rule, construct, "reference of the relative test is not an entry of a state array")
        return
    ref_idx = const_index(ref)
    same = None
    if isinstance(lhs, ast.Subscript) and isinstance(lhs.value, ast.Name):
        li = const_index(lhs)
        if li is not None and ref_idx is not None:
            same = lhs.value.id == ref.value.id and li == ref_idx
    elif isinstance(lhs, ast.Name) and lhs.id in slots:
        # a scalar series of the state: where does the body store the value it returns for that slot?
        bslots = lp.state_slots(body, body.params[0]) if body.params else {}
        bcounter = next((n for n, i in bslots.items() if i == counter_slot), None)
        rvals = [r.value for r in df.returns(body.node) if isinstance(r.value, ast.Tuple)]
        slot_i = slots[lhs.id]
        if rvals and bcounter is not None and isinstance(slot_i, int) and -len(rvals[0].elts) <= slot_i < len(rvals[0].elts):
            ret_txt = nospace(rvals[0].elts[slot_i])
            ups = [c for c in df.calls(body.node, into_nested=False) if df.is_xnp_call(c) == "update_array" and len(c.args) >= 3]
            inner = [c for c in ups if nospace(c.args[1]) == ret_txt and nospace(c.args[-1]) == f"{bcounter}+1"]
            outer = [c for c in ups if nospace(c.args[-1]) == bcounter and (any(c.args[1] is i_ for i_ in inner) or
                                                                            any(isinstance(c.args[1], ast.Name) and any(nospace(t_) == c.args[1].id for t_ in getattr(getattr(i_, "_parent", None), "targets", [])) for i_ in inner))]
            if inner and outer and ref_idx is not None and len(ref_idx) >= 2:
                # the value sits at [.., counter_before + 1, counter_before]; the condition sees counter = counter_before + 1 = c0
                same = ref_idx[-2:] == (c0, c0 - 1)
    if same is None:
        rep.undecided(rule, construct, f"`{ast.unparse(cmp_)[:70]}`: tested entry and reference could not be related at the first tested iteration")
    elif same:
        rep.refuted(rule, construct, f"`{ast.unparse(cmp_)[:80]}`: at the first iteration that is tested ({counter} = {c0}) the tested quantity IS the reference entry "
                    f"`{ast.unparse(ref)}` -- `x > tol * x` holds for every x > 0, so a Krylov space exhausted after the first step (start vector an eigenvector: x is round-off, "
                    "not 0) is not detected and the iteration continues on round-off", detail="self-reference", locs=[idx.loc(cond.module, cond.node)])
    else:
        rep.proved(rule, construct, f"`{ast.unparse(cmp_)[:80]}`: at the first tested iteration the tested entry differs from the reference", locs=[idx.loc(cond.module, cond.node)])
