"""Mutant corpus (DESIGN.md section 7).  Each entry breaks ONE construct with a realistic edit that
still parses (and passes the offline suite); the named check must then exit 1 with a new
refutation whose key contains `expect`.  Entries with silent=True are behaviour-preserving edits
that must not change the verdict.  Anchors are exact source fragments that must occur exactly
once; a stale anchor fails the self-test (the corpus must follow the tree)."""

OPS = "cola/ops/operators.py"
BASE = "cola/ops/operator_base.py"
FNS = "cola/fns.py"
ANN = "cola/annotations.py"
INV = "cola/linalg/inverse/inv.py"
PINV = "cola/linalg/inverse/pinv.py"
UNARY = "cola/linalg/unary/unary.py"
EIGS = "cola/linalg/eig/eigs.py"
LOGDET = "cola/linalg/logdet/logdet.py"
DIAG = "cola/linalg/trace/diag_trace.py"
DEST = "cola/linalg/trace/diagonal_estimation.py"
DEC = "cola/linalg/decompositions/decompositions.py"
LAN = "cola/linalg/decompositions/lanczos.py"
ARN = "cola/linalg/decompositions/arnoldi.py"
CG = "cola/linalg/inverse/cg.py"
NP = "cola/backends/np_fns.py"
TQ = "cola/utils/torch_tqdm.py"
SVD = "cola/linalg/svd/svd.py"
LOB = "cola/linalg/eig/lobpcg.py"
PI = "cola/linalg/eig/power_iteration.py"


def m(id, prop, expect, file, old, new, **kw):
    return dict(id=id, property=prop, expect=expect, edits=[dict(file=file, old=old, new=new)], **kw)


MUTANTS = [
    # ---------------------------------------------------------------- C01
    m("C01-kronsum-inplace", "C01", "no-narrowing-store@KronSum._matmat", OPS, "            out = out + xnp.moveaxis(Mev_front, 0, i)", "            out += xnp.moveaxis(Mev_front, 0, i)"),
    m("C01-dense-no-promotion", "C01", "result-dtype@Dense._matmat", OPS, "        dtype = self.xnp.promote_types(self.dtype, X.dtype)\n        return self.xnp.cast(self.A, dtype) @ self.xnp.cast(X, dtype)",
      "        return self.xnp.cast(self.A, X.dtype) @ X"),
    m("C01-tridiag-buffer", "C01", "no-narrowing-store@Tridiagonal._matmat", OPS, "        output = self.beta * X\n", "        output = xnp.zeros(shape=X.shape, dtype=X.dtype, device=xnp.get_device(X))\n        output += self.beta * X\n"),
    m("C01-moveaxis-not-inverse", "C01", "axis-pairing@Kronecker._matmat", OPS, "            ev = self.xnp.moveaxis(Mev_front, 0, i)", "            ev = self.xnp.moveaxis(Mev_front, i, 0)"),
    m("C01-kron-split-rows", "C01", "contraction@Kronecker._matmat:split", OPS, "    def _matmat(self, v):\n        ev = v.reshape(*[Mi.shape[-1] for Mi in self.Ms], -1)\n        for i, M in enumerate(self.Ms):\n            ev_front = self.xnp.moveaxis(ev, i, 0)",
      "    def _matmat(self, v):\n        ev = v.reshape(*[Mi.shape[-2] for Mi in self.Ms], -1)\n        for i, M in enumerate(self.Ms):\n            ev_front = self.xnp.moveaxis(ev, i, 0)"),
    m("C01-to-dense-eye-size", "C01", "generic-path@LinearOperator.to_dense", BASE, "return self.xnp.eye(self.shape[-2], self.shape[-2], dtype=self.dtype, device=self.device) @ self", "return self.xnp.eye(self.shape[-1], self.shape[-1], dtype=self.dtype, device=self.device) @ self"),
    m("C01-rmatmul-reshape", "C01", "generic-path@LinearOperator.__rmatmul__:1-D", BASE, "return self._rmatmat(X.reshape(1, -1)).reshape(-1)", "return self._rmatmat(X.reshape(-1, 1)).reshape(-1)"),
    m("C01-transpose-shape", "C01", "generic-path@Transpose.__init__:shape", OPS, "class Transpose(LinearOperator):\n    \"\"\" Transpose of a Linear Operator\"\"\"\n    def __init__(self, A):\n        self.A = A\n        super().__init__(dtype=A.dtype, shape=(A.shape[1], A.shape[0]))",
      "class Transpose(LinearOperator):\n    \"\"\" Transpose of a Linear Operator\"\"\"\n    def __init__(self, A):\n        self.A = A\n        super().__init__(dtype=A.dtype, shape=(A.shape[0], A.shape[1]))"),
    m("C01-blockdiag-roles", "C01", "contraction@BlockDiag._matmat", OPS, "i_end = i + multiplicity * M.shape[-1]", "i_end = i + multiplicity * M.shape[-2]"),

    m("C01-blockdiag-shape", "C01", "composite-metadata@BlockDiag.__init__:shape", OPS, "        shape = (sum(Mi.shape[-2] * c for Mi, c in zip(Ms, self.multiplicities)),\n                 sum(Mi.shape[-1] * c for Mi, c in zip(Ms, self.multiplicities)))",
      "        shape = (Ms[0].shape[-2] * len(Ms), Ms[0].shape[-1] * len(Ms))"),
    # ---------------------------------------------------------------- C20
    m("C20-row-vector-length", "C20", "canonical-vector@__getitem__:product1", BASE, "            case int(i):\n                ei = xnp.canonical(loc=i, shape=(self.shape[-2], ), dtype=self.dtype, device=self.device)", "            case int(i):\n                ei = xnp.canonical(loc=i, shape=(self.shape[-1], ), dtype=self.dtype, device=self.device)"),
    m("C20-col-vector-length", "C20", "canonical-vector@__getitem__:product2", BASE, "            case b, int(j):\n                ej = xnp.canonical(loc=j, shape=(self.shape[-1], ), dtype=self.dtype, device=self.device)", "            case b, int(j):\n                ej = xnp.canonical(loc=j, shape=(self.shape[-2], ), dtype=self.dtype, device=self.device)"),
    m("C20-self-A", "C20", "attribute-exists@LinearOperator.__getitem__:self.A", BASE, "                    out.append((self @ ej)[idx])", "                    out.append((self.A @ ej)[idx])"),
    m("C20-sliced-dtype", "C20", "slice-buffers@Sliced._matmat:dtype", OPS, "        dtype = xnp.promote_types(self.dtype, X.dtype)\n        Y = xnp.zeros(shape=(self.A.shape[-1], X.shape[-1]), dtype=dtype, device=device)", "        Y = xnp.zeros(shape=(self.A.shape[-1], X.shape[-1]), dtype=self.dtype, device=device)"),
    m("C20-sliced-scatter-swapped", "C20", "slice-buffers@Sliced._matmat", OPS, "        Y = xnp.update_array(Y, X, end_slices)\n        output = self.A @ Y\n        return output[start_slices]", "        Y = xnp.update_array(Y, X, start_slices)\n        output = self.A @ Y\n        return output[end_slices]"),
    m("C20-guard-mismatch", "C20", "guard-use@Sliced.__init__", OPS, "sl.cpu() if hasattr(sl, \"cpu\") else sl", "sl.cpu() if hasattr(sl, \"device\") else sl"),
    m("C20-slice-roundtrip", "C20", "slice-roundtrip@Sliced.__init__", OPS, "        self.slices = slices\n        slices = tuple([sl.cpu()", "        slices = tuple([slice(*sl.indices(n)) if isinstance(sl, slice) else sl for sl, n in zip(slices, A.shape)])\n        self.slices = slices\n        slices = tuple([sl.cpu()"),
    m("C20-shape-roles", "C20", "slice-shape@Sliced.__init__", OPS, "new_shape = np.arange(A.shape[0])[slices[0]].shape + np.arange(A.shape[1])[slices[1]].shape", "new_shape = np.arange(A.shape[0])[slices[1]].shape + np.arange(A.shape[1])[slices[0]].shape"),
    m("C20-arm-removed", "C20", "case-coverage@LinearOperator.__getitem__", BASE, "            case list(li), list(lj):", "            case tuple(li), tuple(lj):"),
    # ---------------------------------------------------------------- C02
    m("C02-product-matmat-order", "C02", "left-product@Product._rmatmat", OPS, "for M in self.Ms[::-1]:\n            v = M @ v", "for M in self.Ms:\n            v = M @ v"),
    m("C02-default-rmatmat-conj", "C02", "left-product@LinearOperator._rmatmat[SelfAdjoint]", BASE,
      "return self.xnp.conj(self._matmat(self.xnp.conj(XT)).T)", "return self._matmat(self.xnp.conj(XT)).T"),
    m("C02-triangular-flag", "C02", "transpose-rule@transpose(Triangular):lower", FNS, "return Triangular(A.A.T, lower=not A.lower)", "return Triangular(A.A.T, lower=A.lower)"),
    m("C02-triinv-flag", "C02", "left-product@TriangularInv._rmatmat", INV, "return self.xnp.solvetri(self.A.T, X.T, lower=not self.lower).T", "return self.xnp.solvetri(self.A.T, X.T, lower=self.lower).T"),
    m("C02-adjoint-conj", "C02", "wrapper-product@Adjoint._matmat", OPS, "return self.xnp.conj(self.A._rmatmat(self.xnp.conj(x).T)).T", "return self.A._rmatmat(self.xnp.conj(x).T).T"),
    m("C02-adjoint-dense", "C02", "transpose-rule@adjoint(Dense)", FNS, "return Dense(A.A.T.conj())", "return Dense(A.A.T)"),
    m("C02-double-transpose", "C02", "transpose-rule@transpose(Transpose)", FNS, "def transpose(A: Transpose):\n    return A.A", "def transpose(A: Transpose):\n    return A"),
    m("C02-sparse-transpose", "C02", "transpose-rule@transpose(Sparse)", FNS, "return Sparse(A.data, A.col_indices, A.row_indices, shape=(A.shape[1], A.shape[0]))",
      "return Sparse(A.data, A.col_indices, A.row_indices, shape=A.shape)"),
    m("C02-diag-rmatmat", "C02", "left-product@Diagonal._rmatmat", OPS, "return self.diag[None, :] * X", "return self.diag[:, None] * X"),
    m("C02-H-property", "C02", "property-delegates@LinearOperator.H", BASE, "return cola.fns.adjoint(self)", "return cola.fns.transpose(self)"),
    m("C02-silent-reversed-idiom", "C02", "", OPS, "for M in self.Ms[::-1]:\n            v = M @ v", "for M in reversed(self.Ms):\n            v = M @ v", silent=True),
    # ---------------------------------------------------------------- C03
    m("C03-sub-sign", "C03", "overload@LinearOperator.__sub__", BASE, "return self.__add__(-x)", "return self.__add__(x)"),
    m("C03-rtruediv", "C03", "overload@LinearOperator.__rtruediv__", BASE, "return cola.linalg.inv(self) * x", "return self.__mul__(1 / x)"),
    m("C03-rmatmul-order", "C03", "overload@LinearOperator.__rmatmul__", BASE, "return cola.fns.dot(X, self)", "return cola.fns.dot(self, X)"),
    m("C03-add-zero-guard", "C03", "overload@LinearOperator.__add__", BASE, "if isinstance(other, Number) and other == 0:", "if isinstance(other, Number):"),
    m("C03-dot-flatten-order", "C03", "rewrite-rule@dot(LinearOperator,Product)", FNS, "return Product(*((A, ) + B.Ms))", "return Product(*(B.Ms + (A, )))"),
    m("C03-kron-flatten-order", "C03", "rewrite-rule@kron(Kronecker,LinearOperator)", FNS, "return Kronecker(*(A.Ms + (B, )))", "return Kronecker(*((B, ) + A.Ms))"),
    m("C03-dot-identity-wrong-side", "C03", "rewrite-rule@dot(Identity,Any)", FNS, "def dot(A: Identity, B: Any):\n    return B", "def dot(A: Identity, B: Any):\n    return A"),
    m("C03-kron-diag-order", "C03", "rewrite-rule@kron(Diagonal,Diagonal)", FNS, "diag = (A.diag[:, None] * B.diag[None, :]).reshape(-1)", "diag = (A.diag[None, :] * B.diag[:, None]).reshape(-1)"),
    m("C03-scalar-merge", "C03", "rewrite-rule@mul(ScalarMul,Any)", FNS, "def mul(A: ScalarMul, c: Scalar):\n    return ScalarMul(A.c * c, A.shape, A.dtype, A.device)", "def mul(A: ScalarMul, c: Scalar):\n    return ScalarMul(A.c + c, A.shape, A.dtype, A.device)"),
    m("C03-scalar-side", "C03", "rewrite-rule@mul(LinearOperator,Any):scalar-shape", FNS, "S = ScalarMul(c, (A.shape[-2], A.shape[-2]), A.dtype, A.device)", "S = ScalarMul(c, (A.shape[-1], A.shape[-1]), A.dtype, A.device)"),
    m("C03-product-validation-dims", "C03", "shape-validation@Product.__init__", OPS, "if M1.shape[-1] != M2.shape[-2]:", "if M1.shape[-1] != M2.shape[-1]:"),
    m("C03-sum-validation-gone", "C03", "shape-validation@Sum.__init__", OPS, "        for M in Ms:\n            if M.shape != shape:\n                raise ValueError(f\"dimension mismatch {M.shape} vs {shape}\")\n", ""),
    m("C03-matmul-assert", "C03", "shape-validation@LinearOperator.__matmul__", BASE, "assert X.shape[0] == self.shape[-1], f\"dimension mismatch {self.shape} vs {X.shape}\"\n        if isinstance(X, LinearOperator):\n            return cola.fns.dot(self, X)",
      "assert X.shape[0] == self.shape[-2], f\"dimension mismatch {self.shape} vs {X.shape}\"\n        if isinstance(X, LinearOperator):\n            return cola.fns.dot(self, X)"),
    m("C03-sum-dtype", "C03", "composite-metadata@Sum.__init__:dtype", OPS, "                raise ValueError(f\"dimension mismatch {M.shape} vs {shape}\")\n        dtype = reduce(self.Ms[0].xnp.promote_types, (M.dtype for M in Ms))",
      "                raise ValueError(f\"dimension mismatch {M.shape} vs {shape}\")\n        dtype = Ms[0].dtype"),
    m("C03-silent-list-star", "C03", "", FNS, "return Kronecker(*[A, B])", "return Kronecker(A, B)", silent=True),
    # ---------------------------------------------------------------- C04
    m("C04-drop-precedence-lu", "C04", "unique-winner@inv(", INV, "@dispatch(precedence=-1)\ndef inv(A: LinearOperator, alg: LU):", "@dispatch\ndef inv(A: LinearOperator, alg: LU):"),
    m("C04-delete-base-case", "C04", "total@inv(", INV, "@dispatch(precedence=-1)\ndef inv(A: LinearOperator, alg: LU):", "@dispatch(precedence=-1)\ndef inv(A: Triangular, alg: LU):"),
    m("C04-tie-new-rule", "C04", "unique-winner@transpose(", FNS, "@dispatch\ndef transpose(A: Triangular):", "@dispatch\ndef transpose(A: Dense):\n    return Dense(A.A.T)\n\n\n@dispatch\ndef transpose(A: Triangular):"),
    dict(id="C04-auto-constructs-unknown", property="C04", expect="total@svd(", edits=[
        dict(file=SVD, old="from cola.linalg.decompositions.decompositions import Lanczos, get_slice", new="from cola.linalg.decompositions.decompositions import Lanczos, LanczosSVD, get_slice"),
        dict(file=SVD, old="alg = Lanczos(**alg.__dict__)", new="alg = LanczosSVD(**alg.__dict__)")]),
    # ---------------------------------------------------------------- C05
    m("C05-sum-keeps-unitary", "C05", "annot-rule@get_annotations(Sum)", ANN, "return intersect_annotations(A.Ms) - {Unitary, Stiefel}", "return intersect_annotations(A.Ms)"),
    m("C05-kron-union", "C05", "annot-rule@get_annotations(Kronecker)", ANN, "def intersect_annotations(ops: Iterable[LinearOperator]) -> Set[str]:\n    return reduce(lambda x, y: x & y,",
      "def intersect_annotations(ops: Iterable[LinearOperator]) -> Set[str]:\n    return reduce(lambda x, y: x | y,"),
    m("C05-product-keeps-psd", "C05", "annot-rule@get_annotations(Product)#PSD:Product[Dense]", ANN, "return intersect_annotations(A.Ms) & {Unitary, Stiefel}\n", "return intersect_annotations(A.Ms)\n"),
    m("C05-sliced-keeps-unitary", "C05", "annot-rule@get_annotations(Sliced)", ANN, "return A.A.annotations - {Unitary, Stiefel}", "return A.A.annotations"),
    m("C05-eigh-unitary", "C05", "output-annotation@eig(LinearOperator,int,str,Eigh)", EIGS, "return eig_vals[eig_slice], Stiefel(lazify(eig_vecs[:, eig_slice]))", "return eig_vals[eig_slice], Unitary(lazify(eig_vecs[:, eig_slice]))"),
    m("C05-eig-stiefel", "C05", "output-annotation@eig(LinearOperator,int,str,Eig)", EIGS, "return eig_vals[eig_slice], lazify(eig_vecs[:, eig_slice])\n", "return eig_vals[eig_slice], Stiefel(lazify(eig_vecs[:, eig_slice]))\n"),
    m("C05-wrapper-mutates", "C05", "declare-annotation@WrapMeta.__call__", ANN, "new_obj.annotations = obj.annotations | {self}", "obj.annotations.add(self)\n        new_obj.annotations = obj.annotations"),
    m("C05-merge-order", "C05", "annot-merge@LinearOperator.__init__", BASE, "        self.annotations = cola.annotations.get_annotations(self)\n        # TODO: reform matrices with the new annotations?\n        self.annotations.update(annotations)",
      "        self.annotations = set(annotations)\n        self.annotations = cola.annotations.get_annotations(self)"),
    # ---------------------------------------------------------------- C06
    m("C06-product-not-reversed", "C06", "inverse-rule@inv(Product,Algorithm)", INV, "output = reversed([inv(M, alg) for M in A.Ms])", "output = [inv(M, alg) for M in A.Ms]"),
    m("C06-kron-reversed", "C06", "inverse-rule@inv(Kronecker,Algorithm)", INV, "return Kronecker(*[inv(M, alg) for M in A.Ms])", "return Kronecker(*reversed([inv(M, alg) for M in A.Ms]))"),
    # a generator helper is the comprehension it stands for: the faithful form stays silent, the reversed one is refuted
    m("C06-silent-kron-generator-helper", "C06", "", INV, "@dispatch\ndef inv(A: Kronecker, alg: Algorithm):\n    return Kronecker(*[inv(M, alg) for M in A.Ms])",
      "def _each_inverse(Ms, alg):\n    for M in Ms:\n        yield inv(M, alg)\n\n\n@dispatch\ndef inv(A: Kronecker, alg: Algorithm):\n    return Kronecker(*_each_inverse(A.Ms, alg))", silent=True),
    m("C06-kron-generator-helper-reversed", "C06", "inverse-rule@inv(Kronecker,Algorithm)", INV, "@dispatch\ndef inv(A: Kronecker, alg: Algorithm):\n    return Kronecker(*[inv(M, alg) for M in A.Ms])",
      "def _each_inverse(Ms, alg):\n    for M in Ms[::-1]:\n        yield inv(M, alg)\n\n\n@dispatch\ndef inv(A: Kronecker, alg: Algorithm):\n    return Kronecker(*_each_inverse(A.Ms, alg))"),
    m("C06-blockdiag-multiplicities", "C06", "inverse-rule@inv(BlockDiag,Algorithm)", INV, "return BlockDiag(*[inv(M, alg) for M in A.Ms], multiplicities=A.multiplicities)", "return BlockDiag(*[inv(M, alg) for M in A.Ms])"),
    m("C06-cholesky-transpose", "C06", "inverse-rule@inv(LinearOperator,Cholesky)", INV, "return inv(L.H) @ inv(L)", "return inv(L.T) @ inv(L)"),
    m("C06-lu-order", "C06", "inverse-rule@inv(LinearOperator,LU)", INV, "return inv(U) @ inv(L) @ inv(P)", "return inv(P) @ inv(L) @ inv(U)"),
    m("C06-unitary-transpose", "C06", "inverse-rule@inv(LinearOperator,Algorithm)[cond]", INV, "return Unitary(A.H)", "return Unitary(A.T)"),
    m("C06-scalar-not-reciprocal", "C06", "inverse-rule@inv(ScalarMul,Algorithm)", INV, "return ScalarMul(1 / A.c, shape=A.shape, dtype=A.dtype, device=A.c.device)", "return ScalarMul(A.c, shape=A.shape, dtype=A.dtype, device=A.c.device)"),
    m("C06-permutation-no-argsort", "C06", "inverse-rule@inv(Permutation,Algorithm)", INV, "def inv(A: Permutation, alg: Algorithm):\n    return Permutation(A.xnp.argsort(A.perm), A.dtype)", "def inv(A: Permutation, alg: Algorithm):\n    return Permutation(A.perm, A.dtype)"),
    m("C06-alg-dropped", "C06", "alg-forwarded@inv(Kronecker,Algorithm)", INV, "return Kronecker(*[inv(M, alg) for M in A.Ms])", "return Kronecker(*[inv(M) for M in A.Ms])"),
    m("C06-solve-alg", "C06", "alg-forwarded@solve", INV, "return inv(A, alg) @ b", "return inv(A) @ b"),
    m("C06-auto-cg-nonpsd", "C06", "auto-rule@inv(LinearOperator,Auto):guard-implication", INV, "        case (False, False):\n            alg = GMRES(**alg.__dict__)", "        case (False, False):\n            alg = CG(**alg.__dict__)"),
    m("C06-auto-hole", "C06", "auto-rule@inv(LinearOperator,Auto):exhaustive", INV, "        case (False, True):\n            alg = LU()\n", ""),
    m("C06-lazy-args", "C06", "lazy-inverse@IterativeOperatorWInfo._matmat", "cola/linalg/algorithm_base.py", "Y, self.info = self.alg(self.A, X)", "Y, self.info = self.alg(X, self.A)"),
    m("C06-lstsq-shape", "C06", "inverse-rule@LSTSQSolve.__init__:shape", PINV, "super().__init__(A.dtype, (A.shape[-1], A.shape[-2]))", "super().__init__(A.dtype, (A.shape[-2], A.shape[-1]))"),
    m("C06-pinv-diag", "C06", "inverse-rule@pinv(Diagonal,Algorithm)", PINV, "def pinv(A: Diagonal, alg: Algorithm):\n    return Diagonal(1. / A.diag)", "def pinv(A: Diagonal, alg: Algorithm):\n    return Diagonal(A.diag)"),
    # ---------------------------------------------------------------- C07
    m("C07-kron-exponent", "C07", "rule-algebra@slogdet(Kronecker", LOGDET, "scaled_logdets = [logdets[i] * prod / sizes[i] for i in range(len(sizes))]", "scaled_logdets = [logdets[i] * sizes[i] for i in range(len(sizes))]"),
    m("C07-kron-sign-parity", "C07", "rule-algebra@slogdet(Kronecker", LOGDET, "scaled_signs = [signs[i]**(prod / sizes[i]) for i in range(len(sizes))]", "scaled_signs = [signs[i]**((prod // sizes[i]) % 2) for i in range(len(sizes))]"),
    m("C07-silent-kron-floordiv", "C07", "", LOGDET, "scaled_logdets = [logdets[i] * prod / sizes[i] for i in range(len(sizes))]", "scaled_logdets = [logdets[i] * (prod // sizes[i]) for i in range(len(sizes))]", silent=True),
    m("C07-blockdiag-mult", "C07", "rule-algebra@slogdet(BlockDiag", LOGDET, "scaled_logdets = sum(ld * n for ld, n in zip(logdets, A.multiplicities))", "scaled_logdets = sum(ld for ld, n in zip(logdets, A.multiplicities))"),
    m("C07-scalar-size", "C07", "rule-algebra@slogdet(ScalarMul", LOGDET, "return phase**n, n * xnp.log(xnp.abs(c))", "return phase, xnp.log(xnp.abs(c))"),
    m("C07-diag-logabs", "C07", "rule-algebra@slogdet(Diagonal", LOGDET, "    mag = xnp.abs(A.diag)\n    phase = A.diag / mag\n    return xnp.prod(phase), xnp.sum(xnp.log(mag))", "    mag = xnp.abs(A.diag)\n    phase = A.diag / mag\n    return xnp.prod(phase), xnp.abs(xnp.sum(xnp.log(mag)))"),
    m("C07-triangular-phase", "C07", "rule-algebra@slogdet(Triangular", LOGDET, "    diag = xnp.diag(A.A)\n    mag = xnp.abs(diag)\n    phase = diag / mag\n    return xnp.prod(phase), xnp.sum(xnp.log(mag))",
      "    diag = xnp.diag(A.A)\n    mag = xnp.abs(diag)\n    phase = diag / mag\n    return xnp.sum(phase), xnp.sum(xnp.log(mag))"),
    m("C07-cholesky-factor2", "C07", "rule-algebra@slogdet(LinearOperator,Cholesky", LOGDET, "return sign * A.xnp.conj(sign), 2 * logdet", "return sign * A.xnp.conj(sign), logdet"),
    m("C07-lu-order", "C07", "rule-algebra@slogdet(LinearOperator,LU", LOGDET, "return slogdet(P @ L @ U, log_alg, trace_alg)", "return slogdet(L @ U, log_alg, trace_alg)"),
    m("C07-product-sum", "C07", "rule-algebra@slogdet(Product", LOGDET, "    return product(signs), sum(logdets)\n\n\n@dispatch\ndef slogdet(A: Identity", "    return product(signs), product(logdets)\n\n\n@dispatch\ndef slogdet(A: Identity"),
    m("C07-logdet-component", "C07", "logdet@logdet", LOGDET, "_, ld = slogdet(A, log_alg=log_alg, trace_alg=trace_alg)\n    return ld", "ld, _ = slogdet(A, log_alg=log_alg, trace_alg=trace_alg)\n    return ld"),
    m("C07-logdet-swaps-algs", "C07", "forwarded@logdet", LOGDET, "_, ld = slogdet(A, log_alg=log_alg, trace_alg=trace_alg)", "_, ld = slogdet(A, log_alg=trace_alg, trace_alg=log_alg)"),
    m("C07-auto-cholesky-nonpsd", "C07", "auto-rule@slogdet(LinearOperator,Auto,Algorithm):guard-implication", LOGDET, "    elif not is_PSD and small:\n        log_alg = LU()", "    elif not is_PSD and small:\n        log_alg = Cholesky()"),
    # ---------------------------------------------------------------- C08
    m("C08-kron-no-refusal", "C08", "k-guard@diag(Kronecker", DIAG, "    assert k == 0, \"Need to verify correctness of rule for off diagonal case\"\n    ds = [diag(M, k, alg) for M in A.Ms]\n    # compute outer product of the diagonals\n    slices = [[None] * i + [slice(None)] + [None] * (len(ds) - i - 1) for i in range(len(ds))]\n    return product(",
      "    ds = [diag(M, k, alg) for M in A.Ms]\n    # compute outer product of the diagonals\n    slices = [[None] * i + [slice(None)] + [None] * (len(ds) - i - 1) for i in range(len(ds))]\n    return product("),
    m("C08-blockdiag-no-refusal", "C08", "k-guard@diag(BlockDiag", DIAG, "    assert k == 0, \"Havent filled this case yet, need to pad with 0s\"\n", ""),
    m("C08-diagonal-ignores-k", "C08", "k-guard@diag(Diagonal", DIAG, "def diag(A: Diagonal, k: int, alg: Algorithm):\n    if k == 0:\n        return A.diag\n    else:\n        return A.xnp.zeros((A.shape[0] - abs(k), ), A.dtype, device=A.device)",
      "def diag(A: Diagonal, k: int, alg: Algorithm):\n    return A.diag"),
    m("C08-offdiag-length", "C08", "diag-length@diag(Identity", DIAG, "def diag(A: Identity, k: int, alg: Algorithm):\n    if k == 0:\n        return A.xnp.ones((A.shape[0], ), A.dtype, device=A.device)\n    else:\n        return A.xnp.zeros((A.shape[0] - abs(k), ), A.dtype, device=A.device)",
      "def diag(A: Identity, k: int, alg: Algorithm):\n    if k == 0:\n        return A.xnp.ones((A.shape[0], ), A.dtype, device=A.device)\n    else:\n        return A.xnp.zeros((A.shape[0] - k, ), A.dtype, device=A.device)"),
    m("C08-sum-drops-k", "C08", "forwarded@diag(Sum", DIAG, "out = sum(diag(M, k, alg) for M in A.Ms)", "out = sum(diag(M, 0, alg) for M in A.Ms)"),
    m("C08-kron-axis-order", "C08", "rule-algebra@diag(Kronecker", DIAG, "    slices = [[None] * i + [slice(None)] + [None] * (len(ds) - i - 1) for i in range(len(ds))]\n    return product(", "    slices = [[None] * (len(ds) - i - 1) + [slice(None)] + [None] * i for i in range(len(ds))]\n    return product("),
    m("C08-kronsum-product", "C08", "rule-algebra@diag(KronSum", DIAG, "return sum([d[tuple(s)] for d, s in zip(ds, slices)]).reshape(-1)", "return product([d[tuple(s)] for d, s in zip(ds, slices)]).reshape(-1)"),
    m("C08-blockdiag-mult", "C08", "rule-algebra@diag(BlockDiag", DIAG, "diags = [[diag(M, k, alg)] * m for M, m in zip(A.Ms, A.multiplicities)]", "diags = [[diag(M, k, alg)] for M, m in zip(A.Ms, A.multiplicities)]"),
    m("C08-dense-k", "C08", "rule-algebra@diag(Dense", DIAG, "return xnp.diag(A.A, diagonal=k)", "return xnp.diag(A.A)"),
    m("C08-trace-kron-sum", "C08", "trace-rule@trace(Kronecker", DIAG, "return product([trace(M, alg) for M in A.Ms])", "return sum([trace(M, alg) for M in A.Ms])"),
    m("C08-trace-offdiag", "C08", "trace-rule@trace(LinearOperator", DIAG, "return diag(A, 0, alg).sum()", "return diag(A, 1, alg).sum()"),
    m("C08-auto-swapped", "C08", "auto-selection@diag(LinearOperator,int,Auto)", DIAG, "exact_faster = tol < 1 / np.sqrt(10 * np.prod(A.shape))", "exact_faster = tol > 1 / np.sqrt(10 * np.prod(A.shape))"),
    m("C08-exact-drops-k", "C08", "base-case@Exact.__call__", DEST, "return exact_diag(A, k, self.bs)", "return exact_diag(A, 0, self.bs)"),
    m("C08-base-case-args", "C08", "base-case@diag(LinearOperator,int,Exact|Hutch|HutchPP)", DIAG, "    return alg(A, k)", "    return alg(A, 0)"),
    # ---------------------------------------------------------------- C10
    m("C10-get-slice-swapped", "C10", "selection@get_slice", DEC, "    if which == \"SM\":\n        eig_slice = slice(0, num, None)\n    elif which == \"LM\":", "    if which == \"LM\":\n        eig_slice = slice(0, num, None)\n    elif which == \"SM\":"),
    m("C10-identity-order-stays-proved-silent", "C10", "", EIGS, "eig_vals = xnp.ones(shape=(A.shape[0], ), dtype=A.dtype, device=A.device)\n    eig_vecs = A.to_dense()", "eig_vals = xnp.ones(shape=(A.shape[-1], ), dtype=A.dtype, device=A.device)\n    eig_vecs = A.to_dense()", silent=True),
    m("C10-slice-unpaired", "C10", "slice-pairing@eig(LinearOperator,int,str,Eigh)", EIGS, "return eig_vals[eig_slice], Stiefel(lazify(eig_vecs[:, eig_slice]))", "return eig_vals[eig_slice], Stiefel(lazify(eig_vecs[eig_slice, :]))"),
    m("C10-perm-rows", "C10", "paired-permutation@eig(Diagonal,int,str,Algorithm):sorted_ind", EIGS, "eig_vecs = I_like(A).to_dense()[:, sorted_ind]", "eig_vecs = I_like(A).to_dense()[sorted_ind, :]"),
    # the argsort of eigh's (ascending) values is the identity: leaving the vectors un-permuted changes nothing -- must stay silent
    m("C10-silent-identity-permutation-unpaired", "C10", "", LAN, "V = Q @ lazify(eigvectors[:, idx])", "V = Q @ lazify(eigvectors)", silent=True),
    m("C10-magnitude-permutation-unpaired", "C10", "paired-permutation@lanczos_eigs:", LAN, "    idx = xnp.argsort(eigvals, axis=-1)\n    V = Q @ lazify(eigvectors[:, idx])", "    idx = xnp.argsort(xnp.abs(eigvals), axis=-1)\n    V = Q @ lazify(eigvectors)"),
    m("C10-eigmin-lm", "C10", "eig-wrapper@eigmin", EIGS, "es, vs = eig(A, k=1, which='SM', alg=alg)", "es, vs = eig(A, k=1, which='LM', alg=alg)"),
    m("C10-power-contract", "C10", "power-iteration@eig(LinearOperator,int,str,PowerIteration)", EIGS, "    assert k == 1 and which == 'LM', \"PowerIteration only valid for k=1 and which='LM'\"\n", ""),
    m("C10-fix-makes-proved-silent", "C10", "", EIGS, "    sorted_ind = xnp.argsort(A.diag)\n    eig_vals = A.diag[sorted_ind]", "    sorted_ind = xnp.argsort(xnp.abs(A.diag))\n    eig_vals = A.diag[sorted_ind]", silent=True),
    m("C10-auto-eigh-nonsa", "C10", "auto-rule@eig(LinearOperator,int,str,Auto):guard-implication", EIGS, "    elif not SA and not small:\n        algorithm = Arnoldi(**alg.__dict__)", "    elif not SA and not small:\n        algorithm = Lanczos(**alg.__dict__)"),
    # ---------------------------------------------------------------- C09
    m("C09-eig-uses-adjoint", "C09", "dense-path@apply_unary(Callable,LinearOperator,Eig)", UNARY, "return V @ D @ inv(V)", "return V @ D @ V.H"),
    m("C09-eigh-transpose", "C09", "dense-path@apply_unary(Callable,LinearOperator,Eigh)", UNARY, "return V @ D @ V.H", "return V @ D @ V.T"),
    m("C09-eigh-uses-eig", "C09", "dense-path@apply_unary(Callable,LinearOperator,Eigh)", UNARY, "eigs, V = A.xnp.eigh(Adense)", "eigs, V = A.xnp.eig(Adense)"),
    m("C09-diag-forgets-f", "C09", "function-rule@apply_unary(Callable,Diagonal,Algorithm)", UNARY, "return Diagonal(f(A.diag))", "return Diagonal(A.diag)"),
    m("C09-blockdiag-multiplicities", "C09", "function-rule@apply_unary(Callable,BlockDiag,Algorithm)", UNARY, "return BlockDiag(*fAs, multiplicities=A.multiplicities)", "return BlockDiag(*fAs)"),
    m("C09-scalar-rule", "C09", "function-rule@apply_unary(Callable,ScalarMul,Algorithm)", UNARY, "return f(A.c) * I_like(A)", "return f(A.c) * A"),
    m("C09-transpose-rule", "C09", "function-rule@apply_unary(Callable,Transpose,Algorithm)", UNARY, "return Transpose(apply_unary(f, A.A, alg))", "return apply_unary(f, A.A, alg)"),
    m("C09-exp-kronsum", "C09", "function-rule@exp(KronSum,Algorithm)", UNARY, "return Kronecker(*[exp(a, alg) for a in A.Ms])", "return KronSum(*[exp(a, alg) for a in A.Ms])"),
    m("C09-isqrt-exponent", "C09", "function-rule@isqrt(LinearOperator,Algorithm)", UNARY, "return pow(A, -0.5, alg)", "return pow(A, 0.5, alg)"),
    m("C09-log-uses-exp", "C09", "function-rule@log(LinearOperator,Algorithm)", UNARY, "return apply_unary(A.xnp.log, A, alg)", "return apply_unary(A.xnp.exp, A, alg)"),
    m("C09-pow-alg-map", "C09", "pow-shortcut@pow:k=-1:algorithm-map", UNARY, "                case Eigh():\n                    new_alg = Cholesky()", "                case Eigh():\n                    new_alg = LU()"),
    m("C09-pow-zero", "C09", "pow-shortcut@pow:k=0", UNARY, "        if k == 0:\n            return I_like(A)", "        if k == 0:\n            return A"),
    m("C09-auto-lanczos-nonpsd", "C09", "auto-rule@apply_unary(Callable,LinearOperator,Auto):guard-implication", UNARY, "    elif not psd and small:\n        alg = Eig()", "    elif not psd and small:\n        alg = Eigh()"),
    m("C09-pow-kron-alg", "C09", "forwarded@pow(Kronecker,Number,Algorithm)", UNARY, "return Kronecker(*[pow(a, alpha, alg) for a in A.Ms])", "return Kronecker(*[pow(a, alpha) for a in A.Ms])"),
    # ---------------------------------------------------------------- C11
    m("C11-symmetrise-transpose", "C11", "base-case@cholesky(LinearOperator)", DEC, "return Triangular(A.xnp.cholesky(A.to_dense()), lower=True)", "M = A.to_dense()\n    M = (M + M.T) / 2\n    return Triangular(A.xnp.cholesky(M), lower=True)"),
    m("C11-silent-symmetrise-adjoint", "C11", "", DEC, "return Triangular(A.xnp.cholesky(A.to_dense()), lower=True)", "M = A.to_dense()\n    M = (M + M.conj().T) / 2\n    return Triangular(A.xnp.cholesky(M), lower=True)", silent=True),
    m("C11-cholesky-upper-flag", "C11", "base-case@cholesky(LinearOperator):lower", DEC, "return Triangular(A.xnp.cholesky(A.to_dense()), lower=True)", "return Triangular(A.xnp.cholesky(A.to_dense()), lower=False)"),
    m("C11-kron-reversed", "C11", "structural-factor@cholesky(Kronecker)", DEC, "return Kronecker(*[cholesky(Ai) for Ai in A.Ms])", "return Kronecker(*[cholesky(Ai) for Ai in reversed(A.Ms)])"),
    m("C11-blockdiag-mult", "C11", "structural-factor@cholesky(BlockDiag)", DEC, "return BlockDiag(*[cholesky(Ai) for Ai in A.Ms], multiplicities=A.multiplicities)", "return BlockDiag(*[cholesky(Ai) for Ai in A.Ms])"),
    m("C11-plu-roles-swapped", "C11", "plu-roles@plu(Kronecker)", DEC, "return Kronecker(*P), Kronecker(*L), Kronecker(*U)", "return Kronecker(*P), Kronecker(*U), Kronecker(*L)"),
    m("C11-plu-flags", "C11", "base-case@plu(LinearOperator)", DEC, "P, L, U = Permutation(p), Triangular(L, lower=True), Triangular(U, lower=False)", "P, L, U = Permutation(p), Triangular(L, lower=True), Triangular(U, lower=True)"),
    m("C11-plu-blockdiag-mult", "C11", "plu-roles@plu(BlockDiag)", DEC, "BD = lambda *args: BlockDiag(*args, multiplicities=A.multiplicities)  # noqa", "BD = lambda *args: BlockDiag(*args)  # noqa"),
    m("C11-plu-diag", "C11", "plu-roles@plu(Diagonal|ScalarMul)", DEC, "return cola.ops.I_like(A), S, S", "return cola.ops.I_like(A), A, S"),
    # ---------------------------------------------------------------- C12
    m("C12-cap-or", "C12", "loop-cap@cg:loop", CG, "flag = (res_meet) & (k < max_iters)", "flag = (res_meet) | (k < max_iters)"),
    m("C12-cap-le", "C12", "loop-cap@cg:loop", CG, "flag = (res_meet) & (k < max_iters)", "flag = (res_meet) & (k <= max_iters)"),
    m("C12-counter-frozen", "C12", "loop-cap@cg:loop", CG, "return (x1, k + 1, r1, p1, alpha, beta, gamma1)", "return (x1, k, r1, p1, alpha, beta, gamma1)"),
    m("C12-stop-all", "C12", "stopping-test@cg:cond", CG, "res_meet = xnp.any(rs > tol)", "res_meet = xnp.all(rs > tol)"),
    m("C12-tolerance", "C12", "stopping-test@cg:tolerance", CG, "tol = tol * xnp.norm(r0, axis=-2, keepdims=True) + tol", "tol = tol * xnp.norm(r0, axis=-2, keepdims=True)"),
    m("C12-scaling-back", "C12", "scale-homogeneity@cg:solution", CG, "return state[0] * mult, state[2] * mult, state[1], info", "return state[0], state[2] * mult, state[1], info"),
    m("C12-axis-dropped", "C12", "column-independence@update_alpha", CG, "denom = xnp.sum(xnp.conj(p) * Ap, axis=-2, keepdims=True)", "denom = xnp.sum(xnp.conj(p) * Ap, keepdims=True)"),
    m("C12-norm-axis", "C12", "column-independence@take_cg_step", CG, "has_converged = xnp.norm(r0, axis=-2, keepdims=True) < eps", "has_converged = xnp.norm(r0, axis=-1, keepdims=True) < eps"),
    m("C12-count-fixed-silent", "C12", "", TQ, "            info['iterations'] += 1\n            return cond_fun(state)\n\n        out = while_loop(newcond, body_fun, init_val)",
      "            return cond_fun(state)\n\n        def newbody(state):\n            info['iterations'] += 1\n            return body_fun(state)\n\n        out = while_loop(newcond, newbody, init_val)", silent=True),
    # ---------------------------------------------------------------- C14
    m("C14-no-clip", "C14", "loop-cap@lanczos:clip", LAN, "    max_iters = min(max_iters, A.shape[0])\n    if start_vector is None:\n        key = xnp.PRNGKey(42) if key is None else key\n        start_vector = xnp.randn(A.shape[0]", "    if start_vector is None:\n        key = xnp.PRNGKey(42) if key is None else key\n        start_vector = xnp.randn(A.shape[0]"),
    m("C14-cap-lt", "C14", "loop-cap@lanczos_fact:loop", LAN, "        is_not_max = i <= max_iters\n        is_large = (subdiag[..., i - 1].real > tol * subdiag[..., 1].real) | (i <= 1)", "        is_not_max = i < max_iters\n        is_large = (subdiag[..., i - 1].real > tol * subdiag[..., 1].real) | (i <= 1)"),
    m("C14-asymmetric-T", "C14", "symmetric-T@lanczos:Tridiagonal", LAN, "        T = Tridiagonal(alpha, beta, alpha)", "        T = Tridiagonal(alpha, beta, xnp.conj(alpha) * 1)"),
    m("C14-offdiag-not-norm", "C14", "nonneg-offdiagonal@lanczos_fact:subdiag", LAN, "subdiag = xnp.update_array(subdiag, xnp.norm(V[..., i + 1], axis=-1), ..., i)", "subdiag = xnp.update_array(subdiag, xnp.sum(V[..., i + 1] * V[..., i], axis=-1), ..., i)"),
    m("C14-start-not-normalised", "C14", "first-column@init_lanczos", LAN, "    rhs = rhs / norm\n    V = xnp.update_array(V, xnp.copy(rhs.T), ..., 1)\n    return V, diag, subdiag, i", "    V = xnp.update_array(V, xnp.copy(rhs.T), ..., 1)\n    return V, diag, subdiag, i"),
    m("C14-gram-conj-side", "C14", "projection@do_gram", LAN, "aux = xnp.sum(xnp.conj(vec) * xnp.expand(new_vec, -1), axis=-2, keepdims=True)", "aux = xnp.sum(vec * xnp.expand(xnp.conj(new_vec), -1), axis=-2, keepdims=True)"),
    m("C14-silent-ritz-identity-permutation-unpaired", "C14", "", LAN, "    V = Q @ lazify(eigvectors[:, idx])\n    eigvals = eigvals[..., idx]", "    V = Q @ lazify(eigvectors)\n    eigvals = eigvals[..., idx]", silent=True),
    m("C14-ritz-descending", "C14", "ritz-pairs@lanczos_eigs", LAN, "    idx = xnp.argsort(eigvals, axis=-1)\n    V = Q @ lazify(eigvectors[:, idx])", "    idx = xnp.argsort(-eigvals, axis=-1)\n    V = Q @ lazify(eigvectors[:, idx])"),
    m("C14-ritz-magnitude-unpaired", "C14", "ritz-pairs@lanczos_eigs", LAN, "    idx = xnp.argsort(eigvals, axis=-1)\n    V = Q @ lazify(eigvectors[:, idx])", "    idx = xnp.argsort(xnp.abs(eigvals), axis=-1)\n    V = Q @ lazify(eigvectors)"),
    m("C14-trim-sizes", "C14", "trimming@lanczos:trim", LAN, "alpha, beta, Q = alpha[..., :iters - 1], beta[..., :iters], Q[..., :iters]", "alpha, beta, Q = alpha[..., :iters], beta[..., :iters], Q[..., :iters]"),
    # ---------------------------------------------------------------- C15
    m("C15-no-clip", "C15", "loop-cap@arnoldi_fact:clip", ARN, "    xnp = A.xnp\n    max_iters = min(max_iters, A.shape[0])\n\n    def cond_fun(state):\n        _, H, idx, norm = state", "    xnp = A.xnp\n\n    def cond_fun(state):\n        _, H, idx, norm = state"),
    m("C15-cap-le", "C15", "loop-cap@arnoldi_fact:loop", ARN, "        is_not_max = idx < max_iters\n        is_large = (norm > tol * H[:, 1, 0].real) | (idx <= 0)", "        is_not_max = idx <= max_iters\n        is_large = (norm > tol * H[:, 1, 0].real) | (idx <= 0)"),
    dict(id="C15-empty-buffer", property="C15", expect="buffers@init_arnoldi", edits=[
        dict(file=NP, old="def zeros(shape, dtype, device=None):\n    del device\n    return np.zeros(shape=shape, dtype=dtype)", new="def zeros(shape, dtype, device=None):\n    del device\n    return np.zeros(shape=shape, dtype=dtype)\n\n\ndef empty(shape, dtype, device=None):\n    return np.empty(shape=shape, dtype=dtype)"),
        dict(file=ARN, old="    H = xnp.zeros(shape=(rhs.shape[-1], max_iters + 1, max_iters), dtype=dtype, device=device)\n    Q = xnp.zeros(shape=(rhs.shape[-1], rhs.shape[-2], max_iters + 1), dtype=dtype, device=device)\n    norm = xnp.norm(rhs, axis=-2)",
             new="    H = xnp.empty(shape=(rhs.shape[-1], max_iters + 1, max_iters), dtype=dtype, device=device)\n    Q = xnp.zeros(shape=(rhs.shape[-1], rhs.shape[-2], max_iters + 1), dtype=dtype, device=device)\n    norm = xnp.norm(rhs, axis=-2)")]),
    m("C15-floor-tiny", "C15", "normalisation-floor@arnoldi_fact:normalise", ARN, "new_vec /= xnp.clip(norm, a_min=tol / 2.)", "new_vec /= xnp.clip(norm, a_min=xnp.finfo(norm.dtype).tiny)"),
    m("C15-no-floor", "C15", "normalisation-floor@arnoldi_fact:normalise", ARN, "new_vec /= xnp.clip(norm, a_min=tol / 2.)", "new_vec /= norm"),
    m("C15-subdiag-not-norm", "C15", "nonneg-subdiagonal@arnoldi_fact:subdiagonal", ARN, "h_vec = xnp.update_array(h_vec, norm[:, 0], ..., idx + 1)", "h_vec = xnp.update_array(h_vec, new_vec[:, 0], ..., idx + 1)"),
    m("C15-mgs-conj-side", "C15", "projection@", ARN, "angle = xnp.sum(xnp.conj(Q[..., jdx]) * new_vec, axis=-1)", "angle = xnp.sum(Q[..., jdx] * xnp.conj(new_vec), axis=-1)"),
    m("C15-eigs-trim", "C15", "eigs-pairing@arnoldi_eigs", ARN, "    Q, H = Q[:, :-1], H[:-1]\n    xnp = A.xnp", "    Q, H = Q, H[:-1]\n    xnp = A.xnp"),
    m("C15-start-not-normalised", "C15", "first-column@init_arnoldi", ARN, "    norm = xnp.norm(rhs, axis=-2)\n    rhs = rhs / norm\n    Q = xnp.update_array(Q, xnp.copy(rhs.T), ..., 0)", "    norm = xnp.norm(rhs, axis=-2)\n    Q = xnp.update_array(Q, xnp.copy(rhs.T), ..., 0)"),
    # ---------------------------------------------------------------- C16
    m("C16-pairing", "C16", "pairing@svd(LinearOperator,int,str,DenseSVD)", SVD, "    idx = A.xnp.argsort(Sigma, axis=-1)\n    return Unitary(Dense(U[:, idx])), Diagonal(Sigma[..., idx]), Unitary(Dense(V[:, idx]))",
      "    idx = A.xnp.argsort(Sigma, axis=-1)\n    idx2 = A.xnp.argsort(-Sigma, axis=-1)\n    return Unitary(Dense(U[:, idx])), Diagonal(Sigma[..., idx2]), Unitary(Dense(V[:, idx]))"),
    m("C16-gram-transpose", "C16", "gram-operator@svd(LinearOperator,int,str,Lanczos)", SVD, "eig_vals, V, _ = lanczos_eigs(A.H @ A, **alg.__dict__)", "eig_vals, V, _ = lanczos_eigs(A.T @ A, **alg.__dict__)"),
    m("C16-backsubst-wide", "C16", "back-substitution@svd(LinearOperator,int,str,Lanczos)", SVD, "V = Unitary(lazify((inv(Sigma) @ U.H @ A).to_dense().conj().T))", "V = Unitary(lazify((inv(Sigma) @ U.H @ A).to_dense().T))"),
    m("C16-backsubst-tall", "C16", "back-substitution@svd(LinearOperator,int,str,LOBPCG)", SVD, "    Sigma = Diagonal(xnp.sqrt(eig_vals[eig_slice]))\n    U = Unitary(lazify((A @ V @ inv(Sigma)).to_dense()))\n    return U, Sigma, V",
      "    Sigma = Diagonal(xnp.sqrt(eig_vals[eig_slice]))\n    U = Unitary(lazify((A @ V @ Sigma).to_dense()))\n    return U, Sigma, V"),
    m("C16-sigma-eigvals", "C16", "sigma-sign@svd(LinearOperator,int,str,LOBPCG)", SVD, "    Sigma = Diagonal(xnp.sqrt(eig_vals[eig_slice]))\n    U = Unitary(lazify((A @ V @ inv(Sigma)).to_dense()))\n    return U, Sigma, V",
      "    Sigma = Diagonal(xnp.sqrt(eig_vals[eig_slice]))\n    U = Unitary(lazify((A @ V @ inv(Sigma)).to_dense()))\n    return U, A, V"),
    m("C16-auto-hole", "C16", "auto-rule@svd(LinearOperator,int,str,Auto):exhaustive", SVD, "        case False:\n            alg = Lanczos(**alg.__dict__)\n    return svd(A, k, which, alg)", "        case None:\n            alg = Lanczos(**alg.__dict__)\n    return svd(A, k, which, alg)"),
    # ---------------------------------------------------------------- C17
    m("C17-drop-set-state", "C17", "rng-bracket@np_fns.randn", NP, "    z = np.random.randn(*shape).astype(dtype)\n    np.random.set_state(old_state)\n", "    z = np.random.randn(*shape).astype(dtype)\n"),
    m("C17-early-return", "C17", "rng-bracket@np_fns.randn", NP, "    z = np.random.randn(*shape).astype(dtype)\n", "    z = np.random.randn(*shape).astype(dtype)\n    if dtype is None:\n        return z\n"),
    m("C17-global-draw", "C17", "rng-bracket@power_iteration", PI, "v = xnp.randn(*A.shape[-1:], dtype=A.dtype, device=A.device, key=key)", "v = xnp.array(np.random.randn(*A.shape[-1:]), dtype=A.dtype, device=A.device)\n    import numpy as np"),
    m("C17-identity-next-key", "C17", "key-derivation@np_fns.next_key", NP, "def next_key(key):\n    return sha_hash(key)", "def next_key(key):\n    return key"),
    m("C17-key-not-advanced", "C17", "key-advance@", DEST, "return i + 1, diag_sum + estimator.sum(-1), diag_sumsq + (estimator**2).sum(-1), key", "return i + 1, diag_sum + estimator.sum(-1), diag_sumsq + (estimator**2).sum(-1), state[3]"),
    m("C17-time-key", "C17", "key-chain@", LAN, "key = xnp.PRNGKey(42) if key is None else key\n        start_vector = xnp.randn(A.shape[0]", "import time\n        key = xnp.PRNGKey(int(time.time())) if key is None else key\n        start_vector = xnp.randn(A.shape[0]"),
    m("C17-cap-or", "C17", "loop-cap@hutchinson_diag_estimate", DEST, "return (state[0] == 0) | ((state[0] < max_iters) & (err(state) > tol))", "return (state[0] == 0) | ((state[0] < max_iters) | (err(state) > tol))"),
    m("C17-alias-called", "C17", "rng-alias@np_fns.normal", LAN, "start_vector = xnp.randn(A.shape[0], dtype=A.dtype, device=A.device, key=key)", "start_vector = xnp.normal(size=(A.shape[0], ))"),
    m("C17-unseeded-generator", "C17", "rng-local-seed@lobpcg", LOB, "rng = np.random.default_rng(42 if key is None else np.asarray(key))", "rng = np.random.default_rng()"),
    m("C17-key-not-forwarded", "C17", "key-forward@PowerIteration.__call__", PI, "return power_iteration(A, tol=self.tol, max_iter=self.max_iter, pbar=self.pbar, key=self.key)", "return power_iteration(A, tol=self.tol, max_iter=self.max_iter, pbar=self.pbar)"),
    # ---------------------------------------------------------------- C18
    m("C18-cg-inplace-rhs", "C18", "public-root-param-write@", CG, "    b_norm = do_safe_div(b, mult, xnp=xnp)", "    b /= xnp.where(mult == 0, 1.0, mult)\n    b_norm = b"),
    m("C18-sum-inplace", "C18", "public-root-param-write@Sum._matmat", OPS, "    def _matmat(self, v):\n        return sum(M @ v for M in self.Ms)", "    def _matmat(self, v):\n        out = self.Ms[0] @ v\n        for M in self.Ms[1:]:\n            out += M @ v\n        return out"),
    m("C18-lanczos-start-vector", "C18", "public-root-param-write@", LAN, "    rhs = rhs / norm\n    V = xnp.update_array(V, xnp.copy(rhs.T), ..., 1)\n    return V, diag, subdiag, i", "    rhs /= norm\n    V = xnp.update_array(V, xnp.copy(rhs.T), ..., 1)\n    return V, diag, subdiag, i"),
    m("C18-annotation-add", "C18", "declare-annotation@WrapMeta.__call__", ANN, "new_obj.annotations = obj.annotations | {self}", "obj.annotations.add(self)\n        new_obj.annotations = obj.annotations"),
    m("C18-identity-to", "C18", "operator-mutation@Identity.to", OPS, "        Op = Identity(shape=self.shape, dtype=self.dtype)\n        Op.device = device\n        return Op", "        self.device = device\n        return self"),
    m("C18-dense-rmatmat-moves", "C18", "operator-mutation@Dense._rmatmat", OPS, "        dtype = self.xnp.promote_types(self.dtype, X.dtype)\n        return self.xnp.cast(X, dtype) @ self.xnp.cast(self.A, dtype)",
      "        dtype = self.xnp.promote_types(self.dtype, X.dtype)\n        self.A = self.xnp.cast(self.A, dtype)\n        return self.xnp.cast(X, dtype) @ self.A"),
    m("C18-flatten-encoding", "C18", "flatten-protocol@writer-reader:encoding", BASE, "                aux.append((key, ))", "                aux.append((key, None))"),
    m("C18-unflatten-reader", "C18", "flatten-protocol@writer-reader:encoding", BASE, "            if len(keyv) == 1:\n                fields[keyv[0]] = next(child_iter)", "            if len(keyv) == 2:\n                fields[keyv[0]] = next(child_iter)"),
    m("C18-gmres-x0", "C18", "operator-mutation@GMRES.__call__", "cola/linalg/inverse/gmres.py", "    soln = x0 + pred\n    return soln, infodict", "    x0 += pred\n    return x0, infodict"),
    m("C18-silent-fresh-buffer", "C18", "", OPS, "        out = 0 * ev\n", "        out = xnp_zeros_like(ev) if False else 0 * ev\n", silent=True),
    # ---------------------------------------------------------------- C19
    m("C19-kron-matmat-dense", "C19", "matrix-free-product@Kronecker._matmat", OPS, "    def _matmat(self, v):\n        ev = v.reshape(*[Mi.shape[-1] for Mi in self.Ms], -1)\n        for i, M in enumerate(self.Ms):\n            ev_front = self.xnp.moveaxis(ev, i, 0)",
      "    def _matmat(self, v):\n        if len(self.Ms) > 4:\n            return self.to_dense() @ v\n        ev = v.reshape(*[Mi.shape[-1] for Mi in self.Ms], -1)\n        for i, M in enumerate(self.Ms):\n            ev_front = self.xnp.moveaxis(ev, i, 0)"),
    m("C19-diag-matmat-dense", "C19", "matrix-free-product@Diagonal._matmat", OPS, "        return self.diag[:, None] * X\n", "        return self.xnp.diag(self.diag) @ X\n"),
    m("C19-delete-structural-rule", "C19", "structural-rule@cholesky(Kronecker)", DEC, "@dispatch\ndef cholesky(A: Kronecker):", "@dispatch\ndef cholesky(A: Permutation):"),
    m("C19-drop-default", "C19", "default-arity@exp(KronSum)", UNARY, "def exp(A: KronSum, alg: Algorithm = Auto()):", "def exp(A: KronSum, alg: Algorithm):"),
    m("C19-cond-outranks", "C19", "structural-rule@apply_unary(", UNARY, "@dispatch(precedence=-1)\ndef apply_unary(f: Callable, A: LinearOperator, alg: Eigh):\n    assert A.isa(SelfAdjoint), \"Eigh only valid for SelfAdjoint, wrap in cola.SelfAdjoint if desired\"",
      "@dispatch(cond=lambda f, A, alg: A.isa(SelfAdjoint))\ndef apply_unary(f: Callable, A: LinearOperator, alg: Eigh):"),
    m("C19-diag-rule-densifies", "C19", "structural-rule@diag(Kronecker)", DIAG, "    ds = [diag(M, k, alg) for M in A.Ms]\n    # compute outer product of the diagonals\n    slices = [[None] * i + [slice(None)] + [None] * (len(ds) - i - 1) for i in range(len(ds))]\n    return product(",
      "    if len(A.Ms) > 3:\n        return A.xnp.diag(A.to_dense(), diagonal=k)\n    ds = [diag(M, k, alg) for M in A.Ms]\n    # compute outer product of the diagonals\n    slices = [[None] * i + [slice(None)] + [None] * (len(ds) - i - 1) for i in range(len(ds))]\n    return product("),
    # ---------------------------------------------------------------- round-2 strengthenings (hand-written twins of the seeded changes and their silent counterparts)
    m("C08-probe-stops-early", "C08", "probe-coverage@exact_diag:loop", DEST, "    diag_sum = 0.\n    for i in range(0, A.shape[0], bs):", "    diag_sum = 0.\n    for i in range(0, A.shape[0] - abs(k), bs):"),
    m("C08-probe-silent-local-dim", "C08", "", DEST, "    diag_sum = 0.\n    for i in range(0, A.shape[0], bs):", "    diag_sum = 0.\n    n_cols = A.shape[-1]\n    for i in range(0, n_cols, bs):", silent=True),
    m("C02-adjoint-subclasses-transpose", "C02", "kind-hierarchy@Adjoint<Transpose", OPS, "class Adjoint(LinearOperator):", "class Adjoint(Transpose):"),
    m("C20-sliced-shortcut", "C20", "slice-buffers@Sliced._matmat:shortcut", OPS, "        start_slices, end_slices = self.slices\n        device = xnp.get_device(X)\n        dtype = xnp.promote_types(self.dtype, X.dtype)\n        Y = xnp.zeros(shape=(self.A.shape[-1], X.shape[-1]), dtype=dtype, device=device)",
      "        start_slices, end_slices = self.slices\n        if self.shape[-1] == self.A.shape[-1]:\n            return (self.A @ X)[start_slices]\n        device = xnp.get_device(X)\n        dtype = xnp.promote_types(self.dtype, X.dtype)\n        Y = xnp.zeros(shape=(self.A.shape[-1], X.shape[-1]), dtype=dtype, device=device)"),
    m("C12-cap-clamped-to-n", "C12", "scale-homogeneity@cg:cap-origin", CG, "    xnp = A.xnp\n    mult = xnp.norm(b, axis=-2, keepdims=True)", "    xnp = A.xnp\n    max_iters = min(max_iters, A.shape[-1])\n    mult = xnp.norm(b, axis=-2, keepdims=True)"),
    m("C12-absolute-floor", "C12", "scale-homogeneity@cg:stopping-test", CG, "init_val = initialize(A=A, b=b_norm, preconditioner=preconditioner, x0=x0, xnp=xnp)", "init_val = initialize(A=A, b=b, preconditioner=preconditioner, x0=x0, xnp=xnp)"),
    m("C12-solution-not-rescaled", "C12", "scale-homogeneity@cg:solution", CG, "    return state[0] * mult, state[2] * mult, state[1], info", "    return state[0], state[2] * mult, state[1], info"),
    m("C12-silent-relative-only", "C12", "", CG, "    tol = tol * xnp.norm(r0, axis=-2, keepdims=True) + tol", "    tol = tol * (xnp.norm(r0, axis=-2, keepdims=True) + 1.)", silent=True),
    m("C06-cg-absolute-floor", "C06", "relative-tolerance@cg:stopping-test", CG, "init_val = initialize(A=A, b=b_norm, preconditioner=preconditioner, x0=x0, xnp=xnp)", "init_val = initialize(A=A, b=b, preconditioner=preconditioner, x0=x0, xnp=xnp)"),
    m("C14-buffers-typed-by-start-vector", "C14", "buffer-dtype@lanczos->init_lanczos", LAN, "    init_val = init_lanczos(xnp, rhs, max_iters=max_iters, dtype=A.dtype)", "    init_val = init_lanczos(xnp, rhs, max_iters=max_iters, dtype=rhs.dtype)"),
    m("C14-silent-promoted-buffers", "C14", "", LAN, "    init_val = init_lanczos(xnp, rhs, max_iters=max_iters, dtype=A.dtype)", "    init_val = init_lanczos(xnp, rhs, max_iters=max_iters, dtype=xnp.promote_types(A.dtype, rhs.dtype))", silent=True),
    m("C15-buffers-typed-by-start-vector", "C15", "buffer-dtype@arnoldi->init_arnoldi", ARN, "        init_val = init_arnoldi(xnp, rhs, max_iters=max_iters, dtype=A.dtype)", "        init_val = init_arnoldi(xnp, rhs, max_iters=max_iters, dtype=rhs.dtype)"),
    dict(id="C07-adjoint-sign-not-conjugated", property="C07", expect="rule-algebra@slogdet(Adjoint|Transpose", edits=[
        dict(file=LOGDET, old="from cola.ops.operators import (\n    BlockDiag,", new="from cola.ops.operators import (\n    Adjoint,\n    Transpose,\n    BlockDiag,"),
        dict(file=LOGDET, old="@dispatch\ndef slogdet(A: Identity, log_alg: Algorithm, trace_alg: Algorithm):", new="@dispatch\ndef slogdet(A: Transpose | Adjoint, log_alg: Algorithm, trace_alg: Algorithm):\n    return slogdet(A.A, log_alg, trace_alg)\n\n\n@dispatch\ndef slogdet(A: Identity, log_alg: Algorithm, trace_alg: Algorithm):")]),
    dict(id="C07-silent-transpose-rule", property="C07", expect="", silent=True, edits=[
        dict(file=LOGDET, old="from cola.ops.operators import (\n    BlockDiag,", new="from cola.ops.operators import (\n    Transpose,\n    BlockDiag,"),
        dict(file=LOGDET, old="@dispatch\ndef slogdet(A: Identity, log_alg: Algorithm, trace_alg: Algorithm):", new="@dispatch\ndef slogdet(A: Transpose, log_alg: Algorithm, trace_alg: Algorithm):\n    return slogdet(A.A, log_alg, trace_alg)\n\n\n@dispatch\ndef slogdet(A: Identity, log_alg: Algorithm, trace_alg: Algorithm):")]),
    m("C09-masked-spectrum", "C09", "dense-path@apply_unary(Callable,LinearOperator,Eigh)", UNARY, "    D = Diagonal(f(eigs))\n    return V @ D @ V.H", "    D = Diagonal(A.xnp.where(A.xnp.abs(eigs) > 1e-12, f(eigs), A.xnp.zeros_like(eigs)))\n    return V @ D @ V.H"),
    m("C10-symmetrised-with-transpose", "C10", "decomposition-operand@eig(LinearOperator,int,str,Eigh)", EIGS, "    eig_vals, eig_vecs = A.xnp.eigh(A.to_dense())\n    return eig_vals[eig_slice], Stiefel(", "    dense = A.to_dense()\n    dense = (dense + dense.T) / 2\n    eig_vals, eig_vecs = A.xnp.eigh(dense)\n    return eig_vals[eig_slice], Stiefel("),
    m("C10-silent-symmetrised-with-adjoint", "C10", "", EIGS, "    eig_vals, eig_vecs = A.xnp.eigh(A.to_dense())\n    return eig_vals[eig_slice], Stiefel(", "    dense = A.to_dense()\n    dense = (dense + dense.conj().T) / 2\n    eig_vals, eig_vecs = A.xnp.eigh(dense)\n    return eig_vals[eig_slice], Stiefel(", silent=True),
    # ---------------------------------------------------------------- round-4 strengthenings: silent twins of seeded changes
    m("C14-silent-demorgan-correct", "C14", "", LAN, "        is_large = (subdiag[..., i - 1].real > tol * subdiag[..., 1].real) | (i <= 1)\n        flag = is_not_max & xnp.any(is_large)",
      "        is_small = (subdiag[..., i - 1].real <= tol * subdiag[..., 1].real) & (i > 1)\n        flag = is_not_max & ~xnp.all(is_small)", silent=True),
    m("C14-demorgan-strict", "C14", "breakdown-stops@lanczos_fact:cond", LAN, "        is_large = (subdiag[..., i - 1].real > tol * subdiag[..., 1].real) | (i <= 1)\n        flag = is_not_max & xnp.any(is_large)",
      "        is_small = (subdiag[..., i - 1].real < tol * subdiag[..., 1].real) & (i > 1)\n        flag = is_not_max & ~xnp.all(is_small)"),
    m("C16-silent-gram-by-shape", "C16", "", PINV, "    M = A.H @ A\n    cons = get_precision(xnp, A.dtype) * max(A.shape)\n    Op = IterativeOperatorWInfo(M, alg)\n    return PSD(Op + cons * I_like(M)) @ A.H",
      "    cons = get_precision(xnp, A.dtype) * max(A.shape)\n    wide = A.shape[-2] < A.shape[-1]\n    M = A @ A.H if wide else A.H @ A\n    Op = PSD(IterativeOperatorWInfo(M, alg) + cons * I_like(M))\n    return A.H @ Op if wide else Op @ A.H", silent=True),
    m("C16-gram-wrong-side", "C16", "gram-range@pinv(LinearOperator,CG):tall", PINV, "    M = A.H @ A\n    cons = get_precision(xnp, A.dtype) * max(A.shape)\n    Op = IterativeOperatorWInfo(M, alg)\n    return PSD(Op + cons * I_like(M)) @ A.H",
      "    cons = get_precision(xnp, A.dtype) * max(A.shape)\n    left = A.shape[-2] < A.shape[-1]\n    M = A.H @ A if left else A @ A.H\n    Op = PSD(IterativeOperatorWInfo(M, alg) + cons * I_like(M))\n    return Op @ A.H if left else A.H @ Op"),
    m("C02-silent-permutation-rmatmat", "C02", "", OPS, "    def _matmat(self, v):\n        return v[self.perm]\n", "    def _matmat(self, v):\n        return v[self.perm]\n\n    def _rmatmat(self, X):\n        return X[:, self.xnp.argsort(self.perm)]\n", silent=True),
    m("C02-permutation-rmatmat-forward", "C02", "left-product@Permutation._rmatmat", OPS, "    def _matmat(self, v):\n        return v[self.perm]\n", "    def _matmat(self, v):\n        return v[self.perm]\n\n    def _rmatmat(self, X):\n        return X[:, self.perm]\n"),
    m("C15-ritz-mask", "C15", "eigs-pairing@arnoldi_eigs:complete", ARN, "    eigvals, vs = xnp.eig(H.to_dense())\n    eigvectors = Q @ lazify(vs)", "    eigvals, vs = xnp.eig(H.to_dense())\n    keep = xnp.abs(eigvals) > tol\n    eigvals, vs = eigvals[keep], vs[:, keep]\n    eigvectors = Q @ lazify(vs)"),
    # ---- rules added after the fifth round of seeded changes
    m("C10-eig-vectors-cast-real", "C10", "complex-eigenvectors@eig(LinearOperator,int,str,Eig)", EIGS, "    eig_vals, eig_vecs = A.xnp.eig(A.to_dense())\n    return eig_vals[eig_slice], lazify(eig_vecs[:, eig_slice])",
      "    eig_vals, eig_vecs = A.xnp.eig(A.to_dense())\n    eig_vecs = A.xnp.array(eig_vecs, dtype=A.dtype, device=A.device)\n    return eig_vals[eig_slice], lazify(eig_vecs[:, eig_slice])"),
    m("C10-silent-eigh-vectors-cast", "C10", "", EIGS, "    eig_vals, eig_vecs = A.xnp.eigh(A.to_dense())\n    return eig_vals[eig_slice], Stiefel(lazify(eig_vecs[:, eig_slice]))",
      "    eig_vals, eig_vecs = A.xnp.eigh(A.to_dense())\n    eig_vecs = A.xnp.array(eig_vecs, dtype=A.dtype, device=A.device)\n    return eig_vals[eig_slice], Stiefel(lazify(eig_vecs[:, eig_slice]))", silent=True),
    m("C14-trim-by-condition-count", "C14", "trimming@lanczos:count", LAN, "    alpha, beta, Q, iters = alpha[..., 1:-1], beta, vec[..., 1:-1], i - 1", "    alpha, beta, Q, iters = alpha[..., 1:-1], beta, vec[..., 1:-1], info['iterations']"),
    m("C14-silent-trim-by-condition-count-minus-one", "C14", "", LAN, "    alpha, beta, Q, iters = alpha[..., 1:-1], beta, vec[..., 1:-1], i - 1", "    alpha, beta, Q, iters = alpha[..., 1:-1], beta, vec[..., 1:-1], info['iterations'] - 1",
      silent=True),
    m("C14-trim-counter-not-offset", "C14", "trimming@lanczos:count", LAN, "    alpha, beta, Q, iters = alpha[..., 1:-1], beta, vec[..., 1:-1], i - 1", "    alpha, beta, Q, iters = alpha[..., 1:-1], beta, vec[..., 1:-1], i"),
    m("C20-index-modulo-other-axis", "C20", "index-alias@LinearOperator.__getitem__:axis", BASE, "                    ej = xnp.canonical(loc=jdx, shape=(self.shape[-1], ), dtype=self.dtype, device=self.device)",
      "                    ej = xnp.canonical(loc=jdx % self.shape[-2], shape=(self.shape[-1], ), dtype=self.dtype, device=self.device)"),
    m("C20-silent-index-modulo-own-axis", "C20", "", BASE, "                    ej = xnp.canonical(loc=jdx, shape=(self.shape[-1], ), dtype=self.dtype, device=self.device)",
      "                    ej = xnp.canonical(loc=jdx % self.shape[-1], shape=(self.shape[-1], ), dtype=self.dtype, device=self.device)", silent=True),
    m("C06-auto-options-dropped", "C06", "auto-options@inv(LinearOperator,Auto):CG", INV, "            alg = CG(**alg.__dict__)", "            alg = CG()"),
    m("C06-silent-auto-options-copied", "C06", "", INV, "            alg = CG(**alg.__dict__)", "            alg = CG(**dict(alg.__dict__))", silent=True),
    m("C18-declare-updates-shared-set", "C18", "declare-annotation@WrapMeta.__call__", ANN, "        new_obj.annotations = obj.annotations | {self}", "        new_obj.annotations.update({self})"),
    m("C18-silent-declare-copies-set", "C18", "", ANN, "        new_obj.annotations = obj.annotations | {self}", "        new_obj.annotations = set(obj.annotations) | {self}", silent=True),
    m("C12-reciprocal-of-guard", "C12", "finite-reciprocal@do_safe_div", CG, "    output = num / denom\n    return output", "    output = num * (1.0 / denom)\n    return output"),
    m("C12-silent-division-by-guard", "C12", "", CG, "    output = num / denom\n    return output", "    output = num / (1.0 * denom)\n    return output", silent=True),
    # ---- rules added after the sixth round of seeded changes
    m("C01-kernel-uniform-last-block", "C01", "tiling@Kernel._matmat", OPS, "            fit1 = None if idx + 1 == self.iters1 else (idx + 1) * self.block_size1", "            fit1 = (idx + 1) * self.block_size1"),
    dict(id="C01-silent-kernel-ceil-blocks", property="C01", expect="", silent=True, edits=[
        dict(file=OPS, old="            fit1 = None if idx + 1 == self.iters1 else (idx + 1) * self.block_size1", new="            fit1 = (idx + 1) * self.block_size1"),
        dict(file=OPS, old="        self.iters1 = self.shape[0] // block_size1", new="        self.iters1 = -(-self.shape[0] // block_size1)")]),
    m("C15-runner-early-exit", "C15", "runner-transparency@while_loop_winfo", TQ, "            info['iterations'] += 1\n            return cond_fun(state)",
      "            info['iterations'] += 1\n            if error <= tol:\n                return False\n            return cond_fun(state)"),
    m("C15-silent-runner-result-local", "C15", "", TQ, "            info['iterations'] += 1\n            return cond_fun(state)",
      "            info['iterations'] += 1\n            keep_going = cond_fun(state)\n            return keep_going", silent=True),
    m("C17-stale-probe-alias", "C17", "probe-consistency@hutchinson_diag_estimate", DEST, "        z = xnp.randn(A.shape[0], bs, dtype=A.dtype, key=key, device=A.device)\n        if rand == 'rademacher':\n            z = xnp.sign(z)\n        z2 = xnp.roll(z, -k, 0)",
      "        z = raw = xnp.randn(A.shape[0], bs, dtype=A.dtype, key=key, device=A.device)\n        if rand == 'rademacher':\n            z = xnp.sign(z)\n        z2 = xnp.roll(raw, -k, 0)"),
    m("C17-silent-probe-alias-after-sign", "C17", "", DEST, "        z = xnp.randn(A.shape[0], bs, dtype=A.dtype, key=key, device=A.device)\n        if rand == 'rademacher':\n            z = xnp.sign(z)\n        z2 = xnp.roll(z, -k, 0)",
      "        z = xnp.randn(A.shape[0], bs, dtype=A.dtype, key=key, device=A.device)\n        if rand == 'rademacher':\n            z = xnp.sign(z)\n        probes = z\n        z2 = xnp.roll(probes, -k, 0)", silent=True),
    m("C01-operand-cast-to-operator-dtype", "C01", "operand-cast@Dense._matmat", OPS, "        return self.xnp.cast(self.A, dtype) @ self.xnp.cast(X, dtype)", "        return self.xnp.cast(self.A, dtype) @ self.xnp.cast(X, self.dtype)"),
    m("C19-sliced-densifies-parent", "C19", "matrix-free-product@Sliced.to_dense:parent", OPS, "    def __str__(self):\n        has_length = hasattr(self.slices[0], '__len__')", "    def to_dense(self):\n        return self.A.to_dense()[self.slices[0]][:, self.slices[1]]\n\n    def __str__(self):\n        has_length = hasattr(self.slices[0], '__len__')"),
    # ---------------------------------------------------------------- round 7
    m("C05-gram-arity-dropped", "C05", "annot-rule@get_annotations(Product)", ANN, "    if issubclass(type(A), inferred_self_adjoint_types) and are_the_same(A.Ms[0], A.Ms[1]):", "    if len(A.Ms) > 1 and are_the_same(A.Ms[0], A.Ms[1]):"),
    m("C05-silent-gram-arity-explicit", "C05", "", ANN, "    if issubclass(type(A), inferred_self_adjoint_types) and are_the_same(A.Ms[0], A.Ms[1]):",
      "    if len(A.Ms) == 2 and issubclass(type(A), inferred_self_adjoint_types) and are_the_same(A.Ms[0], A.Ms[1]):", silent=True),
    m("C05-sliced-any-position", "C05", "annot-rule@get_annotations(Sliced)", ANN, "    elif (A.slices[0] == A.slices[1]).all():", "    elif (A.slices[0] == A.slices[1]).any():"),
    m("C05-silent-sliced-no-difference", "C05", "", ANN, "    elif (A.slices[0] == A.slices[1]).all():", "    elif not (A.slices[0] != A.slices[1]).any():", silent=True),
    m("C05-gram-on-longer-side", "C05", "gram-side@svd(LinearOperator,int,str,Lanczos)", SVD, "    if A.shape[1] <= A.shape[0]:\n        eig_vals, V, _ = lanczos_eigs(A.H @ A, **alg.__dict__)",
      "    if A.shape[0] <= A.shape[1]:\n        eig_vals, V, _ = lanczos_eigs(A.H @ A, **alg.__dict__)"),
    m("C05-silent-gram-side-mirrored-test", "C05", "", SVD, "    if A.shape[1] <= A.shape[0]:\n        eig_vals, V, _ = lanczos_eigs(A.H @ A, **alg.__dict__)",
      "    if A.shape[0] >= A.shape[1]:\n        eig_vals, V, _ = lanczos_eigs(A.H @ A, **alg.__dict__)", silent=True),
    m("C03-shape-check-after-operator-dispatch", "C03", "shape-validation@LinearOperator.__matmul__:operator-operand", BASE,
      "        assert X.shape[0] == self.shape[-1], f\"dimension mismatch {self.shape} vs {X.shape}\"\n        if isinstance(X, LinearOperator):\n            return cola.fns.dot(self, X)\n        elif len(X.shape) == 1:",
      "        if isinstance(X, LinearOperator):\n            return cola.fns.dot(self, X)\n        assert X.shape[0] == self.shape[-1], f\"dimension mismatch {self.shape} vs {X.shape}\"\n        if len(X.shape) == 1:"),
    m("C03-silent-shape-check-in-both-branches", "C03", "", BASE,
      "        assert X.shape[0] == self.shape[-1], f\"dimension mismatch {self.shape} vs {X.shape}\"\n        if isinstance(X, LinearOperator):\n            return cola.fns.dot(self, X)\n        elif len(X.shape) == 1:",
      "        if isinstance(X, LinearOperator):\n            assert X.shape[0] == self.shape[-1], f\"dimension mismatch {self.shape} vs {X.shape}\"\n            return cola.fns.dot(self, X)\n        assert X.shape[0] == self.shape[-1], f\"dimension mismatch {self.shape} vs {X.shape}\"\n        if len(X.shape) == 1:", silent=True),
    m("C19-probe-from-long-side", "C19", "probe-side@LinearOperator.to_dense", BASE, "        if 8 * self.shape[-2] < self.shape[-1]:", "        if 8 * self.shape[-1] < self.shape[-2]:"),
    m("C19-silent-probe-branches-swapped", "C19", "", BASE,
      "        if 8 * self.shape[-2] < self.shape[-1]:\n            return self.xnp.eye(self.shape[-2], self.shape[-2], dtype=self.dtype, device=self.device) @ self\n        else:\n            return self @ self.xnp.eye(self.shape[-1], self.shape[-1], dtype=self.dtype, device=self.device)",
      "        if 8 * self.shape[-2] >= self.shape[-1]:\n            return self @ self.xnp.eye(self.shape[-1], self.shape[-1], dtype=self.dtype, device=self.device)\n        else:\n            return self.xnp.eye(self.shape[-2], self.shape[-2], dtype=self.dtype, device=self.device) @ self", silent=True),
    m("C17-cap-one-block-too-many", "C17", "loop-cap@hutchinson_diag_estimate:loop", DEST, "        return (state[0] == 0) | ((state[0] < max_iters) & (err(state) > tol))", "        return (state[0] == 0) | ((state[0] <= max_iters) & (err(state) > tol))"),
    m("C14-stop-when-one-column-done", "C14", "batch-quantifier@lanczos_fact:cond", LAN, "        flag = is_not_max & xnp.any(is_large)", "        flag = is_not_max & xnp.all(is_large)"),
    m("C14-silent-quantifier-demorgan", "C14", "", LAN, "        flag = is_not_max & xnp.any(is_large)", "        flag = is_not_max & ~xnp.all(~is_large)", silent=True),
    m("C15-stop-when-one-column-done", "C15", "batch-quantifier@arnoldi_fact:cond", ARN, "        is_large = (norm > tol * H[:, 1, 0].real) | (idx <= 0)\n        return is_not_max & xnp.any(is_large)",
      "        is_large = (norm > tol * H[:, 1, 0].real) | (idx <= 0)\n        return is_not_max & xnp.all(is_large)"),
    m("C14-recurrence-in-place", "C14", "basis-aliasing@lanczos_fact:body", LAN, "        new_vec = new_vec - aux\n", "        new_vec -= aux\n"),
    m("C14-silent-recurrence-in-place-on-a-copy", "C14", "", LAN, "        new_vec = new_vec - aux\n", "        new_vec = xnp.copy(new_vec)\n        new_vec -= aux\n", silent=True),
    m("C15-sweep-in-place", "C15", "basis-aliasing@arnoldi_fact:body", ARN, "            new_vec = new_vec - h_vec[..., [jdx]] * Q[..., jdx]", "            new_vec -= h_vec[..., [jdx]] * Q[..., jdx]"),
    m("C15-buffers-for-the-unclipped-cap", "C15", "loop-cap@arnoldi:alloc-clip", ARN, "    max_iters = min(max_iters, A.shape[-1])\n    if start_vector is None:\n        key = xnp.PRNGKey(42) if key is None else key\n        start_vector = xnp.randn(A.shape[-1]",
      "    if start_vector is None:\n        key = xnp.PRNGKey(42) if key is None else key\n        start_vector = xnp.randn(A.shape[-1]"),
    m("C15-silent-clip-arguments-swapped", "C15", "", ARN, "    max_iters = min(max_iters, A.shape[-1])\n    if start_vector is None:\n        key = xnp.PRNGKey(42) if key is None else key\n        start_vector = xnp.randn(A.shape[-1]",
      "    max_iters = min(A.shape[-1], max_iters)\n    if start_vector is None:\n        key = xnp.PRNGKey(42) if key is None else key\n        start_vector = xnp.randn(A.shape[-1]", silent=True),
    m("C18-operator-attribute-classified-by-content", "C18", "leaf-classification@LinearOperator.__setattr__", BASE, "    return is_array(obj) or isinstance(obj, LinearOperator)", "    return is_array(obj)"),
    m("C18-silent-classification-disjuncts-swapped", "C18", "", BASE, "    return is_array(obj) or isinstance(obj, LinearOperator)", "    return isinstance(obj, LinearOperator) or is_array(obj)", silent=True),
    m("C01-blocks-applied-transposed", "C01", "block-action@BlockDiag._matmat", OPS, "            elems = M @ v[i:i_end].T.reshape(k * multiplicity, M.shape[-1]).T\n            y.append(elems.T.reshape(k, multiplicity * M.shape[0]).T)",
      "            elems = v[i:i_end].T.reshape(k * multiplicity, M.shape[-1]) @ M\n            y.append(elems.reshape(k, multiplicity * M.shape[0]).T)"),
    m("C01-blocks-transpose-of-a-square-block", "C01", "block-action@BlockDiag._matmat", OPS, "            elems = M @ v[i:i_end].T.reshape(k * multiplicity, M.shape[-1]).T", "            elems = M.T @ v[i:i_end].T.reshape(k * multiplicity, M.shape[-1]).T"),
    m("C01-silent-blocks-from-the-right-with-transposes", "C01", "", OPS, "            elems = M @ v[i:i_end].T.reshape(k * multiplicity, M.shape[-1]).T", "            elems = (v[i:i_end].T.reshape(k * multiplicity, M.shape[-1]) @ M.T).T", silent=True),
    m("C12-zero-threshold-in-the-normal-range", "C12", "zero-threshold@", CG, "_small_value = 1e-40", "_small_value = 1e-30"),
    m("C12-silent-zero-threshold-still-denormal", "C12", "", CG, "_small_value = 1e-40", "_small_value = 1e-39", silent=True),
    # ---------------------------------------------------------------- round 8
    m("C12-explicit-zero-cap-becomes-default", "C12", "loop-cap@cg:max_iters-or-default", CG, "    soln, *_, infodict = run_cg(A, rhs, x0, max_iters, tol, P, pbar=pbar)",
      "    max_iters = max_iters or 1000\n    soln, *_, infodict = run_cg(A, rhs, x0, max_iters, tol, P, pbar=pbar)"),
    m("C12-silent-none-cap-becomes-default", "C12", "", CG, "    soln, *_, infodict = run_cg(A, rhs, x0, max_iters, tol, P, pbar=pbar)",
      "    max_iters = max_iters if max_iters is not None else 5000\n    soln, *_, infodict = run_cg(A, rhs, x0, max_iters, tol, P, pbar=pbar)", silent=True),
    m("C14-abs-on-the-diagonal-of-T", "C14", "symmetric-T@lanczos:diagonal", LAN, "        alpha, beta = alpha[0], beta[0]\n        T = Tridiagonal(alpha, beta, alpha)",
      "        alpha, beta = alpha[0], xnp.abs(beta[0])\n        T = Tridiagonal(alpha, beta, alpha)"),
    m("C14-silent-real-part-of-the-diagonal-of-T", "C14", "", LAN, "        alpha, beta = alpha[0], beta[0]\n        T = Tridiagonal(alpha, beta, alpha)",
      "        alpha, beta = alpha[0], xnp.cast(beta[0].real, A.dtype)\n        T = Tridiagonal(alpha, beta, alpha)", silent=True),
    m("C14-silent-abs-on-the-off-diagonal-of-T", "C14", "", LAN, "        alpha, beta = alpha[0], beta[0]\n        T = Tridiagonal(alpha, beta, alpha)",
      "        alpha, beta = xnp.abs(alpha[0]), beta[0]\n        T = Tridiagonal(alpha, beta, alpha)", silent=True),
    m("C17-generator-seeded-by-a-key-that-may-be-none", "C17", "rng-local-seed@lobpcg", LOB, "    rng = np.random.default_rng(42 if key is None else np.asarray(key))", "    rng = np.random.default_rng(key)"),
    m("C20-sliced-dense-form-pairs-the-index-arrays", "C20", "outer-selection@Sliced", OPS, "    def __str__(self):\n        has_length = hasattr(self.slices[0], '__len__')",
      "    def _entries(self, table):\n        return table[self.slices]\n\n    def __str__(self):\n        has_length = hasattr(self.slices[0], '__len__')"),
    # ---------------------------------------------------------------- round 9 rules: firing mutants and their silent twins
    m("C04-isqrt-forwards-alg-to-inv", "C04", "forwarded-algorithm@isqrt(", UNARY, "    return pow(A, -0.5, alg)", "    return inv(sqrt(A, alg), alg)"),
    m("C04-silent-isqrt-inv-of-root", "C04", "", UNARY, "    return pow(A, -0.5, alg)", "    return inv(sqrt(A, alg))", silent=True),
    m("C09-silent-isqrt-inv-of-root", "C09", "", UNARY, "    return pow(A, -0.5, alg)", "    return inv(sqrt(A, alg))", silent=True),
    m("C14-lanczos-drops-tol", "C14", "option-passthrough@lanczos->lanczos_fact:tol", LAN, "lanczos_fact(A, init_val, max_iters, tol)", "lanczos_fact(A, init_val, max_iters=max_iters)"),
    m("C14-silent-lanczos-keywords", "C14", "", LAN, "lanczos_fact(A, init_val, max_iters, tol)", "lanczos_fact(A, init_val, tol=tol, max_iters=max_iters)", silent=True),
    m("C17-hutch-drops-rand", "C17", "option-passthrough@Hutch.__call__->hutchinson_diag_estimate:rand", DEST, "hutchinson_diag_estimate(A, k, **self.__dict__)[0]",
      "hutchinson_diag_estimate(A, k, bs=self.bs, tol=self.tol, max_iters=self.max_iters, pbar=self.pbar, key=self.key)[0]"),
    m("C17-silent-hutch-explicit-keywords", "C17", "", DEST, "hutchinson_diag_estimate(A, k, **self.__dict__)[0]",
      "hutchinson_diag_estimate(A, k, bs=self.bs, tol=self.tol, max_iters=self.max_iters, pbar=self.pbar, key=self.key, rand=self.rand)[0]", silent=True),
    m("C12-mean-residual-stop", "C12", "stopping-test@cg:cond", CG, "res_meet = xnp.any(rs > tol)", "res_meet = xnp.mean(rs) > xnp.mean(tol)"),
    m("C16-pinv-signed-mask", "C16", "zero-mask@pinv(Diagonal", PINV, "    return Diagonal(1. / A.diag)",
      "    xnp, d = A.xnp, A.diag\n    keep = d > 0\n    return Diagonal(xnp.where(keep, 1. / xnp.where(keep, d, xnp.ones_like(d)), xnp.zeros_like(d)))"),
    m("C16-silent-pinv-magnitude-mask", "C16", "", PINV, "    return Diagonal(1. / A.diag)",
      "    xnp, d = A.xnp, A.diag\n    keep = xnp.abs(d) > 0\n    return Diagonal(xnp.where(keep, 1. / xnp.where(keep, d, xnp.ones_like(d)), xnp.zeros_like(d)))", silent=True),
    m("C08-kronsum-trace-mirrored-sizes", "C08", "trace-rule@trace(KronSum", DIAG, "@dispatch\ndef trace(A: Kronecker, alg: Algorithm):",
      "@dispatch\ndef trace(A: KronSum, alg: Algorithm):\n    dims = [M.shape[-1] for M in A.Ms]\n    return sum(trace(M, alg) * n for M, n in zip(A.Ms, reversed(dims)))\n\n\n@dispatch\ndef trace(A: Kronecker, alg: Algorithm):"),
    m("C03-kron-diag-fusion-swapped", "C03", "rewrite-rule@kron(Diagonal,Kronecker)", FNS, "@dispatch\ndef kron(A: Kronecker, B: Kronecker):",
      "@dispatch\ndef kron(A: Diagonal, B: Kronecker):\n    if isinstance(B.Ms[0], Diagonal):\n        return Kronecker(*((kron(B.Ms[0], A), ) + B.Ms[1:]))\n    return Kronecker(*((A, ) + B.Ms))\n\n\n@dispatch\ndef kron(A: Kronecker, B: Kronecker):"),
    m("C03-silent-kron-diag-fusion", "C03", "", FNS, "@dispatch\ndef kron(A: Kronecker, B: Kronecker):",
      "@dispatch\ndef kron(A: Diagonal, B: Kronecker):\n    if isinstance(B.Ms[0], Diagonal):\n        return Kronecker(*((kron(A, B.Ms[0]), ) + B.Ms[1:]))\n    return Kronecker(*((A, ) + B.Ms))\n\n\n@dispatch\ndef kron(A: Kronecker, B: Kronecker):", silent=True),
    m("C03-silent-kron-tail-fusion", "C03", "", FNS, "@dispatch\ndef kron(A: Kronecker, B: Kronecker):",
      "@dispatch\ndef kron(A: Kronecker, B: Diagonal):\n    if isinstance(A.Ms[-1], Diagonal):\n        return Kronecker(*(A.Ms[:-1] + (kron(A.Ms[-1], B), )))\n    return Kronecker(*(A.Ms + (B, )))\n\n\n@dispatch\ndef kron(A: Kronecker, B: Kronecker):", silent=True),
    m("C07-householder-unit-vector-assumed", "C07", "dependence@slogdet(Householder", LOGDET, "@dispatch\ndef slogdet(A: Permutation, log_alg: Algorithm, trace_alg: Algorithm):",
      "@dispatch\ndef slogdet(A: Householder, log_alg: Algorithm, trace_alg: Algorithm):\n    xnp = A.xnp\n    det = 1. - A.beta\n    return det / xnp.abs(det), xnp.log(xnp.abs(det))\n\n\n@dispatch\ndef slogdet(A: Permutation, log_alg: Algorithm, trace_alg: Algorithm):"),
    m("C07-silent-householder-lemma", "C07", "", LOGDET, "@dispatch\ndef slogdet(A: Permutation, log_alg: Algorithm, trace_alg: Algorithm):",
      "@dispatch\ndef slogdet(A: Householder, log_alg: Algorithm, trace_alg: Algorithm):\n    xnp = A.xnp\n    det = 1. - A.beta * xnp.sum(xnp.conj(A.vec) * A.vec)\n    return det / xnp.abs(det), xnp.log(xnp.abs(det))\n\n\n@dispatch\ndef slogdet(A: Permutation, log_alg: Algorithm, trace_alg: Algorithm):", silent=True),
]


# ---------------------------------------------------------------- seeded changes (sub-agent patches, /verif/seeded/<id>/patch.diff)
# every seeded change that some check detected (seeded/detection_matrix.json) is replayed as a "must fire" mutant on the
# scratch copy: the named property's check has to raise the recorded obligation again
def _seed_mutants():
    import json
    import os
    base = os.path.join(os.path.dirname(os.path.dirname(os.path.abspath(__file__))), "seeded")
    try:
        matrix = json.load(open(os.path.join(base, "detection_matrix.json")))
    except OSError:
        return []
    out = []
    for sid, fired in sorted(matrix.items()):
        if not isinstance(fired, dict):
            continue
        for prop, keys in sorted(fired.items()):
            keys = [k for k in keys if not k.startswith("(exit 2")]
            if not keys:
                continue
            out.append(dict(id=f"seed-{sid}-by-{prop}", property=prop, expect=keys[0].split("#")[0], edits=[], patch=os.path.join(base, sid, "patch.diff")))
    return out


for _m in MUTANTS:
    if _m["id"].startswith("C07-") and "householder" in _m["id"]:
        _m["edits"].append(dict(file=LOGDET, old="    Diagonal,\n    Identity,\n", new="    Diagonal,\n    Householder,\n    Identity,\n"))
MUTANTS += _seed_mutants()
