"""HOMOG — degree-of-homogeneity analysis ("units" of the right-hand side), a small type system over AbsInt.

Every value is given the degree d such that scaling the right-hand side b by s scales the value by s**d:
b has degree 1; the operator, the preconditioner, tolerances, iteration counts and non-zero literals have
degree 0; exact zeros (the default initial guess, zeros(...)) and division guards (|c| <= 1e-20) are
homogeneous of every degree ("free").  Products add degrees, quotients subtract, sums and selections need
equal degrees -- otherwise the value is MIXED (it is not a homogeneous function of b).

Two sinks are judged by the property assemblies: the comparison of the stopping test (both sides must have
the same degree: a relative tolerance) and the returned solution (degree 1: linear in b).  Comparisons
elsewhere (tiny-denominator guards) are recorded but not judged.
"""
import ast
from fractions import Fraction

from sa import dataflow as df
from sa.absint import AbsInt

FREE = ("free", )
OP = ("op", )
GUARD_MAX = 1e-20

SAME_AS_FIRST = {"norm", "abs", "conj", "sum", "mean", "max", "min", "copy", "cast", "reshape", "expand", "moveaxis", "permute", "stop_gradients", "real", "nan_to_num", "move_to",
                 "update_array", "concat", "concatenate", "stack", "clip", "maximum", "minimum"}
ZERO_LIKE = {"zeros", "zeros_like"}
DEG0 = {"ones", "ones_like", "eye", "arange", "any", "all", "isfinite", "finfo", "get_device", "PRNGKey", "randn", "sign", "argsort", "logical_not", "logical_or", "logical_and"}


def deg(d):
    return ("deg", Fraction(d))


def mixed(why):
    return ("mixed", why)


def is_deg(v):
    return isinstance(v, tuple) and v and v[0] == "deg"


def show(v):
    if v == FREE:
        return "any degree (exact zero / guard)"
    if v == OP:
        return "operator"
    if is_deg(v):
        return f"degree {v[1]}"
    if isinstance(v, tuple) and v and v[0] == "mixed":
        return f"MIXED ({v[1]})"
    if isinstance(v, tuple) and v and v[0] == "tuple":
        return "(" + ", ".join(show(x) for x in v[1]) + ")"
    return f"unknown ({v[1] if isinstance(v, tuple) and len(v) > 1 else v})"


class LoopMixin:
    # ---- instrumented while loops:  while_fn(cond_fun=..., body_fun=..., init_val=...)
    def call_unknown(self, node, ctx):
        kw = {k.arg: k.value for k in node.keywords if k.arg}
        names = ("cond_fun", "body_fun", "init_val")
        parts = [kw.get(n) for n in names]
        if all(p is None for p in parts) and len(node.args) == 3:
            parts = list(node.args)
        if all(p is not None for p in parts) and isinstance(node.func, ast.Name):
            vals = [self.ev(p, ctx) for p in parts]
            if all(isinstance(v, tuple) and v and v[0] == "function" for v in vals[:2]):
                return self.run_loop(vals[0], vals[1], vals[2], ctx)
        return self.unknown(ast.unparse(node.func)[:30] + "()")

    def fn_by_qual(self, qual):
        def walk(f):
            yield f
            for g in f.nested.values():
                yield from walk(g)
        for top in self.idx.funcs.values():
            for f in walk(top):
                if f.qual == qual:
                    return f
        return None

    def apply_fn(self, fval, arg, ctx):
        f = self.fn_by_qual(fval[1]) if isinstance(fval, tuple) and fval and fval[0] == "function" else None
        if f is None or not f.params:
            return self.unknown("loop function")
        rets = [r.value for r in df.returns(f.node) if r.value is not None]
        if not rets:
            return self.unknown("no return")
        return self.join([self.eval_in(f, r, {f.params[0]: arg}, ctx.depth + 1) for r in rets])

    def run_loop(self, cond, body, init, ctx):
        state = init
        for _ in range(4):
            nxt = self.join([state, self.apply_fn(body, state, ctx)])
            if nxt == state:
                break
            state = nxt
        self.apply_fn(cond, state, ctx)  # records the comparisons of the stopping test on the loop invariant
        return state


class Degree(LoopMixin, AbsInt):
    AUG_KEEPS_VALUE = False
    ENV_REBINDING = True

    def __init__(self, idx, seeds):
        """seeds: {(id(function node), parameter name): value}"""
        super().__init__(idx)
        self.seeds = seeds
        self.comparisons = []  # (node, fi, left value, right value)

    def eval_module_value(self, r):
        if isinstance(r.val, ast.Constant):
            return self.const(r.val)
        if isinstance(r.val, ast.UnaryOp) and isinstance(r.val.operand, ast.Constant):
            return self.const(r.val.operand)
        return self.unknown("module value")

    # ---- lattice
    @staticmethod
    def is_unknown(v):
        return isinstance(v, tuple) and v and v[0] == "unknown"

    def unify(self, a, b, what="sum"):
        """value of a + b / where(c, a, b) / join of branches"""
        for x in (a, b):
            if isinstance(x, tuple) and x and x[0] == "mixed":
                return x
        for x in (a, b):
            if self.is_unknown(x):
                return x
        if a == FREE:
            return b
        if b == FREE:
            return a
        if is_deg(a) and is_deg(b):
            return a if a == b else mixed(f"{what} of a term of degree {a[1]} and a term of degree {b[1]}")
        if a == OP and b == OP:
            return OP
        return self.unknown(f"{what} of {show(a)} and {show(b)}")

    def join(self, vals):
        vals = list(vals)
        if vals and all(isinstance(v, tuple) and v and v[0] == "tuple" for v in vals) and len({len(v[1]) for v in vals}) == 1:
            return ("tuple", tuple(self.join([v[1][i] for v in vals]) for i in range(len(vals[0][1]))))
        out = None
        for v in vals:
            out = v if out is None else self.unify(out, v, "join")
        return out if out is not None else self.unknown("empty")

    def mul(self, a, b, sign=1):
        for x in (a, b):
            if isinstance(x, tuple) and x and x[0] == "mixed":
                return x
        for x in (a, b):
            if self.is_unknown(x):
                return x
        if a == FREE or (b == FREE and sign == 1):
            return FREE
        if a == OP:
            return b if sign == 1 else self.unknown("division by an operator")
        if b == OP:
            return a if sign == 1 else self.unknown("division by an operator")
        if is_deg(a) and is_deg(b):
            return ("deg", a[1] + sign * b[1])
        if is_deg(a) and b == FREE:  # division by a guard constant
            return a
        return self.unknown(f"product of {show(a)} and {show(b)}")

    # ---- hooks
    def const(self, node):
        v = node.value
        if isinstance(v, bool) or v is None or isinstance(v, str):
            return deg(0)
        if isinstance(v, (int, float, complex)):
            if v == 0 or abs(v) <= GUARD_MAX:
                return FREE
            return deg(0)
        return deg(0)

    def param(self, fi, name):
        return self.seeds.get((id(fi.node), name), self.unknown(f"parameter {name} of {fi.short}"))

    def self_attr(self, fi, attr, node):
        return self.unknown(f"self.{attr}")

    def attribute(self, base, attr, node, ctx):
        if attr in ("T", "H", "real", "imag"):
            return base
        if attr in ("shape", "dtype", "device", "ndim", "size", "xnp"):
            return deg(0)
        return self.unknown(f".{attr}")

    def subscript(self, base, node, ctx):
        if isinstance(base, tuple) and base and base[0] in ("tuple", "join"):
            s = node.slice
            if isinstance(s, ast.Constant) and isinstance(s.value, int):
                return self.index(base, s.value)
            if isinstance(s, ast.UnaryOp) and isinstance(s.op, ast.USub) and isinstance(s.operand, ast.Constant):
                return self.index(base, -s.operand.value)
            return self.index(base, "*")
        return base

    def element_of(self, v, i):
        return v

    def binop(self, node, left, right, ctx):
        op = node.op
        if isinstance(op, (ast.Add, ast.Sub)):
            return self.unify(left, right, "sum")
        if isinstance(op, (ast.Mult, ast.MatMult)):
            return self.mul(left, right, 1)
        if isinstance(op, (ast.Div, ast.FloorDiv)):
            return self.mul(left, right, -1)
        if isinstance(op, ast.Pow):
            e = node.right
            if isinstance(e, ast.Constant) and isinstance(e.value, (int, float)) and is_deg(left):
                return ("deg", left[1] * Fraction(e.value).limit_denominator(64))
            if left == FREE:
                return FREE
            return self.unknown("power")
        if isinstance(op, (ast.BitAnd, ast.BitOr, ast.BitXor)):
            return deg(0)
        return self.unknown("binop")

    def unaryop(self, node, val, ctx):
        if isinstance(node.op, ast.Not):
            return deg(0)
        return val

    def other(self, node, ctx):
        if isinstance(node, ast.Compare):
            l = self.ev(node.left, ctx)
            for c in node.comparators:
                r = self.ev(c, ctx)
                self.comparisons.append((node, ctx.fi, l, r))
            return deg(0)
        if isinstance(node, (ast.List, ast.ListComp, ast.Dict, ast.Lambda)):
            return deg(0)
        return self.unknown(type(node).__name__)

    def call_xnp(self, name, node, args, kwargs, ctx):
        if name in ZERO_LIKE:
            return FREE
        if name in DEG0:
            return deg(0)
        if name == "array":
            return args[0] if args else deg(0)
        if name == "sqrt":
            a = args[0] if args else self.unknown("sqrt")
            return ("deg", a[1] / 2) if is_deg(a) else a
        if name == "where" and len(args) == 3:
            return self.unify(args[1], args[2], "selection")
        if name in SAME_AS_FIRST and args:
            if name in ("maximum", "minimum", "clip") and len(args) > 1:
                return self.unify(args[0], args[1], name)
            return args[0]
        if name == "while_loop" and len(args) >= 3:
            return self.run_loop(args[0], args[1], args[2], ctx)
        return self.unknown(f"xnp.{name}")

    def call_builtin(self, name, node, args, kwargs, ctx):
        if name in ("len", "int", "bool", "range", "isinstance", "hasattr"):
            return deg(0)
        if name in ("abs", "float", "complex", "sum", "max", "min") and args:
            return args[0]
        return self.unknown(f"{name}()")

    def call_class(self, ci, node, args, kwargs, ctx):
        return OP if any(c.name == "LinearOperator" for c in self.idx.mro(ci)) else self.unknown(f"{ci.name}()")

    def call_dispatch(self, fname, node, args, kwargs, ctx):
        return OP if args and args[0] == OP else self.unknown(f"{fname}()")

    def call_method(self, recv, name, node, args, kwargs, ctx):
        if name in ("reshape", "conj", "sum", "mean", "copy", "astype", "to", "real", "max", "min", "squeeze", "flatten", "ravel", "transpose"):
            return recv
        return self.unknown(f".{name}()")



class Origin(LoopMixin, AbsInt):
    """where a value comes from: ('param', function, name) for an untouched parameter of a seeded function, ('derived', how) for
    anything computed from it (min(...), arithmetic); used for the iteration cap of the stopping test"""
    ENV_REBINDING = True

    def __init__(self, idx, roots):
        super().__init__(idx)
        self.roots = roots  # ids of function nodes whose parameters are origins
        self.comparisons = []

    def param(self, fi, name):
        return ("param", fi.short, name) if id(fi.node) in self.roots else self.unknown(f"parameter {name}")

    def const(self, node):
        return ("const", repr(node.value))

    def join(self, vals):
        vals = list(vals)
        if vals and all(isinstance(v, tuple) and v and v[0] == "tuple" for v in vals) and len({len(v[1]) for v in vals}) == 1:
            return ("tuple", tuple(self.join([v[1][i] for v in vals]) for i in range(len(vals[0][1]))))
        flat = set(vals)
        return next(iter(flat)) if len(flat) == 1 else ("derived", "join of " + " / ".join(sorted(self.text(v) for v in flat))[:120])

    @staticmethod
    def text(v):
        if isinstance(v, tuple) and v and v[0] == "param":
            return f"parameter {v[2]} of {v[1]}"
        if isinstance(v, tuple) and v and v[0] == "derived":
            return v[1]
        if isinstance(v, tuple) and v and v[0] == "const":
            return v[1]
        return "?"

    def binop(self, node, left, right, ctx):
        return ("derived", f"`{ast.unparse(node)}`"[:80])

    def subscript(self, base, node, ctx):
        if isinstance(base, tuple) and base and base[0] == "tuple":
            s = node.slice
            if isinstance(s, ast.Constant) and isinstance(s.value, int):
                return self.index(base, s.value)
            return self.index(base, "*")
        return ("derived", f"`{ast.unparse(node)}`"[:80])

    def call_builtin(self, name, node, args, kwargs, ctx):
        return ("derived", f"`{ast.unparse(node)}`"[:80])

    def call_xnp(self, name, node, args, kwargs, ctx):
        return ("derived", f"`{ast.unparse(node)}`"[:80])

    def other(self, node, ctx):
        if isinstance(node, ast.Compare):
            l = self.ev(node.left, ctx)
            for c in node.comparators:
                self.comparisons.append((node, ctx.fi, l, self.ev(c, ctx)))
            return ("derived", "comparison")
        return self.unknown(type(node).__name__)


# ------------------------------------------------------------------------------------------------
RHS_NAMES = ("b", "rhs", "B")
GUESS_NAMES = ("x0", )
OPERATOR_NAMES = ("A", "preconditioner", "P", "M")


def solver_scale_obligations(idx, rep, routine, cond_fns, rule, construct, counter_text=None, cap_param="max_iters"):
    """HOMOG obligations of an iterative solver routine (parameters classified by name: right-hand side degree 1,
    initial guess free, operators, everything else degree 0):
      * every comparison evaluated by the stopping test compares quantities of one degree (a relative tolerance);
      * the first returned component (the solution) has degree 1;
      * the iteration cap compared with the counter is the caller's parameter itself (ORIGIN)."""
    rhs = next((p for p in routine.params if p in RHS_NAMES), None)
    if rhs is None:
        rep.undecided(rule, f"{construct}:scale", f"no right-hand-side parameter among {routine.params}")
        return
    seeds = {}
    for p in routine.params:
        seeds[(id(routine.node), p)] = deg(1) if p == rhs else FREE if p in GUESS_NAMES else OP if p in OPERATOR_NAMES else deg(0)
    d = Degree(idx, seeds)
    rets = [r for r in df.returns(routine.node) if r.value is not None]
    vals = [d.eval_in(routine, r.value) for r in rets]
    cond_ids = {id(f.node) for f in cond_fns}
    seen = set()
    n = 0
    for node, fi, l, r in d.comparisons:
        if id(fi.node) not in cond_ids or id(node) in seen:
            continue
        seen.add(id(node))
        n += 1
        text = ast.unparse(node)
        loc = [idx.loc(fi.module, node)]
        bad = next((x for x in (l, r) if isinstance(x, tuple) and x and x[0] == "mixed"), None)
        if bad is not None:
            rep.refuted(rule, f"{construct}:stopping-test#{n}", f"`{text}` compares {show(l)} with {show(r)}: the threshold is not a homogeneous function of the right-hand side, so the "
                        f"tolerance is absolute for small ||{rhs}|| and the solve is not scale-invariant", detail="mixed", locs=loc)
        elif (is_deg(l) or l == FREE) and (is_deg(r) or r == FREE):
            ok = l == FREE or r == FREE or l == r
            rep.decide(ok, rule, f"{construct}:stopping-test#{n}", f"`{text}` compares {show(l)} with {show(r)}" + ("" if ok else f": residual and threshold scale differently with ||{rhs}||"),
                       detail="" if ok else "degree", locs=loc)
        else:
            rep.undecided(rule, f"{construct}:stopping-test#{n}", f"`{text}`: {show(l)} vs {show(r)}", locs=loc)
    if not n:
        rep.undecided(rule, f"{construct}:stopping-test", "no comparison of the stopping test was reached by the evaluation")
    for r, v in zip(rets, vals):
        first = v[1][0] if isinstance(v, tuple) and v and v[0] == "tuple" and v[1] else v
        loc = [idx.loc(routine.module, r)]
        if is_deg(first):
            ok = first[1] == 1
            rep.decide(ok, rule, f"{construct}:solution", f"the returned solution has {show(first)} in `{rhs}`" + ("" if ok else ": it must scale linearly with the right-hand side (normalisation not undone / applied twice)"),
                       detail="" if ok else "degree", locs=loc)
        elif isinstance(first, tuple) and first and first[0] == "mixed":
            rep.refuted(rule, f"{construct}:solution", f"the returned solution is {show(first)}", detail="mixed", locs=loc)
        else:
            rep.undecided(rule, f"{construct}:solution", f"degree of the returned solution: {show(first)}", locs=loc)
    # ---- ORIGIN of the cap
    if cap_param in routine.params:
        roots = {id(routine.node)}
        o = Origin(idx, roots)
        for r in rets:
            o.eval_in(routine, r.value)
        caps = [(node, fi, l, r) for node, fi, l, r in o.comparisons if id(fi.node) in cond_ids and any(isinstance(x, tuple) and x and x[0] == "param" and x[2] == cap_param for x in (l, r))]
        derived = [(node, fi, l, r) for node, fi, l, r in o.comparisons if id(fi.node) in cond_ids and any(isinstance(x, tuple) and x and x[0] == "derived" and cap_param in x[1] for x in (l, r))]
        if caps:
            node, fi, l, r = caps[0]
            rep.proved(rule, f"{construct}:cap-origin", f"`{ast.unparse(node)}` tests the counter against the caller's `{cap_param}` itself", locs=[idx.loc(fi.module, node)])
        elif derived:
            node, fi, l, r = derived[0]
            how = next(x[1] for x in (l, r) if isinstance(x, tuple) and x and x[0] == "derived" and cap_param in x[1])
            rep.refuted(rule, f"{construct}:cap-origin", f"`{ast.unparse(node)}` tests the counter against {how}, not against the caller's `{cap_param}`: the loop can stop before `{cap_param}` steps "
                        "with residuals above the tolerance", detail="derived", locs=[idx.loc(fi.module, node)])
        else:
            rep.undecided(rule, f"{construct}:cap-origin", f"no comparison with `{cap_param}` reached in the stopping test")
