"""RNG analysis (DESIGN.md 4/C17): who touches a process-wide generator, bracket
typestate {clean, saved, dirty, leaked} over structured statements, key def-use chains."""
import ast

from sa import dataflow as df

# external dotted name -> role
SAVE = {"numpy.random.get_state", "torch.random.get_rng_state", "torch.get_rng_state", "random.getstate"}
RESTORE = {"numpy.random.set_state", "torch.random.set_rng_state", "torch.set_rng_state", "random.setstate"}
SEED = {"numpy.random.seed", "torch.manual_seed", "torch.random.manual_seed", "random.seed", "torch.seed", "torch.random.seed"}
NP_DRAWS = {
    "rand", "randn", "randint", "random", "random_sample", "ranf", "sample", "normal", "standard_normal", "uniform", "choice", "permutation",
    "shuffle", "beta", "binomial", "exponential", "gamma", "poisson", "multivariate_normal", "laplace", "lognormal", "bytes", "standard_cauchy",
    "standard_exponential", "standard_gamma", "standard_t", "triangular", "geometric", "gumbel", "logistic", "chisquare", "dirichlet", "integers"
}
TORCH_DRAWS = {"randn", "rand", "randint", "randperm", "normal", "bernoulli", "multinomial", "randn_like", "rand_like", "poisson"}
PY_DRAWS = {"random", "randint", "uniform", "gauss", "choice", "shuffle", "sample", "randrange", "normalvariate", "getrandbits", "choices"}
LOCAL_GEN = {"numpy.random.default_rng", "numpy.random.RandomState", "numpy.random.Generator", "torch.Generator", "random.Random"}
ENTROPY = {"time.time", "time.time_ns", "time.perf_counter", "time.monotonic", "os.urandom", "os.getpid", "uuid.uuid4", "uuid.uuid1", "secrets.randbits",
           "secrets.token_bytes", "datetime.datetime.now"}
ENTROPY_BUILTINS = {"id", "hash"}


def role_of(dotted):
    """role of an external dotted name with respect to process-wide generators"""
    if dotted in SAVE:
        return "save"
    if dotted in RESTORE:
        return "restore"
    if dotted in SEED:
        return "seed"
    if dotted in LOCAL_GEN:
        return "local-generator"
    parts = dotted.split(".")
    if dotted.startswith("numpy.random.") and len(parts) == 3 and parts[2] in NP_DRAWS:
        return "draw"
    if parts[0] == "torch" and len(parts) == 2 and parts[1] in TORCH_DRAWS:
        return "draw"
    if parts[0] == "random" and len(parts) == 2 and parts[1] in PY_DRAWS:
        return "draw"
    if dotted in ENTROPY:
        return "entropy"
    return None


def global_refs(idx, fi_or_module_nodes, module, fn=None):
    """(node, dotted, role) for every reference to a process-wide generator API in the given nodes"""
    out = []
    for n in fi_or_module_nodes:
        if isinstance(n, (ast.Attribute, ast.Name)):
            par = getattr(n, "_parent", None)
            if isinstance(par, ast.Attribute) and par.value is n:
                continue  # only maximal chains
            r = idx.resolve_expr(module, n, fn)
            if r is not None and r.kind == "external":
                role = role_of(r.val)
                if role:
                    out.append((n, r.val, role))
    return out


class Bracket:
    """abstract interpretation of one function over the typestate of the global generator.
    state: ('clean',) | ('saved', name) | ('dirty', name) | ('leaked', what)"""
    def __init__(self, idx, fi):
        self.idx, self.fi = idx, fi
        self.events = {}  # id(call) -> (role, dotted)
        self.problems = []  # (kind, text, node)
        for n in df.body_nodes(fi.node, into_nested=False):
            if isinstance(n, ast.Call):
                r = idx.resolve_expr(fi.module, n.func, fi)
                if r is not None and r.kind == "external":
                    role = role_of(r.val)
                    if role in ("save", "restore", "seed", "draw"):
                        if role == "draw" and any(k.arg == "generator" for k in n.keywords):
                            continue
                        self.events[id(n)] = (role, r.val, n)

    def has_perturbation(self):
        return any(e[0] in ("seed", "draw") for e in self.events.values())

    def run(self):
        out, exits = self.block(self.fi.node.body, {("clean", )})
        final = set(out) | set(exits)
        bad = sorted(s for s in final if s[0] in ("dirty", "leaked"))
        return bad

    # -- statements
    def block(self, stmts, states):
        exits = set()
        for st in stmts:
            states, ex = self.stmt(st, states)
            exits |= ex
            if not states:
                break
        return states, exits

    def stmt(self, st, states):
        if isinstance(st, (ast.FunctionDef, ast.AsyncFunctionDef, ast.ClassDef)):
            return states, set()
        if isinstance(st, ast.Return):
            states = self.expr_effects(st, states)
            return set(), states
        if isinstance(st, ast.Raise):
            return set(), set()
        if isinstance(st, ast.If):
            states = self.expr_effects(st.test, states)
            a, ea = self.block(st.body, states)
            b, eb = self.block(st.orelse, states)
            return a | b, ea | eb
        if isinstance(st, (ast.For, ast.AsyncFor, ast.While)):
            head = st.iter if not isinstance(st, ast.While) else st.test
            states = self.expr_effects(head, states)
            seen = set(states)
            exits = set()
            cur = states
            for _ in range(6):
                cur, ex = self.block(st.body, cur)
                exits |= ex
                if cur <= seen:
                    break
                seen |= cur
                cur = set(seen)
            out, ex2 = self.block(st.orelse, seen)
            return seen | out, exits | ex2
        if isinstance(st, ast.Try):
            a, ea = self.block(st.body, states)
            hs = set()
            eh = set()
            for h in st.handlers:
                o, e = self.block(h.body, states | a)
                hs |= o
                eh |= e
            o2, e2 = self.block(st.orelse, a)
            f, ef = self.block(st.finalbody, o2 | hs) if st.finalbody else (o2 | hs, set())
            return f, ea | eh | e2 | ef
        if isinstance(st, (ast.With, ast.AsyncWith)):
            for it in st.items:
                states = self.expr_effects(it.context_expr, states)
            return self.block(st.body, states)
        if isinstance(st, ast.Match):
            states = self.expr_effects(st.subject, states)
            out, exits = set(), set()
            for c in st.cases:
                o, e = self.block(c.body, states)
                out |= o
                exits |= e
            return out | states, exits
        # simple statement
        return self.expr_effects(st, states, st), set()

    def expr_effects(self, node, states, stmt=None):
        evs = [self.events[id(c)] for c in ast.walk(node) if isinstance(c, ast.Call) and id(c) in self.events]
        evs.sort(key=lambda e: (e[2].end_lineno, e[2].end_col_offset))
        for role, dotted, call in evs:
            new = set()
            for s in states:
                if role == "save":
                    name = None
                    if stmt is not None and isinstance(stmt, ast.Assign) and stmt.value is call and len(stmt.targets) == 1 and isinstance(stmt.targets[0], ast.Name):
                        name = stmt.targets[0].id
                    if s[0] == "clean":
                        new.add(("saved", name))
                    else:
                        new.add(s)
                elif role in ("seed", "draw"):
                    if s[0] in ("saved", "dirty"):
                        new.add(("dirty", s[1]))
                    elif s[0] == "clean":
                        new.add(("leaked", dotted))
                    else:
                        new.add(s)
                elif role == "restore":
                    arg = call.args[0].id if call.args and isinstance(call.args[0], ast.Name) else None
                    if s[0] in ("saved", "dirty") and s[1] is not None and s[1] == arg:
                        new.add(("clean", ))
                    else:
                        new.add(s)
            states = new
        return states


# ---------------------------------------------------------------- key chains
class KeyChain:
    """def-use closure of a key expression inside a function (and its enclosing functions)"""
    def __init__(self, idx, fi):
        self.idx, self.fi = idx, fi

    def classify(self, expr, fi=None, depth=0, seen=None):
        """-> set of source tags: 'param:<name>', 'const-key', 'next_key', 'state-slot:<i>', 'entropy:<what>',
        'global-rng:<what>', 'unknown:<text>', 'none'"""
        fi = fi or self.fi
        seen = seen or set()
        if depth > 8:
            return {"unknown:depth"}
        if isinstance(expr, ast.Constant):
            return {"none"} if expr.value is None else {"const"}
        if isinstance(expr, ast.IfExp):
            return self.classify(expr.body, fi, depth + 1, seen) | self.classify(expr.orelse, fi, depth + 1, seen)
        if isinstance(expr, ast.Call):
            x = df.is_xnp_call(expr)
            if x == "PRNGKey":
                inner = self.classify(expr.args[0], fi, depth + 1, seen) if expr.args else {"unknown:PRNGKey()"}
                if inner <= {"const"}:
                    return {"const-key"}
                return {("derived-key:" + t) if not t.startswith(("entropy", "global-rng", "unknown")) else t for t in inner}
            if x == "next_key":
                inner = self.classify(expr.args[0], fi, depth + 1, seen) if expr.args else {"unknown:next_key()"}
                bad = {t for t in inner if t.startswith(("entropy", "global-rng", "unknown"))}
                # the successor of a loop-carried key is still tied to that slot of the loop state (the key-advance rule asks about it)
                return bad or ({"next_key"} | {t for t in inner if t.startswith("state-slot:")})
            r = self.idx.resolve_expr(fi.module, expr.func, fi)
            if r is not None and r.kind == "external":
                role = role_of(r.val)
                if role == "entropy":
                    return {f"entropy:{r.val}"}
                if role in ("draw", "seed", "save"):
                    return {f"global-rng:{r.val}"}
            if r is not None and r.kind == "builtin" and r.val in ENTROPY_BUILTINS:
                return {f"entropy:{r.val}()"}
            passthrough = (r is not None and r.kind == "builtin" and r.val in ("int", "abs", "tuple", "list")) or \
                (r is not None and r.kind == "external" and r.val.startswith("numpy.") and not r.val.startswith("numpy.random"))
            if passthrough and (expr.args or expr.keywords):
                out = set()
                for a in list(expr.args) + [k.value for k in expr.keywords]:
                    out |= self.classify(a, fi, depth + 1, seen)
                return out
            out = set()
            for a in list(expr.args) + [k.value for k in expr.keywords]:
                out |= {t for t in self.classify(a, fi, depth + 1, seen) if t.startswith(("entropy", "global-rng"))}
            return out or {f"unknown:{ast.unparse(expr)[:40]}"}
        if isinstance(expr, ast.Attribute):
            base, parts = df.attr_chain(expr)
            if base == "self":
                return {f"param:self.{'.'.join(parts)}"}
            return {f"unknown:{ast.unparse(expr)[:40]}"}
        if isinstance(expr, ast.BinOp):
            return self.classify(expr.left, fi, depth + 1, seen) | self.classify(expr.right, fi, depth + 1, seen)
        if isinstance(expr, ast.Name):
            f = fi
            while f is not None:
                key = (id(f.node), expr.id)
                asg = df.assignments(f.node, into_nested=False).get(expr.id, [])
                params = df.param_names(f.node) + [a.arg for a in f.node.args.kwonlyargs]
                if asg or expr.id in params:
                    if key in seen:
                        return set()
                    seen = seen | {key}
                    out = set()
                    if expr.id in params:
                        out.add(f"param:{expr.id}")
                    for v, path, st in asg:
                        if isinstance(v, ast.AugAssign):
                            out |= self.classify(v.value, f, depth + 1, seen)
                        elif path is None:
                            out |= self.classify(v, f, depth + 1, seen)
                        elif isinstance(v, ast.Name) and v.id in (df.param_names(f.node)[:1] + df.param_names(f.node)[-1:]) and f.parent is not None:
                            out.add(f"state-slot:{path[0] if len(path) == 1 else path}")
                        else:
                            out |= {t for t in self.classify(v, f, depth + 1, seen) if t.startswith(("entropy", "global-rng"))} or {f"unknown:unpack of {ast.unparse(v)[:30]}"}
                    return out
                f = f.parent
            return {f"unknown:{expr.id}"}
        return {f"unknown:{ast.unparse(expr)[:40]}"}
