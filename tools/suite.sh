#!/bin/sh
# run the pinned suite of a tree (default /repo) and compare the set of passing tests with BASELINE.json
root="${1:-/repo}"
out=$(mktemp /tmp/suite.XXXXXX.xml)
cd "$root" && /venv/bin/python -m pytest -q -p no:cacheprovider --timeout=900 --continue-on-collection-errors --junitxml="$out" >/dev/null 2>&1
/venv/bin/python - "$out" <<'PY'
import json, sys, xml.etree.ElementTree as ET
base = set(json.load(open('/root/.vp/BASELINE.json'))['stable_pass'])
passed = set()
for tc in ET.parse(sys.argv[1]).getroot().iter('testcase'):
    if not any(ch.tag in ('failure', 'error', 'skipped') for ch in tc):
        passed.add(f"{tc.get('classname')}::{tc.get('name')}")
missing = sorted(base - passed)
print(f"passed={len(passed)} baseline={len(base)} missing_from_baseline={len(missing)} extra={len(passed-base)}")
for m in missing[:20]:
    print("  MISSING", m)
sys.exit(1 if missing else 0)
PY
rc=$?
rm -f "$out"
exit $rc
