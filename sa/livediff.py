"""Validation of the trusted base of C04 / C19 (DESIGN.md section 7): the resolver MODEL's verdict for every
enumerated tuple is compared with `Resolver.resolve` of the live plum registry on synthetic instances.

This imports cola (it runs the library's import code), so it never decides a property; a disagreement
means the checker is broken (exit 2).  Run as a subprocess:  python -m sa.livediff < tuples.json
"""
import json
import sys


def main():
    req = json.load(sys.stdin)
    import importlib

    import numpy as np
    import cola  # noqa: F401
    for m in req.get("extra_modules", []):
        importlib.import_module(m)
    from plum import dispatch
    from plum.resolver import AmbiguousLookupError, NotFoundLookupError

    classes = {}

    def find_class(name):
        if name in classes:
            return classes[name]
        for modname, mod in list(sys.modules.items()):
            if modname.startswith("cola") and mod is not None and hasattr(mod, name):
                c = getattr(mod, name)
                if isinstance(c, type):
                    classes[name] = c
                    return c
        raise KeyError(name)

    class Shape:
        def __init__(self, square):
            self.shape = (2, 2) if square else (2, 3)

    def make(arg, free_true):
        cls, annots = arg
        if cls == "ndarray":
            return np.zeros((2, 2))
        if cls == "int":
            return 1
        if cls == "float":
            return 0.5
        if cls == "complex":
            return 1j
        if cls == "np.generic":
            return np.float32(1.0)
        if cls == "str":
            return "LM"
        if cls == "function":
            return lambda x: x
        if cls == "bool":
            return True
        if cls == "NoneType":
            return None
        if cls in ("list", "tuple"):
            return [] if cls == "list" else ()
        c = find_class(cls)
        try:
            from cola.ops import LinearOperator
            is_op = issubclass(c, LinearOperator)
        except Exception:  # noqa: BLE001
            is_op = False
        if is_op:
            obj = object.__new__(c)
            object.__setattr__(obj, "annotations", {find_class(a) for a in annots})
            object.__setattr__(obj, "Ms", (Shape(free_true), Shape(free_true)))
            object.__setattr__(obj, "shape", (2, 2))
            return obj
        return c()

    out = []
    for t in req["tuples"]:
        fname, args, free_true = t["f"], t["args"], t.get("free", True)
        fn = dispatch.functions[fname]
        fn._resolve_pending_registrations()
        vals = tuple(make(a, free_true) for a in args)
        try:
            sig = fn._resolver.resolve(vals)
            impl = sig.implementation
            code = getattr(impl, "__code__", None)
            out.append({"st": "OK", "file": code.co_filename if code else "?", "line": code.co_firstlineno if code else -1})
        except AmbiguousLookupError:
            out.append({"st": "AMBIGUOUS"})
        except NotFoundLookupError:
            out.append({"st": "NOTFOUND"})
        except Exception as e:  # noqa: BLE001
            out.append({"st": "ERROR", "why": f"{type(e).__name__}: {e}"[:200]})
    json.dump(out, sys.stdout)


if __name__ == "__main__":
    main()
