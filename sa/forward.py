"""Forward (statement-order, flow-sensitive) abstract interpreter on top of the AbsInt expression evaluator.

AbsInt evaluates names on demand from the set of their assignments (flow-insensitive, good for provenance questions).
Type-like analyses over loop states (HOMOG) need the value a name has *at a program point*: this module executes a
function body statement by statement with an environment, joins at if/else, iterates loops to a fixpoint, represents
nested functions as closures over the live environment of their definer, and runs resolved cola callees (and closures)
interprocedurally with parameters bound to the abstract arguments.

A domain subclasses Forward and provides AbsInt's transfer hooks plus `bottom()`.
"""
import ast
from collections import ChainMap

from sa import dataflow as df
from sa.absint import AbsInt


class _All:
    def __contains__(self, x):
        return True

    def __or__(self, other):
        return self


ALL = _All()


class Forward(AbsInt):
    MAX_CALL_DEPTH = 12
    LOOP_ROUNDS = 4

    def bottom(self):
        return self.unknown("unbound")

    # ---------------------------------------------------------------- expressions
    def fctx(self, fi, env, depth):
        ctx = AbsInt.Ctx(fi, env, depth)
        ctx.pinned = ALL
        return ctx

    def name(self, name, ctx):
        if name in ctx.env:
            return ctx.env[name]
        f = ctx.fi
        while f is not None:
            a = f.node.args
            if name in [x.arg for x in a.posonlyargs + a.args + a.kwonlyargs] + ([a.vararg.arg] if a.vararg else []) + ([a.kwarg.arg] if a.kwarg else []):
                return self.param(f, name)
            if df.assignments(f.node, into_nested=False).get(name):
                return self.bottom()  # a local that is not bound on this path
            if name in f.nested:
                return ("closure", f.nested[name].qual, None)
            f = f.parent
        # module level: functions, classes, constants
        r = self.idx.resolve_name(ctx.fi.module, name, ctx.fi) if ctx.fi is not None else None
        if r is None:
            return self.unknown(name)
        if r.kind == "funcs":
            return ("function", r.val[-1].qual)
        if r.kind == "class":
            return ("class", r.val.name)
        if r.kind == "value":
            return self.eval_module_value(r)
        if r.kind == "builtin":
            return ("builtin", r.val)
        return self.unknown(name)

    def eval_in(self, fi, expr, env=None, depth=0):
        return self.ev(expr, self.fctx(fi, env if env is not None else {}, depth))

    # ---------------------------------------------------------------- statements
    def bind(self, target, val, env, fi, depth):
        if isinstance(target, ast.Name):
            env[target.id] = val
        elif isinstance(target, (ast.Tuple, ast.List)):
            n = len(target.elts)
            star = next((i for i, e in enumerate(target.elts) if isinstance(e, ast.Starred)), None)
            for i, e in enumerate(target.elts):
                if isinstance(e, ast.Starred):
                    self.bind(e.value, self.index(val, "*"), env, fi, depth)
                elif star is not None and i > star:
                    self.bind(e, self.index(val, i - n), env, fi, depth)
                else:
                    self.bind(e, self.index(val, i), env, fi, depth)
        # attribute / subscript stores do not bind names

    def merge(self, env, branches):
        keys = set()
        for b in branches:
            keys |= set(b.maps[0] if isinstance(b, ChainMap) else b)
        for k in keys:
            vals = [b[k] for b in branches if k in b]
            env[k] = vals[0] if len(vals) == 1 and len(branches) == 1 else self.join(vals)

    def local_copy(self, env):
        if isinstance(env, ChainMap):
            return ChainMap(dict(env.maps[0]), *env.maps[1:])
        return dict(env)

    def exec_block(self, stmts, env, fi, rets, depth):
        """returns True when the block always leaves the function (return / raise)"""
        for st in stmts:
            if isinstance(st, ast.Assign):
                v = self.ev(st.value, self.fctx(fi, env, depth))
                for t in st.targets:
                    self.bind(t, v, env, fi, depth)
            elif isinstance(st, ast.AnnAssign):
                if st.value is not None:
                    self.bind(st.target, self.ev(st.value, self.fctx(fi, env, depth)), env, fi, depth)
            elif isinstance(st, ast.AugAssign):
                if isinstance(st.target, ast.Name):
                    b = ast.BinOp(left=ast.Name(id=st.target.id, ctx=ast.Load()), op=st.op, right=st.value)
                    ast.copy_location(b, st)
                    ast.copy_location(b.left, st)
                    env[st.target.id] = self.ev(b, self.fctx(fi, env, depth))
                else:
                    self.ev(st.value, self.fctx(fi, env, depth))
            elif isinstance(st, ast.Return):
                rets.append(self.ev(st.value, self.fctx(fi, env, depth)) if st.value is not None else self.unknown("None"))
                return True
            elif isinstance(st, ast.Raise):
                return True
            elif isinstance(st, ast.Expr):
                self.ev(st.value, self.fctx(fi, env, depth))
            elif isinstance(st, ast.If):
                self.ev(st.test, self.fctx(fi, env, depth))
                e1, e2 = self.local_copy(env), self.local_copy(env)
                d1 = self.exec_block(st.body, e1, fi, rets, depth)
                d2 = self.exec_block(st.orelse, e2, fi, rets, depth)
                live = [e for e, d in ((e1, d1), (e2, d2)) if not d]
                if not live:
                    return True
                self.merge(env, live)
            elif isinstance(st, (ast.For, ast.While)):
                if isinstance(st, ast.For):
                    it = self.ev(st.iter, self.fctx(fi, env, depth))
                    self.bind(st.target, self.index(it, "*"), env, fi, depth)
                for _ in range(self.LOOP_ROUNDS):
                    e1 = self.local_copy(env)
                    if isinstance(st, ast.While):
                        self.ev(st.test, self.fctx(fi, e1, depth))
                    self.exec_block(st.body, e1, fi, rets, depth)
                    before = {k: env.get(k) for k in (e1.maps[0] if isinstance(e1, ChainMap) else e1)}
                    self.merge(env, [env, e1])
                    if all(env.get(k) == v for k, v in before.items()):
                        break
                self.exec_block(st.orelse, env, fi, rets, depth)
            elif isinstance(st, (ast.FunctionDef, ast.AsyncFunctionDef)):
                g = fi.nested.get(st.name)
                env[st.name] = ("closure", g.qual, env) if g is not None else self.unknown("def")
            elif isinstance(st, (ast.With, ast.AsyncWith)):
                if self.exec_block(st.body, env, fi, rets, depth):
                    return True
            elif isinstance(st, ast.Try):
                self.exec_block(st.body, env, fi, rets, depth)
                for h in st.handlers:
                    self.exec_block(h.body, self.local_copy(env), fi, rets, depth)
                self.exec_block(st.orelse, env, fi, rets, depth)
                self.exec_block(st.finalbody, env, fi, rets, depth)
            elif isinstance(st, ast.Match):
                live = []
                self.ev(st.subject, self.fctx(fi, env, depth))
                for case in st.cases:
                    e1 = self.local_copy(env)
                    for n in ast.walk(case.pattern):
                        if isinstance(n, (ast.MatchAs, ast.MatchStar)) and n.name:
                            e1[n.name] = self.unknown("pattern")
                    if not self.exec_block(case.body, e1, fi, rets, depth):
                        live.append(e1)
                if live:
                    self.merge(env, live)
            elif isinstance(st, ast.Assert):
                self.ev(st.test, self.fctx(fi, env, depth))
            # Pass, Import, Global, Nonlocal, Delete, ClassDef: no effect on the tracked values
        return False

    # ---------------------------------------------------------------- functions
    def fn_by_qual(self, qual):
        cache = self.__dict__.setdefault("_qual_cache", {})
        if not cache:
            def walk(f):
                cache[f.qual] = f
                for g in f.nested.values():
                    walk(g)
            for top in self.idx.funcs.values():
                walk(top)
        return cache.get(qual)

    def run_function(self, f, bound, captured=None, depth=0):
        """execute f with parameters bound (dict name -> value); captured = live environment of the defining activation"""
        if depth > self.MAX_CALL_DEPTH:
            return self.unknown("call depth")
        stack = self.__dict__.setdefault("_call_stack", [])
        if sum(1 for x in stack if x is f) >= 2:
            return self.unknown(f"recursive {f.short}")
        local = dict(bound)
        for p, d in df.param_defaults(f.node).items():
            if p not in local:
                local[p] = self.ev(d, self.fctx(f, captured if captured is not None else {}, depth + 1))
        env = ChainMap(local, captured) if captured is not None else local
        rets = []
        stack.append(f)
        try:
            body = f.node.body if isinstance(f.node.body, list) else [ast.Return(value=f.node.body)]
            self.exec_block(body, env, f, rets, depth + 1)
        finally:
            stack.pop()
        return self.join(rets) if rets else self.unknown("no return")

    def bind_args(self, callee, call, args, kwargs, skip_first=False):
        params = callee.params[1:] if skip_first else callee.params
        env = {}
        i = 0
        for a_node, a in zip(call.args, args):
            if isinstance(a_node, ast.Starred):
                continue
            if i < len(params):
                env[params[i]] = a
            i += 1
        for k, v in kwargs.items():
            env[k] = v
        return env

    def eval_function(self, callee, call, args, kwargs, ctx, skip_first=False):
        env = self.bind_args(callee, call, args, kwargs, skip_first)
        key = (id(callee.node), tuple(sorted((k, repr(v)) for k, v in env.items())))
        memo = self.__dict__.setdefault("_run_memo", {})
        if key not in memo:
            memo[key] = self.run_function(callee, env, None, ctx.depth + 1)
        return memo[key]

    def apply_value(self, fval, args, ctx, call=None, kwargs=None):
        """call an abstract function value with positional abstract arguments"""
        if not (isinstance(fval, tuple) and fval and fval[0] in ("closure", "function")):
            return self.unknown("not a function")
        f = self.fn_by_qual(fval[1])
        if f is None:
            return self.unknown("function")
        bound = dict(zip(f.params, args))
        bound.update(kwargs or {})
        captured = fval[2] if fval[0] == "closure" else None
        return self.run_function(f, bound, captured, ctx.depth + 1)

    def call_unknown(self, node, ctx):
        fv = self.ev(node.func, ctx) if isinstance(node.func, (ast.Name, ast.Attribute)) else None
        if isinstance(fv, tuple) and fv and fv[0] in ("closure", "function"):
            args = [self.ev(a, ctx) for a in node.args if not isinstance(a, ast.Starred)]
            kwargs = {k.arg: self.ev(k.value, ctx) for k in node.keywords if k.arg}
            return self.apply_value(fv, args, ctx, node, kwargs)
        return self.call_opaque(node, fv, ctx)

    def call_opaque(self, node, fval, ctx):
        return self.unknown(ast.unparse(node.func)[:30] + "()")

    # ---------------------------------------------------------------- library loop combinators
    def run_while(self, cond, body, init, ctx):
        state = init
        for _ in range(self.LOOP_ROUNDS):
            nxt = self.join([state, self.apply_value(body, [state], ctx)])
            if nxt == state:
                break
            state = nxt
        self.apply_value(cond, [state], ctx)  # evaluates the stopping test on the loop invariant (recording hooks fire)
        return state

    def run_for(self, body, init, ctx, index_value=None):
        state = init
        for _ in range(self.LOOP_ROUNDS):
            nxt = self.join([state, self.apply_value(body, [index_value if index_value is not None else self.unknown("index"), state], ctx)])
            if nxt == state:
                break
            state = nxt
        return state
