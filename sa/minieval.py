"""MINI -- execution of a small helper on a literal list of SYMBOLS (abstract execution at a fixed small size).

Used to read off what a folding helper (`product(As)`, however it is written: functools.reduce with a lambda or operator function, an
accumulator loop, head / tail unpacking) computes from its argument: the helper is run on [X1, X2, X3]; every `@` builds a term.
Anything outside the fragment raises Undecided -- the caller then reports UNDECIDED, never a refutation."""
import ast


class Undecided(Exception):
    pass


class _Return(Exception):
    def __init__(self, v):
        self.v = v


def flatten_mm(t):
    """('mm', l, r) tree -> list of leaves in order (matrix multiplication is associative)"""
    if isinstance(t, tuple) and t and t[0] == "mm":
        return flatten_mm(t[1]) + flatten_mm(t[2])
    return [t]


class Mini:
    def __init__(self, resolve_call=None, budget=2000):
        self.resolve_call = resolve_call  # Call node -> ast.FunctionDef of a plain helper, or None
        self.budget = budget

    def run(self, fnode, args):
        params = [a.arg for a in fnode.args.args]
        if len(args) > len(params):
            raise Undecided("arity")
        env = dict(zip(params, args))
        defaults = fnode.args.defaults
        for p, d in zip(params[len(params) - len(defaults):], defaults):
            if p not in env:
                env[p] = self.ev(d, {})
        if len(env) != len(params):
            raise Undecided("missing argument")
        try:
            self.block(fnode.body, env)
        except _Return as r:
            return r.v
        return None

    def block(self, stmts, env):
        for st in stmts:
            self.budget -= 1
            if self.budget < 0:
                raise Undecided("budget")
            if isinstance(st, ast.Expr) and isinstance(st.value, ast.Constant):
                continue
            if isinstance(st, ast.Return):
                raise _Return(self.ev(st.value, env) if st.value is not None else None)
            if isinstance(st, ast.Assign):
                v = self.ev(st.value, env)
                for t in st.targets:
                    self.bind(t, v, env)
            elif isinstance(st, ast.AugAssign) and isinstance(st.target, ast.Name):
                cur = env.get(st.target.id)
                env[st.target.id] = self.binop(st.op, cur, self.ev(st.value, env))
            elif isinstance(st, ast.For):
                it = self.ev(st.iter, env)
                if not isinstance(it, list):
                    raise Undecided("iteration over a non-list")
                for x in it:
                    self.bind(st.target, x, env)
                    self.block(st.body, env)
                self.block(st.orelse, env)
            elif isinstance(st, ast.If):
                c = self.ev(st.test, env)
                if not isinstance(c, bool):
                    raise Undecided("condition")
                self.block(st.body if c else st.orelse, env)
            elif isinstance(st, ast.Pass) or isinstance(st, ast.Assert):
                continue
            else:
                raise Undecided(type(st).__name__)

    def bind(self, t, v, env):
        if isinstance(t, ast.Name):
            env[t.id] = v
        elif isinstance(t, (ast.Tuple, ast.List)):
            if not isinstance(v, (list, tuple)):
                raise Undecided("unpacking a non-sequence")
            v = list(v)
            star = [i for i, e in enumerate(t.elts) if isinstance(e, ast.Starred)]
            if not star:
                if len(v) != len(t.elts):
                    raise Undecided("unpack length")
                for e, x in zip(t.elts, v):
                    self.bind(e, x, env)
            else:
                i = star[0]
                n_after = len(t.elts) - i - 1
                if len(v) < len(t.elts) - 1:
                    raise Undecided("unpack length")
                for e, x in zip(t.elts[:i], v[:i]):
                    self.bind(e, x, env)
                self.bind(t.elts[i].value, v[i:len(v) - n_after], env)
                for e, x in zip(t.elts[i + 1:], v[len(v) - n_after:]):
                    self.bind(e, x, env)
        else:
            raise Undecided("assignment target")

    def binop(self, op, l, r):
        if isinstance(op, ast.MatMult):
            return ("mm", l, r)
        if isinstance(op, ast.Add) and isinstance(l, list) and isinstance(r, list):
            return l + r
        if isinstance(op, ast.Mult) and isinstance(l, list) and isinstance(r, int):
            return l * r
        if isinstance(op, ast.Mult) and isinstance(r, list) and isinstance(l, int):
            return r * l
        if isinstance(l, int) and isinstance(r, int) and isinstance(op, (ast.Add, ast.Sub, ast.Mult)):
            return {ast.Add: l + r, ast.Sub: l - r, ast.Mult: l * r}[type(op)]
        raise Undecided("operator")

    def ev(self, e, env):
        self.budget -= 1
        if self.budget < 0:
            raise Undecided("budget")
        if isinstance(e, ast.Constant):
            return e.value
        if isinstance(e, ast.Name):
            if e.id in env:
                return env[e.id]
            return ("global", e.id)
        if isinstance(e, (ast.List, ast.Tuple)):
            out = []
            for x in e.elts:
                if isinstance(x, ast.Starred):
                    v = self.ev(x.value, env)
                    if not isinstance(v, (list, tuple)):
                        raise Undecided("starred")
                    out += list(v)
                else:
                    out.append(self.ev(x, env))
            return out
        if isinstance(e, ast.BinOp):
            return self.binop(e.op, self.ev(e.left, env), self.ev(e.right, env))
        if isinstance(e, ast.UnaryOp) and isinstance(e.op, ast.USub):
            v = self.ev(e.operand, env)
            if isinstance(v, int):
                return -v
            raise Undecided("unary")
        if isinstance(e, ast.UnaryOp) and isinstance(e.op, ast.Not):
            v = self.ev(e.operand, env)
            if isinstance(v, bool):
                return not v
            raise Undecided("not")
        if isinstance(e, ast.Subscript):
            v = self.ev(e.value, env)
            if not isinstance(v, (list, tuple)):
                raise Undecided("subscript of a non-sequence")
            if isinstance(e.slice, ast.Slice):
                lo = self.ev(e.slice.lower, env) if e.slice.lower is not None else None
                hi = self.ev(e.slice.upper, env) if e.slice.upper is not None else None
                stp = self.ev(e.slice.step, env) if e.slice.step is not None else None
                if not all(x is None or isinstance(x, int) for x in (lo, hi, stp)):
                    raise Undecided("slice bounds")
                return list(v)[lo:hi:stp]
            i = self.ev(e.slice, env)
            if not isinstance(i, int) or not -len(v) <= i < len(v):
                raise Undecided("index")
            return v[i]
        if isinstance(e, ast.Compare) and len(e.ops) == 1:
            l, r = self.ev(e.left, env), self.ev(e.comparators[0], env)
            op = e.ops[0]
            if isinstance(op, (ast.Is, ast.IsNot)) and (l is None or r is None):
                same = l is None and r is None
                return same if isinstance(op, ast.Is) else not same
            if isinstance(l, int) and isinstance(r, int):
                return {ast.Eq: l == r, ast.NotEq: l != r, ast.Lt: l < r, ast.LtE: l <= r, ast.Gt: l > r, ast.GtE: l >= r}.get(type(op), None)
            raise Undecided("comparison")
        if isinstance(e, ast.IfExp):
            c = self.ev(e.test, env)
            if not isinstance(c, bool):
                raise Undecided("condition")
            return self.ev(e.body if c else e.orelse, env)
        if isinstance(e, ast.Lambda):
            return ("lambda", e, dict(env))
        if isinstance(e, (ast.ListComp, ast.GeneratorExp)) and len(e.generators) == 1 and not e.generators[0].ifs:
            g = e.generators[0]
            it = self.ev(g.iter, env)
            if not isinstance(it, list):
                raise Undecided("comprehension source")
            out = []
            for x in it:
                env2 = dict(env)
                self.bind(g.target, x, env2)
                out.append(self.ev(e.elt, env2))
            return out
        if isinstance(e, ast.Attribute):
            base = self.ev(e.value, env) if isinstance(e.value, ast.Name) and e.value.id in env else None
            if base is None:
                return ("global", ast.unparse(e))
            raise Undecided("attribute")
        if isinstance(e, ast.Call):
            return self.call(e, env)
        raise Undecided(type(e).__name__)

    def apply(self, f, args):
        if isinstance(f, tuple) and f and f[0] == "lambda":
            lam, env0 = f[1], f[2]
            ps = [a.arg for a in lam.args.args]
            if len(ps) != len(args):
                raise Undecided("lambda arity")
            return self.ev(lam.body, {**env0, **dict(zip(ps, args))})
        if isinstance(f, tuple) and f and f[0] == "global" and f[1] in ("operator.matmul", "matmul"):
            if len(args) == 2:
                return ("mm", args[0], args[1])
        raise Undecided("callee")

    def call(self, e, env):
        fname = ast.unparse(e.func)
        args = [self.ev(a, env) for a in e.args]
        if e.keywords:
            raise Undecided("keyword arguments")
        if fname in ("reduce", "functools.reduce") and len(args) in (2, 3):
            seq = args[1]
            if not isinstance(seq, list):
                raise Undecided("reduce over a non-list")
            seq = list(seq)
            if len(args) == 3:
                acc = args[2]
            elif seq:
                acc, seq = seq[0], seq[1:]
            else:
                raise Undecided("empty reduce")
            for x in seq:
                acc = self.apply(args[0], [acc, x])
            return acc
        if fname in ("list", "tuple") and len(args) == 1 and isinstance(args[0], (list, tuple)):
            return list(args[0])
        if fname == "reversed" and len(args) == 1 and isinstance(args[0], list):
            return list(reversed(args[0]))
        if fname == "len" and len(args) == 1 and isinstance(args[0], list):
            return len(args[0])
        if fname == "range" and all(isinstance(a, int) for a in args) and 1 <= len(args) <= 3:
            return list(range(*args))
        if fname == "enumerate" and len(args) == 1 and isinstance(args[0], list):
            return [[i, x] for i, x in enumerate(args[0])]
        if fname == "zip" and all(isinstance(a, list) for a in args):
            return [list(t) for t in zip(*args)]
        if isinstance(e.func, ast.Name) and e.func.id in env:
            return self.apply(env[e.func.id], args)
        if self.resolve_call is not None:
            callee = self.resolve_call(e)
            if callee is not None:
                return Mini(self.resolve_call, self.budget).run(callee, args)
        raise Undecided(f"call {fname}")
