"""DTYPE analysis (DESIGN.md 4/C01 clauses 1-2): which dtypes can influence a value's dtype.
Abstract value: frozenset of sources  {'op', 'arg', 'unknown'}  ('op' = the operator's own arrays / dtype,
'arg' = the operand X)."""
import ast

from sa import dataflow as df
from sa.absint import AbsInt

E = frozenset()
OP = frozenset({"op"})
ARG = frozenset({"arg"})
UNK = frozenset({"unknown"})


class DType(AbsInt):
    AUG_KEEPS_VALUE = True  # numpy / torch in-place arithmetic keeps the receiver's dtype

    def __init__(self, idx, operand, op_names=("self", )):
        super().__init__(idx)
        self.operand = operand
        self.op_names = set(op_names)  # names that stand for the operator itself (`self` in methods, the first parameter of a rule)
        self.scatters = []  # (update_array call, function, buffer dtype sources, value dtype sources, sources lost)
        self.casts = []  # (call, function, value dtype sources, target dtype sources, sources lost): explicit conversions to a dtype

    def _cast(self, node, ctx, value, target):
        lost = frozenset(self.flat(value) & {"complexified", "arg", "op"}) - self.flat(target)
        self.casts.append((node, ctx.fi if ctx is not None else None, self.flat(value), self.flat(target), lost))

    def unknown(self, why=""):
        return UNK

    def const(self, node):
        if isinstance(node.value, complex):
            return frozenset({"complex-literal"})
        return E

    def param(self, fi, name):
        if name == self.operand:
            return ARG
        if name in self.op_names:
            return OP
        return E

    def self_attr(self, fi, attr, node):
        if attr in ("shape", "xnp", "device", "axis", "lower", "block_size1", "block_size2", "iters1", "iters2", "multiplicities", "slices", "array_shape", "kwargs", "info", "fn", "f", "alg",
                    "conv"):
            return E if attr not in ("fn", "f", "conv", "alg") else UNK
        return OP

    def cyclic(self, name):
        return E  # least fixpoint of a union domain

    def container_mutated(self, name, value):
        return value  # appended values are added in name() below

    def name(self, name, ctx):
        v = self.flat(super().name(name, ctx))
        # containers filled through .append / .extend
        f = ctx.fi
        if f is not None and name not in ctx.env:
            for c in df.calls(f.node, into_nested=False):
                if isinstance(c.func, ast.Attribute) and c.func.attr in ("append", "extend") and isinstance(c.func.value, ast.Name) and c.func.value.id == name and c.args:
                    key = (id(f.node), "append", name)
                    if key in ctx.busy:
                        continue
                    ctx.busy.add(key)
                    try:
                        v = v | self.flat(self.ev(c.args[0], ctx))
                    finally:
                        ctx.busy.discard(key)
        return v

    def join(self, vals):
        out = set()
        for v in vals:
            if isinstance(v, frozenset):
                out |= v
            elif isinstance(v, tuple) and v and v[0] == "tuple":
                for x in v[1]:
                    out |= x if isinstance(x, frozenset) else self.join([x])
            else:
                out.add("unknown")
        return frozenset(out)

    def alternatives(self, v):
        return [v]

    def index(self, v, i):
        return v if isinstance(v, frozenset) else self.join([v])

    def element_of(self, v, i):
        return v

    def flat(self, v):
        return v if isinstance(v, frozenset) else self.join([v])

    def attribute(self, base, attr, node, ctx):
        base = self.flat(base)
        if attr in ("shape", "device", "ndim", "size"):
            return E
        return base

    def subscript(self, base, node, ctx):
        return self.flat(base)

    def binop(self, node, l, r, ctx):
        return self.flat(l) | self.flat(r)

    def unaryop(self, node, v, ctx):
        return self.flat(v)

    def call_xnp(self, name, node, args, kwargs, ctx):
        args = [self.flat(a) for a in args]
        kwargs = {k: self.flat(v) for k, v in kwargs.items()}
        if name in ("zeros", "ones", "eye", "canonical", "randn"):
            d = kwargs.get("dtype")
            if d is None:
                # positional dtype: zeros(shape, dtype, ...)
                pos = {"zeros": 1, "ones": 1, "eye": 2, "canonical": 2}.get(name)
                d = args[pos] if pos is not None and len(args) > pos else E
            return d
        if name in ("zeros_like", "ones_like"):
            return args[0] if args else E
        if name == "cast":
            d = kwargs.get("dtype", args[1] if len(args) > 1 else UNK)
            self._cast(node, ctx, args[0] if args else E, d)
            return d
        if name == "array":
            d = kwargs["dtype"] if "dtype" in kwargs else (args[1] if len(args) > 1 else None)
            if d is not None and args:
                self._cast(node, ctx, args[0], d)
            return d if d is not None else (args[0] if args else E)
        if name == "eig":
            # the eigen-decomposition of a general (non-Hermitian) matrix is complex whatever the dtype of the matrix
            return (args[0] if args else E) | frozenset({"complexified"})
        if name == "promote_types":
            return frozenset().union(*args) if args else E
        if name == "update_array":
            # writing into a buffer keeps the buffer's dtype: an operand whose dtype the buffer's does not cover is cast down
            if len(args) >= 2:
                lost = (args[1] & {"op", "arg"}) - args[0]
                self.scatters.append((node, ctx.fi if ctx is not None else None, args[0], args[1], frozenset(lost)))
            return args[0] if args else UNK
        if name in ("get_device", "get_default_device", "device", "arange", "argsort", "finfo"):
            return E
        if name in ("fft", "ifft"):
            return (args[0] if args else E) | frozenset({"opaque"})
        if name in ("vmap", "jvp_derivs", "vjp_derivs", "grad", "linear_transpose", "jit"):
            return UNK
        out = set()
        for a in args:
            out |= a
        for k, v in kwargs.items():
            if k not in ("axis", "device", "keepdims", "norm", "lower"):
                out |= v
        return frozenset(out)

    def call_method(self, recv, name, node, args, kwargs, ctx):
        recv = self.flat(recv)
        args = [self.flat(a) for a in args]
        if name in ("to", "astype"):
            d = kwargs.get("dtype")
            out = self.flat(d) if d is not None else (args[0] if args and name == "astype" else recv)
            if d is not None or (args and name == "astype"):
                self._cast(node, ctx, recv, out)
            return out
        if name in ("_matmat", "_rmatmat"):
            return recv | (args[0] if args else E)
        if name in ("append", ):
            return E
        return recv | (frozenset().union(*args) if args and name in ("dot", "matmul") else E)

    def call_builtin(self, name, node, args, kwargs, ctx):
        if name in ("len", "range", "isinstance", "hasattr", "slice", "enumerate", "zip", "int", "tuple", "list", "round", "max", "min", "abs"):
            if name in ("zip", "enumerate", "tuple", "list", "max", "min", "abs"):
                return self.join([self.flat(a) for a in args])
            return E
        if name == "sum":
            return self.join([self.flat(a) for a in args])
        return UNK

    def call_external(self, dotted, node, args, kwargs, ctx):
        if dotted == "functools.reduce":
            return self.join([self.flat(a) for a in args[1:]])
        if dotted.startswith("functools.partial"):
            return UNK
        return self.join([self.flat(a) for a in args]) if args else UNK

    def call_class(self, ci, node, args, kwargs, ctx):
        return self.join([self.flat(a) for a in args])

    def call_dispatch(self, fname, node, args, kwargs, ctx):
        return self.join([self.flat(a) for a in args])

    def call_unknown(self, node, ctx):
        return UNK

    def follow_callee(self, callee):
        return callee.module.name.startswith("cola.ops")

    def other(self, node, ctx):
        if isinstance(node, (ast.ListComp, ast.GeneratorExp, ast.SetComp)):
            env = dict(ctx.env)
            for g in node.generators:
                it = self.flat(self.ev(g.iter, AbsInt.Ctx(ctx.fi, env, ctx.depth + 1)))
                for n in df.target_names(g.target):
                    env[n] = it
            return self.flat(self.ev(node.elt, AbsInt.Ctx(ctx.fi, env, ctx.depth + 1)))
        if isinstance(node, (ast.List, ast.Tuple)):
            return self.join([self.flat(self.ev(x, ctx)) for x in node.elts])
        if isinstance(node, ast.Compare):
            return E
        return UNK

    def ev(self, e, ctx):
        if isinstance(e, ast.Tuple):
            return self.join([self.flat(self.ev(x, ctx)) for x in e.elts])
        return super().ev(e, ctx)
