"""C11 — cholesky and plu (DESIGN.md section 4, C11): structure-level obligations with TERM.

(i) structural rules return the same composite kind built factor-wise (order and multiplicities kept);
(ii) tuple-role consistency of plu: component i of every rule has the role it has in the base case;
(iii) base cases wrap the backend factor of A itself with the right triangular flags;
(iv) Diagonal | ScalarMul rules return sqrt(A) (and I, S, S for plu);  (v) no densification: C19.
"""
import ast

from sa import dataflow as df
from sa.resolver import Resolver
from sa.termutil import guard_hyps, kind_def
from sa.term import H, I, INV, MUL, SCAL, T, VAR, TermEval, alternatives, equal, expand, has_opaque, norm, opaque_text, show, sym

FAM = {"Kronecker": "kron", "BlockDiag": "bdiag"}


def flag_of(t):
    """('tri', x, flag) -> (x, 'True' / 'False' / text)"""
    if isinstance(t, tuple) and t and t[0] == "tri":
        f = t[2]
        txt = f[1] if isinstance(f, tuple) and f[0] == "pyconst" else show(f)
        return t[1], txt
    return t, None


def run(idx, rep, tier):
    core = frozenset(idx.core_modules())
    res = Resolver(idx, core)
    # ------------------------------------------------------------ cholesky
    rules = res.rules_of("cholesky")
    from sa.autorule import arity_obligations
    arity_obligations(idx, rep, list(rules) + list(res.rules_of("plu")))
    if not rules:
        rep.missing_anchor("dispatched function cholesky")
    for rule in rules:
        fi = rule.func
        a = rule.params[0][0]
        kinds = sorted(rule.types[0])
        te = TermEval(idx)
        rets = [r for r in df.returns(fi.node) if r.value is not None]
        for r in rets:
            t = te.eval_in(fi, r.value)
            loc = idx.loc(fi.module, r)
            if kinds == ["LinearOperator"]:
                x, flag = flag_of(t)
                nx = norm(x, frozenset({("herm", sym(a))}))
                ok = nx[0] == "factor" and nx[1] == "cholesky" and equal(nx[2], sym(a), frozenset({("herm", sym(a))})) is True
                why = f"factorises {show(nx[2]) if nx[0] == 'factor' else show(nx)}" + ("" if ok else f" instead of {a} (H({a}) = {a} assumed)")
                if nx[0] == "factor" and has_opaque(nx[2]):
                    ok, why = None, f"input of the backend factorisation outside the grammar: {opaque_text(nx[2])}"
                rep.decide(ok, "base-case", "cholesky(LinearOperator)", "backend Cholesky " + why, detail="" if ok else "input", locs=[loc])
                rep.decide(flag == "True" if flag is not None else None, "base-case", "cholesky(LinearOperator):lower", f"factor wrapped as Triangular(lower={flag})", detail="" if flag == "True" else "flag",
                           locs=[loc])
            elif kinds == ["Identity"]:
                ok = norm(t) == sym(a)
                rep.decide(ok, "structural-factor", rule.role, "the Cholesky factor of I is I" if ok else f"returns {show(norm(t))}", detail="" if ok else "identity", locs=[loc])
            elif set(kinds) <= {"Diagonal", "ScalarMul"}:
                nt = norm(t)
                ok = nt[0] == "fn" and nt[1] in ("sqrt", "pow:0.5") and nt[2] == sym(a)
                if not ok and has_opaque(nt):
                    # the factor written on the payload: Diagonal(xnp.sqrt(A.diag)) IS sqrt(A); a root of anything else derived from the
                    # payload (clipped, shifted, abs) is the factor of a different matrix; other forms are not judged
                    v_ = df.resolve_value(fi.node, r.value) if isinstance(r.value, ast.Name) else r.value
                    ok = None
                    if isinstance(v_, ast.Call) and ast.unparse(v_.func).split(".")[-1] == "Diagonal" and len(v_.args) == 1:
                        inner = df.resolve_value(fi.node, v_.args[0]) if isinstance(v_.args[0], ast.Name) else v_.args[0]
                        if isinstance(inner, ast.Call) and df.is_xnp_call(inner) == "sqrt" and len(inner.args) == 1:
                            arg = df.resolve_value(fi.node, inner.args[0]) if isinstance(inner.args[0], ast.Name) else inner.args[0]
                            if ast.unparse(arg).replace(" ", "") == f"{a}.diag":
                                ok = True
                            elif any(isinstance(x, ast.Attribute) and x.attr == "diag" and isinstance(x.value, ast.Name) and x.value.id == a for x in ast.walk(arg)):
                                ok = False
                    if ok is True:
                        rep.proved("structural-factor", rule.role, f"returns Diagonal(sqrt({a}.diag)): the element-wise root of the payload is sqrt({a})", locs=[loc])
                        continue
                    if ok is False:
                        rep.refuted("structural-factor", rule.role, f"returns `{ast.unparse(v_)[:80]}`: the root is taken of a modified diagonal, L·L^H is not {a}", detail="sqrt", locs=[loc])
                        continue
                rep.decide(ok, "structural-factor", rule.role, f"returns {show(nt)}; required sqrt({a})", detail="" if ok else "sqrt", locs=[loc])
            elif len(kinds) == 1 and kinds[0] in FAM:
                want = ("fam", FAM[kinds[0]], 1, ("chol", VAR), f"{a}.Ms") + ((f"{a}.multiplicities", ) if kinds[0] == "BlockDiag" else ())
                ok = equal(t, want)
                rep.decide(ok, "structural-factor", rule.role, f"returns {show(norm(t))}; required the same {kinds[0]} structure of the factors' Cholesky factors, in order" +
                           (" with the multiplicities" if kinds[0] == "BlockDiag" else ""), detail="" if ok else "structure", locs=[loc])
            else:
                # a kind without a tabulated factor: L·H(L) must be the operand (necessary; lower-triangularity of L is not decided)
                kd = kind_def(idx, kinds[0], a) if len(kinds) == 1 else None
                defs = {sym(a): kd} if kd is not None else {}
                hyp = frozenset(set(guard_hyps(idx, fi, r)) | {("herm", sym(a))})
                ok = equal(MUL(t, H(t)), sym(a), hyp, defs)
                rep.decide(ok, "structural-factor", rule.role, f"returns L = {show(norm(t))}; L·H(L) = {show(norm(expand(MUL(t, H(t)), defs), hyp))}, the operand {show(norm(expand(sym(a), defs), hyp))}",
                           detail="" if ok else "product", locs=[loc])
    # ------------------------------------------------------------ plu
    rules = res.rules_of("plu")
    if not rules:
        rep.missing_anchor("dispatched function plu")
    for rule in rules:
        fi = rule.func
        a = rule.params[0][0]
        kinds = sorted(rule.types[0])
        te = TermEval(idx)
        rets = [r for r in df.returns(fi.node) if r.value is not None]
        for r in rets:
            t = te.eval_in(fi, r.value)
            loc = idx.loc(fi.module, r)
            alts = alternatives(t)
            if not all(x[0] == "tuple" and len(x[1]) == 3 for x in alts):
                rep.undecided("plu-roles", rule.role, f"does not return a 3-tuple in the grammar: {show(t)[:80]}", locs=[loc])
                continue
            for x in alts:
                comps = x[1]
                if kinds == ["LinearOperator"]:
                    p = norm(comps[0])
                    okp = p[0] == "perm" and p[1][0] == "lu" and p[1][2] == 0 and norm(p[1][1]) == sym(a)
                    l, lf = flag_of(comps[1])
                    u, uf = flag_of(comps[2])
                    okl = l[0] == "lu" and l[2] == 1 and lf == "True"
                    oku = u[0] == "lu" and u[2] == 2 and uf == "False"
                    ok = okp and okl and oku
                    rep.decide(ok, "base-case", "plu(LinearOperator)", f"returns (Permutation of {show(p[1]) if p[0] == 'perm' else show(p)}, Triangular({show(l)}, lower={lf}), Triangular({show(u)}, lower={uf}))"
                               + ("" if ok else "; required (Permutation(p), Triangular(L, lower=True), Triangular(U, lower=False)) of xnp.lu(A)"), detail="" if ok else "roles", locs=[loc])
                elif kinds == ["Identity"]:
                    ok = all(norm(c) == sym(a) for c in comps)
                    rep.decide(ok, "plu-roles", rule.role, "P = L = U = I", detail="" if ok else "identity", locs=[loc])
                elif set(kinds) <= {"Diagonal", "ScalarMul"}:
                    n = [norm(c) for c in comps]
                    ok = n[0] == I and n[1] == n[2] and n[1][0] == "fn" and n[1][1] in ("sqrt", "pow:0.5") and n[1][2] == sym(a)
                    rep.decide(ok, "plu-roles", rule.role, f"returns ({', '.join(show(c) for c in n)}); required (I, sqrt({a}), sqrt({a}))", detail="" if ok else "roles", locs=[loc])
                elif len(kinds) == 1 and kinds[0] in FAM:
                    oks = []
                    for i, c in enumerate(comps):
                        want = ("fam", FAM[kinds[0]], 1, ("plu", VAR, i), f"{a}.Ms") + ((f"{a}.multiplicities", ) if kinds[0] == "BlockDiag" else ())
                        oks.append(equal(c, want))
                    ok = all(o is True for o in oks) if all(o is not None for o in oks) else (False if any(o is False for o in oks) else None)
                    rep.decide(ok, "plu-roles", rule.role, f"returns ({', '.join(show(norm(c)) for c in comps)}); component i must be the {kinds[0]} of the factors' i-th plu component, in order"
                               + (" with the multiplicities" if kinds[0] == "BlockDiag" else ""), detail="" if ok else "roles", locs=[loc])
                else:
                    # a kind without a tabulated factorisation: the three factors must at least multiply back to the operand
                    # (necessary; that L / U are lower / upper triangular is not decided for such a rule)
                    kd = kind_def(idx, kinds[0], a) if len(kinds) == 1 else None
                    defs = {sym(a): kd} if kd is not None else {}
                    hyp = guard_hyps(idx, fi, r)
                    ok = equal(MUL(*comps), sym(a), hyp, defs)
                    rep.decide(ok, "plu-roles", rule.role, f"returns ({', '.join(show(norm(c)) for c in comps)}); the product of the factors is {show(norm(expand(MUL(*comps), defs), hyp))}, "
                               f"the operand {show(norm(expand(sym(a), defs), hyp))}", detail="" if ok else "product", locs=[loc])
    # Cholesky / LU algorithm objects call the functions
    for cname, fname in (("Cholesky", "cholesky"), ("LU", "plu")):
        if idx.has_cls(cname):
            call = idx.cls(cname).methods.get("__call__")
            if call is not None:
                ok = any(isinstance(c.func, ast.Name) and c.func.id == fname and c.args and ast.unparse(c.args[0]) == call.params[1] for c in df.calls(call.node))
                rep.decide(ok, "base-case", f"{cname}.__call__", f"{cname}()(A) {'calls' if ok else 'does not call'} {fname}(A)", detail="" if ok else "delegate", locs=[idx.loc(call.module, call.node)])
    rep.floor("base-case", 4)
    rep.floor("structural-factor", 4)
    rep.floor("plu-roles", 4)
    rep.explanation = ("TERM: structural cholesky/plu rules must rebuild the operand's own composite kind from the factor-wise decompositions (order and multiplicities kept, "
                       "tuple component i of plu in role i), base cases must hand A itself to the backend factorisation and wrap the factors with the right triangular flags.")
    rep.assumptions += ["L·L^H = A and P·L·U = A as numbers, and positive-definiteness, are not decided", "no densification of the composite is C19"]
