"""helpers shared by the TERM-based property assemblies: hypotheses from guards, class matrix terms"""
import ast

from sa import dataflow as df
from sa.term import H, MUL, T, C, INV, I, TermEval, alternatives, equal, has_opaque, norm, opaque_text, show, sym  # noqa: F401

HERM = {"SelfAdjoint", "PSD", "Hermitian"}


def isa_hyp(idx, fi, test, positive=True):
    """hypotheses implied by a boolean test made of X.isa(Ann) conjuncts"""
    out = set()
    if isinstance(test, ast.BoolOp) and isinstance(test.op, ast.And) and positive:
        for v in test.values:
            out |= isa_hyp(idx, fi, v, True)
        return out
    if isinstance(test, ast.Call) and isinstance(test.func, ast.Attribute) and test.func.attr == "isa" and test.args and positive:
        r = idx.resolve_expr(fi.module, test.args[0], fi)
        who = test.func.value
        # `A.isa(..)` and `A.A.isa(..)` (the wrapped operator of a Transpose / Adjoint, named as in KIND_DEF)
        s = sym(who.id) if isinstance(who, ast.Name) else (sym(ast.unparse(who)) if isinstance(who, ast.Attribute) and df.attr_chain(who)[0] is not None else None)
        if r is not None and r.kind == "class" and s is not None:
            if r.val.name in HERM:
                out.add(("herm", s))
            if r.val.name == "Unitary":
                out.add(("unitary", s))
    return out


def guard_hyps(idx, fi, node):
    """hypotheses that hold at `node` (a Return or expression statement): enclosing positive if-branches,
    asserts that precede it at function level, and the rule's cond"""
    hyp = set()
    node = getattr(node, "_origin", node)  # df.effective_return stands for the original Return statement
    for t, pol in df.branch_conditions(node, fi.node):
        if pol:
            hyp |= isa_hyp(idx, fi, t)
    for st in fi.node.body:
        if getattr(st, "lineno", 0) >= getattr(node, "lineno", 0):
            break
        if isinstance(st, ast.Assert):
            hyp |= isa_hyp(idx, fi, st.test)
    rule = getattr(fi, "rule", None)
    if rule is not None and rule.cond is not None and isinstance(rule.cond, ast.Lambda):
        lam = rule.cond
        lp = [a.arg for a in lam.args.args]
        # rename lambda parameters to the rule's parameter names (positional)
        mapping = {a: rule.params[i][0] for i, a in enumerate(lp) if i < len(rule.params)}
        for h in isa_hyp(idx, fi, lam.body):
            s = h[1]
            hyp.add((h[0], sym(mapping.get(s[1], s[1]))))
    return frozenset(hyp)


def strip_operand(t, operand, side):
    """t = M·X (side='right') or X·M (side='left'): return M, or None"""
    t = norm(t)
    xs = list(t[1]) if t[0] == "mul" else [t]
    scal = None
    if t[0] == "scal":
        scal = t[1]
        inner = t[2]
        xs = list(inner[1]) if inner[0] == "mul" else [inner]
    if side == "right" and xs and xs[-1] == operand:
        rest = xs[:-1]
    elif side == "left" and xs and xs[0] == operand:
        rest = xs[1:]
    else:
        return None
    body = I if not rest else (rest[0] if len(rest) == 1 else ("mul", tuple(rest)))
    return ("scal", scal, body) if scal is not None else body


# ------------------------------------------------------------------------------------------------ what an operator kind represents
# The defining equation `A = <term over A's attributes>` of an operator class.  For the kinds whose product is written in the term
# grammar it is read off the class's own _matmat (so a new kind, or a kind that gains a structural rule, needs no table entry); the
# composite kinds whose product is a reshape / concatenation algorithm have the definition that C01 checks that algorithm against.
from sa.term import SCAL, VAR  # noqa: E402

COMPOSITE_KIND_DEF = {
    "Product": lambda a: ("fam", "mul", 1, VAR, f"{a}.Ms"),
    "Sum": lambda a: ("fam", "add", 1, VAR, f"{a}.Ms"),
    "Kronecker": lambda a: ("fam", "kron", 1, VAR, f"{a}.Ms"),
    "KronSum": lambda a: ("fam", "ksum", 1, VAR, f"{a}.Ms"),
    "BlockDiag": lambda a: ("fam", "bdiag", 1, VAR, f"{a}.Ms", f"{a}.multiplicities"),
}
_KIND_CACHE = {}


def _rename_self(t, a):
    if isinstance(t, str):
        return a + t[4:] if t == "self" or t.startswith("self.") else t
    if isinstance(t, tuple):
        return tuple(_rename_self(x, a) for x in t)
    if isinstance(t, frozenset):
        return frozenset(_rename_self(x, a) for x in t)
    return t


def kind_def(idx, kind, a):
    """term for the matrix represented by the operator named `a` of class `kind`, or None when the class's product is outside the grammar"""
    if kind in COMPOSITE_KIND_DEF:
        return COMPOSITE_KIND_DEF[kind](a)
    key = (id(idx), kind)
    if key not in _KIND_CACHE:
        M = None
        if idx.has_cls(kind):
            ci = idx.cls(kind)
            mm = idx.find_method(ci, "_matmat")
            if mm is not None and mm.cls is not None and mm.cls.name != "LinearOperator" and len(mm.params) >= 2:
                te = TermEval(idx)
                te.self_cls = ci
                rets = [r for r in df.returns(mm.node) if r.value is not None]
                t = te.eval_in(mm, rets[0].value) if len(rets) == 1 else ("opaque", "returns")
                M = strip_operand(t, sym(mm.params[1]), "right")
                if M is not None and has_opaque(M):
                    M = None
        _KIND_CACHE[key] = M
    M = _KIND_CACHE[key]
    return None if M is None else _rename_self(M, a)
