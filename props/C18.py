"""C18 — operators are persistent values (DESIGN.md section 4, C18).

1. no in-place write reaches caller-owned storage (OWN: flow-sensitive origins + bottom-up
   parameter-write summaries);
2. operators are not modified after construction (attribute stores / mutating calls on
   representation-relevant attributes outside constructors);
3. declaring an annotation builds a new object and a new set;
4. flatten / unflatten protocol agreement (writer and reader encode/decode alike).
"""
import ast

from sa import dataflow as df
from sa.krylov import nospace
from sa.own import CONSTRUCTOR_METHODS, MUTATING_METHODS, Own, flat, show

EXCLUDED_MODULES = {"cola.utils.utils_for_tests": "test helpers, not library code"}
# one symbol each, with the reason (DESIGN.md 4/C18 precision notes)
EXCLUDED_FUNCS = {
    ("cola.utils", "export"): "module-namespace plumbing (appends to module.__all__), no arrays or operators",
    ("cola.utils", "import_every"): "module-namespace plumbing",
    ("cola.utils", "import_from_all"): "module-namespace plumbing",
    ("cola.utils.custom_autodiff", "iterative_autograd.wrap_iterative.iterative_w_A_arg.Iterative.setup_context"): "ctx belongs to torch.autograd",
    ("cola.backends.np_fns", "update_array"): "the in-place primitive being tracked",
    ("cola.backends.torch_fns", "update_array"): "the in-place primitive being tracked",
    ("cola.backends.jax_fns", "update_array"): "functional on jax",
    ("cola.backends.np_fns", "canonical"): "writes a buffer it allocated itself",
}
REPR_METHODS = ("_matmat", "_rmatmat", "to_dense", "to", "__getitem__", "__matmul__", "__rmatmul__", "isa", "flatten")
METADATA = {"shape", "dtype", "device", "annotations", "xnp"}


def lib_funcs(idx):
    return [f for f in idx.funcs.values() if f.module.name not in EXCLUDED_MODULES]


def excluded_ids(idx):
    out = {}
    for f in idx.funcs.values():
        k = (f.module.name, f.short)
        if k in EXCLUDED_FUNCS:
            out[id(f.node)] = EXCLUDED_FUNCS[k]
        elif f.name == "setup_context":
            out[id(f.node)] = EXCLUDED_FUNCS[("cola.utils.custom_autodiff", "iterative_autograd.wrap_iterative.iterative_w_A_arg.Iterative.setup_context")]
    return out


def exported_names(idx):
    names = set()
    for m in idx.modules.values():
        for n in ast.walk(m.tree):
            if isinstance(n, (ast.FunctionDef, ast.ClassDef)):
                for d in n.decorator_list:
                    r = idx.resolve_expr(m, d if not isinstance(d, ast.Call) else d.func)
                    if r is not None and r.kind == "funcs" and r.val[-1].name == "export":
                        names.add(n.name)
        for name, ds in m.defs.items():
            if name == "__all__":
                for d in ds:
                    if isinstance(d, tuple) and isinstance(d[1], (ast.List, ast.Tuple)):
                        for e in d[1].elts:
                            if isinstance(e, ast.Constant) and isinstance(e.value, str):
                                names.add(e.value)
    return names


_STATE = {}


def is_public(idx, fi, exported):
    if fi.parent is not None:
        return False
    if fi.cls is not None:
        if fi.cls.parent_fn is not None:
            return False
        if fi.cls.name.startswith("_") and not fi.cls.name.startswith("__"):
            return False  # methods of an internal class are internal API: their parameter writes are charged to their callers
        n = fi.name
        return not n.startswith("_") or (n.startswith("__") and n.endswith("__")) or n in ("_matmat", "_rmatmat")
    if fi.module.name.startswith("cola.backends.") and fi.module.name.endswith("_fns"):
        return True
    return fi.name in exported


def repr_reads(idx, ci):
    """attributes read by name in the representation-relevant methods of class ci (own and inherited)"""
    reads = set(METADATA)
    # the representation-relevant methods and the private methods of the object they call (transitively)
    relevant, work = set(), []
    for c in idx.mro(ci):
        for mname, m in c.methods.items():
            is_prop = any(isinstance(d, ast.Name) and d.id == "property" for d in m.node.decorator_list)
            if mname in REPR_METHODS or is_prop:
                work.append(m)
    while work:
        m = work.pop()
        if id(m.node) in relevant:
            continue
        relevant.add(id(m.node))
        for c_ in df.calls(m.node):
            if isinstance(c_.func, ast.Attribute) and isinstance(c_.func.value, ast.Name) and c_.func.value.id == "self":
                h = idx.find_method(ci, c_.func.attr)
                if h is not None and id(h.node) not in relevant:
                    work.append(h)
    for c in idx.mro(ci):
        for mname, m in c.methods.items():
            if id(m.node) not in relevant:
                continue
            recv_of_mut = set()
            for n in df.body_nodes(m.node):
                if isinstance(n, ast.Call) and isinstance(n.func, ast.Attribute) and n.func.attr in MUTATING_METHODS:
                    recv_of_mut.add(id(n.func.value))
            for n in df.body_nodes(m.node):
                if isinstance(n, ast.Attribute) and isinstance(n.value, ast.Name) and n.value.id == "self" and isinstance(n.ctx, ast.Load) and id(n) not in recv_of_mut:
                    reads.add(n.attr)
    return reads


def run(idx, rep, tier):
    excl = excluded_ids(idx)
    own = Own(idx, excluded=excl)
    exported = exported_names(idx)
    _STATE["exported"] = exported
    funcs = lib_funcs(idx)
    rep.analysed["functions"] = len(funcs)
    rep.analysed["matmul_may_return_operand"] = own.matmul_may_alias
    rep.analysed["excluded_symbols"] = {f"{k[0]}:{k[1]}": v for k, v in EXCLUDED_FUNCS.items()}
    if not own.matmul_may_alias:
        rep.note("no _matmat returns its operand unchanged: products are treated as fresh")
    # analyse top-level functions and methods first, then nested functions with their owner's environment
    results = {}
    top = [f for f in funcs if f.parent is None]
    for f in top:
        if id(f.node) in excl:
            continue
        r = own.analyse(f)
        if r is not None:
            results[id(f.node)] = (f, r)
    pending = [f for f in funcs if f.parent is not None]
    pending.sort(key=lambda f: f.qual.count("."))
    for f in pending:
        if id(f.node) in excl or id(f.node) in own.inlined:
            continue
        owner = results.get(id(f.parent.node))
        env0 = dict(getattr(owner[1], "env_final", {})) if owner else {}
        r = own.analyse(f, env0=env0)
        if r is not None:
            results[id(f.node)] = (f, r)
            own.results[id(f.node)] = r

    # ------------------------------------------------------------ clause 1 + 2: classify every write site
    counts = {}
    seen_sites = set()
    n_sites = 0
    for fid, (f, r) in results.items():
        for s in r.sites:
            k = (id(s.node), s.kind)
            if k in seen_sites:
                continue
            seen_sites.add(k)
            n_sites += 1
            classify_site(idx, rep, own, s, counts)
    rep.analysed["write_sites"] = n_sites
    rep.analysed["write_site_kinds"] = counts

    # ------------------------------------------------------------ public roots must not write their parameters
    n_roots = 0
    for fid, (f, r) in results.items():
        if not is_public(idx, f, exported):
            continue
        n_roots += 1
        bad = {}
        for p, whys in r.param_writes.items():
            if p not in f.params and p not in [a.arg for a in f.node.args.kwonlyargs]:
                continue
            kind = own.param_kind(f, p)
            if kind == "scalar":
                continue
            if kind == "operator" and (p in ("self", "cls")):
                continue  # self writes are clause 2
            bad[p] = whys
        construct = pub_name(f)
        if not bad:
            rep.count("public-root-param-write", proved=1, nontrivial=1 if r.sites or r.calls_out else 0)
            continue
        for p, whys in sorted(bad.items()):
            rep.refuted("public-root-param-write", construct, f"{construct} may write in place into its argument `{p}`: " + "; ".join(f"{w[0]} @{w[1]}" for w in whys[:3]),
                        detail=p, locs=[idx.loc(f.module, f.node)] + [w[1] for w in whys[:4]], derivation=[list(w) for w in whys[:8]])
    rep.analysed["public_roots"] = n_roots

    declare_annotation(idx, rep, own)

    # ------------------------------------------------------------ clause 4: flatten / unflatten agreement
    flatten_protocol(idx, rep)
    class_table_ownership(idx, rep)
    leaf_classification(idx, rep)

    rep.floor("write-site", 90)
    rep.floor("public-root-param-write", 150)
    rep.floor("operator-mutation", 6)
    rep.floor("declare-annotation", 1)
    rep.floor("flatten-protocol", 5)
    rep.floor("leaf-classification", 1)
    rep.explanation = ("Ownership analysis: every in-place write site in cola/ (update_array, augmented assignment, subscript/attribute store, out=, mutating "
                       "methods, setattr) is classified by the origins of its target (fresh / view / parameter / self attribute / global), flow-sensitively per "
                       "function, with parameter-write and return-alias summaries propagated through resolved calls (dispatch rules, methods, loop-carried "
                       "states) to a fixpoint; products are treated as possibly returning their operand because Identity._matmat does.")
    rep.assumptions += [
        "backend functions listed in sa/own.py XNP_FRESH return fresh storage; XNP_VIEW may alias their first argument",
        "a parameter with a numeric/str default or int/float/bool/str annotation is an immutable scalar (augmented assignment rebinds)",
        "the history clause of flatten (registry filled by first instance) is not decided",
        "excluded symbols: " + "; ".join(f"{k[1]} ({v})" for k, v in EXCLUDED_FUNCS.items()),
    ]


def declare_annotation(idx, rep, own):
    """clause 3 (shared with C05): declaring an annotation builds a new object and a new set"""
    wrap = None
    for ci in idx.classes.values():
        if ci.name == "WrapMeta" and "__call__" in ci.methods:
            wrap = ci.methods["__call__"]
    if wrap is None:
        rep.missing_anchor("annotation wrapper (WrapMeta.__call__)")
    else:
        r = own.analyse(wrap)
        p = wrap.params[1] if len(wrap.params) > 1 else None
        bad = [w for w in r.param_writes.get(p, [])] if p else []
        new_obj_fresh = None
        stores = [s for s in r.sites if s.kind == "attribute store" and s.detail == "annotations"]
        # the wrapper may hand the work to a method of the operator (`return obj.annotated(self)`): the copy and the new set are then
        # made there, with the receiver in the role of the wrapped operator (its writes to the receiver reach `bad` through the summary)
        for c in df.calls(wrap.node):
            if isinstance(c.func, ast.Attribute) and isinstance(c.func.value, ast.Name) and c.func.value.id == p and idx.has_cls("LinearOperator"):
                m = idx.find_method(idx.cls("LinearOperator"), c.func.attr)
                if m is not None:
                    rm = own.analyse(m)
                    stores += [s for s in rm.sites if s.kind == "attribute store" and s.detail == "annotations"]
                    bad += [w for w in rm.self_writes.get("annotations", [])] + [w for w in rm.param_writes.get(m.params[0], [])]
        if stores:
            new_obj_fresh = all(o[0] == "fresh" for o in stores[0].origins)
            val_fresh = None
            st = stores[0].node
            if isinstance(st, ast.Assign):
                v = st.value
                val_fresh = isinstance(v, (ast.BinOp, ast.Set, ast.SetComp)) or (isinstance(v, ast.Call) and ast.unparse(v.func) in ("set", "frozenset") or
                                                                                   (isinstance(v, ast.Call) and isinstance(v.func, ast.Attribute) and v.func.attr in ("union", "copy")))
        if bad:
            rep.refuted("declare-annotation", "WrapMeta.__call__", f"declaring an annotation writes into the operator it is applied to: {bad[0][0]} @{bad[0][1]}", detail="mutates-argument",
                        locs=[b[1] for b in bad])
        elif not stores:
            rep.undecided("declare-annotation", "WrapMeta.__call__", "no store of `.annotations` found")
        else:
            ok = True if (new_obj_fresh and val_fresh) else (False if (new_obj_fresh is False or val_fresh is False) else None)
            rep.decide(ok, "declare-annotation", "WrapMeta.__call__",
                       f"annotation stored on {'a freshly unflattened object' if new_obj_fresh else 'an object that is not fresh: ' + show(stores[0].origins)}; "
                       f"value {'is a new set' if val_fresh else 'aliases the argument set'}", detail="" if ok else "aliased", locs=[idx.loc(stores[0].fi.module, stores[0].node)])


def pub_name(f):
    m = f.module.name
    if m.startswith("cola.backends.") and m.endswith("_fns"):
        return f"{m.rsplit('.', 1)[-1]}.{f.short}"
    r = getattr(f, "rule", None)
    return r.role if r is not None else f.short


def site_name(s):
    """rule-stable name of a write site; a target rooted in a plain local is named by its ordinal among the
    local-rooted sites of the same function and kind, so renaming the local does not change the key"""
    f = s.fi
    kind = s.kind.split('(')[0].strip()
    root = s.target_text.split(".")[0].split("[")[0].strip()
    top = f
    params = set()
    while top is not None:
        params |= set(top.params)
        top = top.parent
    if root in params or root in ("self", "cls") or not root.isidentifier() or root in f.module.defs or root in f.module.imports:
        return f"{pub_name(f)}:{kind}:{s.target_text}"
    key = (id(f.node), kind)
    order = _LOCAL_ORDINALS.setdefault(key, {})
    n = order.setdefault((getattr(s.node, "lineno", 0), getattr(s.node, "col_offset", 0)), len(order) + 1)
    return f"{pub_name(f)}:{kind}:local#{n}"


_LOCAL_ORDINALS = {}


def classify_site(idx, rep, own, s, counts):
    kind0 = s.kind.split(" ")[0]
    counts[kind0] = counts.get(kind0, 0) + 1
    f = s.fi
    loc = idx.loc(f.module, s.node)
    construct = site_name(s).replace(" ", "")
    in_ctor = top_method_name(f) in CONSTRUCTOR_METHODS
    verdicts = []
    for o in sorted(s.origins, key=str):
        if o[0] in ("fresh", "scalar", "winfo"):
            continue
        if o[0] == "param":
            owner = f
            while owner is not None and o[1] not in owner.params + [a.arg for a in owner.node.args.kwonlyargs] + ([owner.node.args.vararg.arg] if owner.node.args.vararg else []) + ([owner.node.args.kwarg.arg] if owner.node.args.kwarg else []):
                owner = owner.parent
            owner = owner or f
            pk = own.param_kind(owner, o[1])
            if pk == "scalar":
                continue
            if o[1] in ("self", "cls") and owner.cls is not None:
                # attribute store / mutation of the receiver itself
                attr = s.detail
                verdicts.append(self_write_verdict(idx, owner, attr, in_ctor, s))
                continue
            private_helper = not is_public(idx, owner, _STATE.get("exported", set())) and getattr(owner, "rule", None) is None
            if pk == "operator" and private_helper:
                # a private helper that finishes an object its callers have just built: judged at the call sites (the summary reaches
                # the public roots; a fresh argument there is not a write into anybody's operator)
                verdicts.append(("SUMMARY", f"writes the operator parameter `{o[1]}` of the private helper {owner.short} (discharged at its call sites / public-root rule)", ""))
                continue
            if pk == "operator" and s.kind.startswith(("attribute store", "method", "setattr", "augmented attribute", "call")):
                verdicts.append(("REFUTED", f"modifies the operator passed as `{o[1]}`" + (f" (attribute {s.detail})" if s.detail else ""), f"operator-param:{o[1]}"))
                continue
            verdicts.append(("SUMMARY", f"writes parameter `{o[1]}` of {owner.short} (discharged at its call sites / public-root rule)", ""))
        elif o[0] == "self":
            verdicts.append(self_write_verdict(idx, f, o[1], in_ctor, s))
        elif o[0] == "global":
            verdicts.append(("REFUTED", f"writes module-level object `{o[1]}`", f"global:{o[1]}"))
        elif o[0] == "field":
            verdicts.append(("REFUTED", f"writes into `{o[1]}`, a field of an object passed by the caller", f"field:{o[1]}"))
        elif o[0] == "unknown":
            verdicts.append(("UNDECIDED", f"target of unknown origin `{o[1]}`", ""))
    rule = "operator-mutation" if any(o[0] == "self" or (o[0] == "param" and o[1] == "self") for o in s.origins) else "write-site"
    ref = [v for v in verdicts if v[0] == "REFUTED"]
    und = [v for v in verdicts if v[0] == "UNDECIDED"]
    what = f"{s.kind} on `{s.target_text}` in {f.short} (origins {show(s.origins)})"
    if ref:
        rep.refuted(rule, construct, f"{what}: {ref[0][1]}", detail=ref[0][2], locs=[loc], derivation={"origins": show(s.origins)})
    elif und:
        rep.undecided(rule, construct, f"{what}: {und[0][1]}", locs=[loc])
    else:
        why = "; ".join(v[1] for v in verdicts) or "target is storage allocated in this function (or an immutable scalar)"
        rep.proved(rule, construct, f"{what}: {why}", locs=[loc])
        if len(rep.samples) < 8 and verdicts:
            rep.sample({"site": construct, "loc": loc, "origins": show(s.origins), "verdict": why})


def top_method_name(f):
    while f.parent is not None:
        f = f.parent
    return f.name


def self_write_verdict(idx, f, attr, in_ctor, s):
    if in_ctor:
        return ("PROVED", f"inside a constructor ({top_method_name(f)})", "")
    top = f
    while top.parent is not None:
        top = top.parent
    ci = top.cls or getattr(top, "enc_cls", None)
    if ci is None:
        return ("UNDECIDED", "self write outside a class", "")
    # helper methods reachable only from constructors
    callers = [m for m in ci.methods.values() if any(isinstance(c.func, ast.Attribute) and c.func.attr == top.name and isinstance(c.func.value, ast.Name) and c.func.value.id == "self"
                                                      for c in df.calls(m.node))]
    if callers and all(m.name in CONSTRUCTOR_METHODS for m in callers) and top.name.startswith("_"):
        return ("PROVED", f"helper {top.name} is only called from constructors", "")
    if not attr:
        return ("UNDECIDED", "whole-object write", "")
    if "LinearOperator" not in [c.name for c in idx.mro(ci)] and ci.name.startswith("_"):
        # a private helper class (the object form of a closure): the write goes into whatever its constructor was handed; that is a
        # defect only if some construction site passes an object of the caller of the enclosing public function (a parameter) or a
        # module-level object -- state the routine created itself is its own
        init = ci.methods.get("__init__")
        pname = None
        if init is not None:
            for st in df.body_nodes(init.node):
                if isinstance(st, ast.Assign) and len(st.targets) == 1 and nospace(st.targets[0]) == f"self.{attr}" and isinstance(st.value, ast.Name) and st.value.id in init.params:
                    pname = st.value.id
        sites = [(g, c) for g in idx.funcs.values() for c in df.calls(g.node, into_nested=False) if isinstance(c.func, ast.Name) and c.func.id == ci.name and g.module is ci.module]
        if pname is not None and sites:
            bad = []
            for g, c in sites:
                b = df.bind_call(c, init.params, skip_first=True)
                e = b.get(pname)
                if e is None:
                    continue
                root = e
                while isinstance(root, (ast.Attribute, ast.Subscript)):
                    root = root.value
                scope, is_param = g, False
                while scope is not None and isinstance(root, ast.Name):
                    if root.id in scope.params and not df.assignments(scope.node, into_nested=False).get(root.id):
                        is_param = True
                    scope = scope.parent
                r_ = idx.resolve_name(g.module, root.id, g) if isinstance(root, ast.Name) else None
                if is_param or (r_ is not None and r_.kind == "value"):
                    bad.append((g, c))
            if not bad:
                return ("PROVED", f"`self.{attr}` of the private helper class {ci.name} is state its {len(sites)} construction site(s) created themselves", "")
    if "LinearOperator" not in [c.name for c in idx.mro(ci)]:
        return ("REFUTED", f"{ci.name}.{top.name} writes in place into `self.{attr}`, a value the caller handed to the {ci.name} object", f"self.{attr}")
    reads = repr_reads(idx, ci)
    if attr in reads:
        return ("REFUTED", f"{ci.name}.{top.name} modifies `self.{attr}` after construction; the attribute is read by the representation "
                           f"(product / densify / metadata) of {ci.name}", f"self.{attr}")
    return ("PROVED", f"`self.{attr}` is bookkeeping: no product, densification or metadata of {ci.name} reads it", "")


# ---------------------------------------------------------------------------------------------
def class_table_ownership(idx, rep):
    """a class-level mutable table that instance code fills through `self.__class__.<table>[..] = ..` (the leaf / static
    classification of attributes) must be owned per class: the metaclass has to give every new class -- including the
    subclasses generated for parametric operators -- its own copy, unconditionally.  A shared table makes the first
    instance ever built decide which attributes of all sibling classes are pytree leaves (the history dependence C18 excludes)."""
    if not idx.has_cls("LinearOperator"):
        return
    base = idx.cls("LinearOperator")
    tables = {t.id for st in base.node.body if isinstance(st, ast.Assign) and isinstance(st.value, (ast.Dict, ast.DictComp, ast.List, ast.Set)) for t in st.targets if isinstance(t, ast.Name)}
    written = set()
    for m in base.methods.values():
        for n in df.body_nodes(m.node):
            if isinstance(n, ast.Subscript) and isinstance(n.ctx, ast.Store) and isinstance(n.value, ast.Attribute) and n.value.attr in tables:
                recv = ast.unparse(n.value.value).replace(" ", "")
                if recv in ("self.__class__", "type(self)", "cls"):
                    written.add(n.value.attr)
    if not written:
        rep.note("no class-level table of LinearOperator is written at instance time")
        return
    meta_name = next((ast.unparse(k.value) for k in base.node.keywords if k.arg == "metaclass"), None)
    meta = idx.cls(meta_name.split(".")[-1]) if meta_name and idx.has_cls(meta_name.split(".")[-1]) else None
    for tname in sorted(written):
        construct = f"LinearOperator.{tname}"
        if meta is None or "__init__" not in meta.methods:
            rep.undecided("class-table", construct, f"`{tname}` is filled per instance through the class object; the metaclass that should copy it per class was not found")
            continue
        init = meta.methods["__init__"]
        cls_p = init.params[0]
        copies = [st for st in ast.walk(init.node) if isinstance(st, ast.Assign) and len(st.targets) == 1 and ast.unparse(st.targets[0]) == f"{cls_p}.{tname}"
                  and isinstance(st.value, ast.Call) and ast.unparse(st.value.func) in (f"{cls_p}.{tname}.copy", "dict", "copy.copy", "copy.deepcopy")]
        loc = [idx.loc(init.module, init.node)]
        if not copies:
            rep.refuted("class-table", construct, f"`{tname}` is filled per instance through the class object but {meta.name}.__init__ never gives a new class its own copy: all operator classes share one table",
                        detail="shared", locs=loc)
            continue
        st = copies[0]
        unconditional = any(x is st for x in init.node.body)
        rep.decide(unconditional, "class-table", construct, f"{meta.name}.__init__ executes `{ast.unparse(st)}` " + ("for every class it creates" if unconditional else
                   "only under a condition: classes for which it is skipped (e.g. the subclasses generated for parametric operators) share their parent's table, so the first instance ever "
                   "built decides which attributes of every sibling class are pytree leaves"), detail="" if unconditional else "conditional-copy", locs=[idx.loc(init.module, st)])


def flatten_protocol(idx, rep):
    if not idx.has_cls("LinearOperator"):
        rep.missing_anchor("LinearOperator")
        return
    base = idx.cls("LinearOperator")
    tf, tu, fl = base.methods.get("tree_flatten"), base.methods.get("tree_unflatten"), base.methods.get("flatten")
    if tf is None or tu is None or fl is None:
        rep.missing_anchor("tree_flatten / tree_unflatten / flatten of LinearOperator")
        return
    loc_f, loc_u = idx.loc(tf.module, tf.node), idx.loc(tu.module, tu.node)
    # The index's normal form turns collector loops into comprehensions and fuses intermediate lists, so writer and reader are
    # read as comprehensions over the attribute items whichever way they are written.
    def deep(fnode, e, depth=0):
        """e with singly-bound local names replaced by their values (for reading a test such as `dynamic[key]`)"""
        class R(ast.NodeTransformer):
            def visit_Name(self, node):
                if isinstance(node.ctx, ast.Load) and depth < 4:
                    v = df.resolve_value(fnode, node)
                    if v is not node and not isinstance(v, (ast.ListComp, ast.DictComp, ast.GeneratorExp, ast.SetComp)):
                        return deep(fnode, v, depth + 1)
                return node
        import copy
        return R().visit(copy.deepcopy(e))

    def cond_parts(e):
        """(positive test, element when true, element when false) of a conditional element, polarity normalised"""
        if not isinstance(e, ast.IfExp):
            return None
        ntest, pol = df.normalise_test(e.test)
        return (ntest, e.body, e.orelse) if pol else (ntest, e.orelse, e.body)

    rets = df.returns(tf.node)
    ret = rets[0].value if rets and isinstance(rets[0].value, ast.Tuple) and len(rets[0].value.elts) == 2 else None
    dyn_len = stat_len = None
    comps = [df.resolve_value(tf.node, e) for e in ret.elts] if ret is not None else []
    if len(comps) != 2 or not all(isinstance(c, ast.ListComp) and len(c.generators) == 1 for c in comps):
        rep.undecided("flatten-protocol", "tree_flatten:loop", "tree_flatten does not return (children, aux) built by one pass over the instance attributes")
    else:
        children, aux = comps
        gens = [c.generators[0] for c in comps]
        its = [ast.unparse(deep(tf.node, g.iter)) for g in gens]
        it = its[0]
        same_iter = its[0] == its[1] and ast.dump(gens[0].target) == ast.dump(gens[1].target)
        rep.decide((True if "vars(self)" in it or "self.__dict__" in it else None) if same_iter else False, "flatten-protocol", "tree_flatten:fields",
                   f"writer iterates `{it}`" if same_iter else f"children and aux are built from different iterations (`{its[0]}` / `{its[1]}`)", detail="" if same_iter else "iteration", locs=[loc_f])
        srt = all(x.startswith("sorted(") for x in its)
        rep.decide(srt, "flatten-protocol", "tree_flatten:order",
                   "writer iterates the attributes in sorted order (structure must not depend on assignment order)" if srt else
                   f"writer iterates `{it}` unsorted: the tree structure depends on attribute assignment order", detail="" if srt else "unsorted", locs=[loc_f])
        val_var = gens[0].target.elts[1] if isinstance(gens[0].target, ast.Tuple) and len(gens[0].target.elts) == 2 else None
        parts = cond_parts(aux.elt)
        child_tests = [df.normalise_test(t) for t in children.generators[0].ifs]
        if parts is not None:
            test = ast.unparse(deep(tf.node, parts[0]))
            rep.decide(True if "_dynamic[" in test else None, "flatten-protocol", "tree_flatten:split", f"children/static split decided by `{test}`", locs=[loc_f])
            dyn_len = len(parts[1].elts) if isinstance(parts[1], ast.Tuple) else None
            stat_len = len(parts[2].elts) if isinstance(parts[2], ast.Tuple) else None
            # children: exactly the entries for which the writer emits the dynamic encoding, and the value itself
            ok_children = (len(child_tests) == 1 and child_tests[0][1] and ast.unparse(deep(tf.node, child_tests[0][0])) == test and not aux.generators[0].ifs
                           and val_var is not None and ast.unparse(children.elt) == ast.unparse(val_var))
            rep.decide(bool(ok_children), "flatten-protocol", "tree_flatten:children",
                       "exactly the dynamic attributes are emitted as children" if ok_children else
                       f"children are `{ast.unparse(children)}`: not exactly the values of the attributes for which `{test}` holds", detail="" if ok_children else "children", locs=[loc_f])
            if isinstance(parts[2], ast.Tuple) and len(parts[2].elts) == 2:
                keeps_value = (ast.unparse(parts[2].elts[1]) == ast.unparse(val_var)) if val_var is not None else None
                rep.decide(keeps_value, "flatten-protocol", "tree_flatten:static-value", "static entries carry (key, value)", locs=[loc_f], detail="" if keeps_value else "value")
        else:
            rep.undecided("flatten-protocol", "tree_flatten:split", f"aux entries `{ast.unparse(aux.elt)}` do not distinguish children from static data by a condition", locs=[loc_f])
    # reader: a conditional (statement or expression) on the length of an aux entry
    test_len = None
    read_idx = None
    for n in ast.walk(tu.node):
        if not isinstance(n, (ast.If, ast.IfExp)):
            continue
        ntest, pol = df.normalise_test(n.test)
        if isinstance(ntest, ast.Compare) and len(ntest.ops) == 1 and isinstance(ntest.ops[0], ast.Eq) and "len(" in ast.unparse(ntest.left) and isinstance(ntest.comparators[0], ast.Constant):
            test_len = ntest.comparators[0].value
            as_list = lambda b: b if isinstance(b, list) else [b]  # noqa: E731
            eq_body, other_body = (as_list(n.body), as_list(n.orelse)) if pol else (as_list(n.orelse), as_list(n.body))
            child_branch = any("next(" in ast.unparse(x) for st in eq_body for x in ast.walk(st) if isinstance(x, ast.Call))
            for st in other_body:
                for x in ast.walk(st):
                    if isinstance(x, ast.Subscript) and isinstance(x.slice, ast.Constant) and isinstance(x.ctx, ast.Load) and x.slice.value != 0:
                        read_idx = x.slice.value
            if dyn_len is not None and stat_len is not None:
                ok = (test_len == dyn_len and child_branch and read_idx is not None and read_idx < stat_len and dyn_len != stat_len)
                rep.decide(ok, "flatten-protocol", "writer-reader:encoding",
                           f"writer encodes children as {dyn_len}-tuples and static data as {stat_len}-tuples; reader takes a child when len == {test_len} and reads element {read_idx} otherwise",
                           detail="" if ok else f"dyn{dyn_len}/stat{stat_len}/test{test_len}/idx{read_idx}", locs=[loc_f, loc_u])
            break
    if test_len is None:
        rep.undecided("flatten-protocol", "writer-reader:encoding", "reader's length test not found")
    # reader restores every field except the recomputed ones
    src = ast.unparse(tu.node)
    has_new = "object.__new__(cls)" in src
    setattr_loop = any(isinstance(n, ast.Call) and isinstance(n.func, ast.Name) and n.func.id == "setattr" for n in df.body_nodes(tu.node))
    skip = []
    for n in df.body_nodes(tu.node):
        if isinstance(n, ast.If) and any(isinstance(x, ast.Continue) for x in n.body) and isinstance(n.test, ast.Compare):
            c = n.test.comparators[0]
            if isinstance(c, (ast.List, ast.Tuple, ast.Set)):
                skip = [e.value for e in c.elts if isinstance(e, ast.Constant)]
    recomputed = [n.targets[0].attr for n in df.body_nodes(tu.node) if isinstance(n, ast.Assign) and isinstance(n.targets[0], ast.Attribute)]
    ok = has_new and setattr_loop and all(s_ in recomputed for s_ in skip)
    rep.decide(ok, "flatten-protocol", "tree_unflatten:restore",
               f"reader builds object.__new__(cls), restores fields with setattr, skips {skip} and recomputes {recomputed}", detail="" if ok else "restore", locs=[loc_u])
    # the reader consumes children in writer order
    consumes_iter = "iter(children)" in src and "next(" in src
    rep.decide(True if consumes_iter else None, "flatten-protocol", "tree_unflatten:child-order", "children are consumed with one iterator in aux order", locs=[loc_u])
    # flatten(): returns tree_flatten's leaves and an unflatten closed over the treedef
    frets = df.returns(fl.node)
    okf = None
    if frets and isinstance(frets[0].value, ast.Tuple) and len(frets[0].value.elts) == 2:
        asg = df.assignments(fl.node)
        vals, unfl = frets[0].value.elts
        src_call = [v for v, p, st in asg.get(vals.id, [])] if isinstance(vals, ast.Name) else []
        from_tf = any(isinstance(v, ast.Call) and isinstance(v.func, ast.Attribute) and v.func.attr == "tree_flatten" and ast.unparse(v.args[0]) == "self" for v in src_call)
        nested = fl.nested.get(unfl.id) if isinstance(unfl, ast.Name) else None
        closes = nested is not None and any(isinstance(c.func, ast.Attribute) and c.func.attr == "tree_unflatten" for c in df.calls(nested.node))
        tree_names = [n for n, vs in asg.items() for v, p, st in vs if isinstance(v, ast.Call) and isinstance(v.func, ast.Attribute) and v.func.attr == "tree_flatten" and p == (1, )]
        uses_tree = nested is not None and any(isinstance(c.func, ast.Attribute) and c.func.attr == "tree_unflatten" and c.args and isinstance(c.args[0], ast.Name) and c.args[0].id in tree_names
                                               for c in df.calls(nested.node))
        # the same closure written as functools.partial(xnp.tree_unflatten, tree)
        u_val = df.resolve_value(fl.node, unfl) if isinstance(unfl, ast.Name) else unfl
        if isinstance(u_val, ast.Call) and ast.unparse(u_val.func).split(".")[-1] == "partial" and len(u_val.args) == 2 and isinstance(u_val.args[0], ast.Attribute) \
                and u_val.args[0].attr == "tree_unflatten" and isinstance(u_val.args[1], ast.Name) and u_val.args[1].id in tree_names and not u_val.keywords:
            closes = uses_tree = True
        okf = bool(from_tf and closes and uses_tree)
    rep.decide(okf, "flatten-protocol", "flatten", "flatten() returns the leaves of xnp.tree_flatten(self) and an unflatten closed over the same treedef",
               detail="" if okf else "flatten", locs=[idx.loc(fl.module, fl.node)])
    # attributes whose assigned expressions are not uniformly array-valued: listed, no verdict
    mixed = []
    for ci in idx.operator_classes():
        init = ci.methods.get("__init__")
        if init is None:
            continue
        for n in df.body_nodes(init.node):
            if isinstance(n, ast.Assign):
                for t in n.targets:
                    if isinstance(t, ast.Attribute) and isinstance(t.value, ast.Name) and t.value.id == "self" and isinstance(n.value, ast.IfExp):
                        mixed.append(f"{ci.name}.{t.attr}")
    if mixed:
        rep.note("attributes assigned from a conditional expression (array-ness may differ between instances; history clause not decided): " + ", ".join(sorted(set(mixed))))


def leaf_classification(idx, rep):
    """The first value ever stored in an attribute decides, for the whole class, whether that attribute is a pytree child or static
    aux data.  The decision must therefore depend on the KIND of the value only: an operator-valued attribute has to be classified
    dynamic whatever the operator contains, otherwise an array-free operator (an Identity) stored first makes the attribute static for
    every later instance of the class (classes built with keyword arguments -- Sliced -- are not split by the kinds of their parts) and
    the arrays of those instances end up in the aux data.  The classification expression is evaluated for the scenario
    'value is an operator without array leaves': is_array(value) = False, isinstance(value, LinearOperator) = True,
    any(is_array over the flattened value) = False."""
    if not idx.has_cls("LinearOperator"):
        return
    base = idx.cls("LinearOperator")
    sa_ = base.methods.get("__setattr__")
    if sa_ is None:
        rep.missing_anchor("LinearOperator.__setattr__")
        return
    vp = sa_.params[2] if len(sa_.params) > 2 else None
    stores = [st for st in df.body_nodes(sa_.node) if isinstance(st, ast.Assign) and len(st.targets) == 1 and isinstance(st.targets[0], ast.Subscript)
              and isinstance(st.targets[0].value, ast.Attribute) and ast.unparse(st.targets[0].value.value).replace(" ", "") in ("self.__class__", "type(self)")]
    if not stores or vp is None:
        rep.missing_anchor("store into the per-class classification table in LinearOperator.__setattr__")
        return

    def ev(e, fi, env, depth=0):
        """True / False / None under the scenario; env maps local names to ('value',) or expressions"""
        if isinstance(e, ast.Constant) and isinstance(e.value, bool):
            return e.value
        if isinstance(e, ast.BoolOp):
            vals = [ev(v, fi, env, depth) for v in e.values]
            if isinstance(e.op, ast.Or):
                return True if any(v is True for v in vals) else (False if all(v is False for v in vals) else None)
            return False if any(v is False for v in vals) else (True if all(v is True for v in vals) else None)
        if isinstance(e, ast.BinOp) and isinstance(e.op, (ast.BitOr, ast.BitAnd)):
            l, r = ev(e.left, fi, env, depth), ev(e.right, fi, env, depth)
            if isinstance(e.op, ast.BitOr):
                return True if True in (l, r) else (False if l is False and r is False else None)
            return False if False in (l, r) else (True if l is True and r is True else None)
        if isinstance(e, ast.UnaryOp) and isinstance(e.op, ast.Not):
            v = ev(e.operand, fi, env, depth)
            return None if v is None else not v
        if isinstance(e, ast.Name):
            v = df.resolve_value(fi.node, e)
            if v is not e:
                return ev(v, fi, env, depth)
            return None
        if isinstance(e, ast.Call):
            fn = ast.unparse(e.func)
            is_value = lambda a: isinstance(a, ast.Name) and env.get(a.id) == "value"  # noqa: E731
            if fn.split(".")[-1] == "is_array" and len(e.args) == 1 and is_value(e.args[0]):
                return False
            if fn == "isinstance" and len(e.args) == 2 and is_value(e.args[0]):
                classes = e.args[1].elts if isinstance(e.args[1], ast.Tuple) else [e.args[1]]
                names = {ast.unparse(c).split(".")[-1] for c in classes}
                if "LinearOperator" in names:
                    return True
                if names <= {"list", "tuple", "dict", "set", "int", "float", "complex", "str", "bool", "ndarray", "Tensor"}:
                    return False
                return None
            if fn in ("any", "all") and len(e.args) == 1:
                # a reduction of is_array over something derived from the flattened value: the scenario has no array leaves
                a = e.args[0]
                over_leaves = any(isinstance(c, ast.Call) and ast.unparse(c.func).endswith("tree_flatten") for c in ast.walk(df.resolve_value(fi.node, a) if isinstance(a, ast.Name) else a))
                tests_array = any((isinstance(n, ast.Name) and n.id == "is_array") or (isinstance(n, ast.Attribute) and n.attr == "is_array") for n in ast.walk(a))
                if over_leaves and tests_array:
                    return False if fn == "any" else None
                return None
            if depth < 3:
                r = idx.resolve_expr(fi.module, e.func, fi)
                if r is not None and r.kind == "funcs":
                    callee = r.val[-1]
                    rets = [x for x in df.returns(callee.node) if x.value is not None]
                    b = df.bind_call(e, callee.params)
                    env2 = {p: "value" for p, a in b.items() if a is not None and is_value(a)}
                    if rets:
                        vals = {ev(x.value, callee, env2, depth + 1) for x in rets}
                        return vals.pop() if len(vals) == 1 else None
        return None

    for st in stores:
        v = ev(st.value, sa_, {vp: "value"})
        construct = f"LinearOperator.__setattr__:{ast.unparse(st.targets[0].value.attr if isinstance(st.targets[0].value.attr, ast.AST) else ast.Name(st.targets[0].value.attr))}"
        txt = ast.unparse(df.resolve_value(sa_.node, st.value) if isinstance(st.value, ast.Name) else st.value)[:110]
        rep.decide(v, "leaf-classification", construct,
                   f"`{txt}` " + {True: "classifies an operator-valued attribute as a pytree child whatever the operator contains",
                                   False: "classifies an operator-valued attribute by the arrays it happens to contain: an array-free operator stored first makes the attribute static "
                                          "for every later instance of the class, whose arrays then travel in the aux data (no leaves, `.to()` and substitution skip them)",
                                   None: "could not be evaluated for an operator without array leaves"}[v],
                   detail="" if v is not False else "content-dependent", locs=[idx.loc(sa_.module, st)])
