"""Static-analysis engine for the CoLA verification (see /verif/DESIGN.md).

Pure standard library; every deciding step parses the tree under ``--root``
(default /repo) with ``ast``; nothing here imports or runs ``cola``.
"""
