"""C05 — reported annotations are true (DESIGN.md section 4, C05).

1. inference rules: abstract interpretation of every get_annotations rule over operator
   descriptors, compared with oracle_annotations (sa/annot.py `allowed`);
2. merging / declaring: base constructor order, declaration wrapper (shared with C18);
3. annotations attached by routines: provenance (ORTHO/COLS) of the wrapped value.
"""
import ast
import itertools

from sa import dataflow as df
from sa.annot import ALL, CLOSED9, PSD, SA, ST, UN, WHY_NOT, Interp, OpD, RaisesAtRuntime, SliceD, Undecidable, allowed, closure, raw_subsets
from sa.own import Own
from sa.prov import ANNOT_NAMES, ORDER, Ortho, mat
from sa.resolver import Arg, Resolver

EXCLUDED_MODULES = {"cola.utils.utils_for_tests"}


def true_wrapper_annots(base):
    """annotations a transpose/adjoint of `base` truly has (used to build part descriptors)"""
    return frozenset(x for x in base.annots if x in (SA, PSD, UN))


def product_configs(tier):
    R16, R9 = raw_subsets(), CLOSED9
    leaf = lambda a, lab="B": OpD("Dense", a, label=lab)  # noqa: E731
    sc = lambda a: OpD("ScalarMul", a, label="c")  # noqa: E731
    for a in R16:
        yield [leaf(a)]
        yield [sc(a)]
    for ka, kb in itertools.product((leaf, sc), repeat=2):
        for a, b in itertools.product(R16, R16):
            yield [ka(a), kb(b)]
    for W in ("Transpose", "Adjoint"):
        for a in R16:
            B = leaf(a)
            yield [OpD(W, true_wrapper_annots(B), [B]), B]
            B = leaf(a)
            yield [B, OpD(W, true_wrapper_annots(B), [B])]
        for a, b in itertools.product(R9, R9):
            B, C = leaf(a), leaf(b, "C")
            yield [OpD(W, true_wrapper_annots(C), [C]), B]
    for ks in itertools.product((leaf, sc), repeat=3):
        for an in itertools.product(R9, repeat=3):
            yield [k(a) for k, a in zip(ks, an)]
    for W in ("Transpose", "Adjoint"):
        for a, x in itertools.product(R9, R9):
            K, X = leaf(a, "K"), leaf(x, "X")
            yield [OpD(W, true_wrapper_annots(K), [K]), X, K]
            K, X, K2 = leaf(a, "K"), leaf(x, "X"), leaf(a, "K2")
            yield [OpD(W, true_wrapper_annots(K), [K]), X, K2]
            K, X = leaf(a, "K"), leaf(x, "X")
            yield [OpD(W, true_wrapper_annots(K), [K]), X, sc(frozenset()), K]
            # a Gram pair followed (or preceded) by a further factor: not a Gram matrix any more
            K, X = leaf(a, "K"), leaf(x, "X")
            yield [OpD(W, true_wrapper_annots(K), [K]), K, X]
            K, X = leaf(a, "K"), leaf(x, "X")
            yield [K, OpD(W, true_wrapper_annots(K), [K]), X]
            K, X = leaf(a, "K"), leaf(x, "X")
            yield [X, OpD(W, true_wrapper_annots(K), [K]), K]


def nary_configs():
    R16, R9 = raw_subsets(), CLOSED9
    leaf = lambda a: OpD("Dense", a, label="B")  # noqa: E731
    for a in R16:
        yield [leaf(a)]
    for a, b in itertools.product(R16, R16):
        yield [leaf(a), leaf(b)]
    for an in itertools.product(R9, repeat=3):
        yield [leaf(a) for a in an]


def configs_for(kind, tier):
    if kind == "Product":
        for parts in product_configs(tier):
            yield OpD("Product", (), parts)
    elif kind in ("Kronecker", "BlockDiag", "Sum", "KronSum", "Concatenated"):
        for parts in nary_configs():
            yield OpD(kind, (), parts)
    elif kind in ("Transpose", "Adjoint"):
        for a in raw_subsets():
            yield OpD(kind, (), [OpD("Dense", a, label="B")])
    elif kind == "Sliced":
        for a in raw_subsets():
            for k0, k1, same, overlap in (("slice", "slice", True, False), ("slice", "slice", False, False), ("array", "array", True, False),
                                          ("array", "array", False, False), ("array", "array", False, True), ("slice", "array", False, False),
                                          ("array", "slice", False, False)):
                s0 = SliceD(k0, 0, overlap)  # overlap: two different index arrays that agree in some position
                s1 = SliceD(k1, 0 if same else 1, overlap)
                yield OpD("Sliced", (), [OpD("Dense", a, label="B")], slices=[s0, s1])
    else:
        yield OpD(kind, ())


def run(idx, rep, tier):
    core = frozenset(idx.core_modules())
    res = Resolver(idx, core)
    # ------------------------------------------------------------ clause 1
    kinds = [c.name for c in idx.operator_classes()]
    rules_seen = {}
    for kind in kinds:
        st, win, _, _ = res.resolve("get_annotations", (Arg(kind), ))
        if st != "OK":
            continue  # C04's business
        rule = win[0][0]
        rules_seen.setdefault(id(rule), (rule, []))[1].append(kind)
    if not rules_seen:
        rep.missing_anchor("get_annotations rules")
    n_cfg = 0
    for rid, (rule, ks) in sorted(rules_seen.items(), key=lambda kv: kv[1][0].order):
        generic = rule.types[0] == frozenset({"LinearOperator"})
        interp = Interp(idx, rule.module)
        bad = {}
        n_ok = n_und = n_raise = 0
        und_why = set()
        kinds_here = ks if not generic else ks[:1]
        for kind in kinds_here:
            for cfg in configs_for(kind, tier):
                n_cfg += 1
                try:
                    claims = interp.run_rule(rule.func, cfg)
                    ret = interp.last_return
                except RaisesAtRuntime:
                    n_raise += 1
                    continue
                except Undecidable as e:
                    n_und += 1
                    und_why.add(str(e))
                    continue
                if not isinstance(claims, frozenset):
                    n_und += 1
                    und_why.add(f"rule returned {type(claims).__name__}")
                    continue
                ok_set = allowed(cfg)
                wrong = sorted(x for x in closure(claims) if x not in ok_set)
                if not wrong:
                    n_ok += 1
                    if n_cfg % 977 == 0:
                        rep.sample({"rule": rule.role, "operator": repr(cfg), "claims": sorted(claims), "allowed": sorted(ok_set)})
                    continue
                for x in wrong:
                    key = (x, shape_sig(cfg))
                    b = bad.setdefault(key, {"n": 0, "witness": repr(cfg), "claims": sorted(claims), "loc": f"{rule.module.rel}:{getattr(ret, '_src_line', ret.lineno)}",
                                             "ret": ast.unparse(ret.value)[:60]})
                    b["n"] += 1
        construct = rule.role
        rep.count("annot-sound", proved=n_ok, nontrivial=n_ok if not generic else 0, refuted=sum(b["n"] for b in bad.values()))
        if n_und and not n_ok and not bad:
            rep.undecided("annot-rule", construct, f"rule outside the interpreted fragment: {sorted(und_why)[:3]}", locs=[rule.loc])
        elif not bad and n_und:
            rep.undecided("annot-rule", construct, f"{n_und} of {n_ok + n_und} configurations leave the interpreted fragment: {sorted(und_why)[:3]}", locs=[rule.loc])
        elif not bad:
            rep.proved("annot-rule", construct, f"{n_ok} configurations: every claimed annotation is implied by true declarations on the parts"
                       + (f" ({n_raise} configurations raise at run time)" if n_raise else ""), locs=[rule.loc], nontrivial=not generic)
        for (x, sig), b in sorted(bad.items()):
            k0 = rule.type_names()[0]
            why = WHY_NOT.get((k0, x), "")
            rep.refuted("annot-rule", construct, f"`return {b['ret']}` claims {x} for {b['witness']} ({b['n']} configurations of shape {sig}); {why}",
                        detail=f"{x}:{sig}", locs=[b["loc"], rule.loc], derivation={"witness": b["witness"], "claims": b["claims"], "reason": why})
    rep.analysed["annotation_rule_configurations"] = n_cfg

    # ------------------------------------------------------------ clause 2
    if idx.has_cls("LinearOperator"):
        init = idx.cls("LinearOperator").methods.get("__init__")
        if init is None:
            rep.missing_anchor("LinearOperator.__init__")
        else:
            order = []
            for st in init.node.body:
                if isinstance(st, ast.Assign) and any(isinstance(t, ast.Attribute) and t.attr == "annotations" and ast.unparse(t.value) == "self" for t in st.targets):
                    src = "inferred" if any(isinstance(c, ast.Call) and ast.unparse(c.func).endswith("get_annotations") for c in ast.walk(st.value)) else "explicit"
                    order.append(("assign", src, st))
                elif isinstance(st, ast.Expr) and isinstance(st.value, ast.Call) and isinstance(st.value.func, ast.Attribute) and st.value.func.attr == "update" \
                        and ast.unparse(st.value.func.value) == "self.annotations":
                    order.append(("merge", ast.unparse(st.value.args[0]) if st.value.args else "", st))
                elif isinstance(st, ast.AugAssign) and ast.unparse(st.target) == "self.annotations":
                    order.append(("merge", ast.unparse(st.value), st))
            kinds_ = [o[0] + ":" + o[1] for o in order]
            ok = None
            if kinds_[:1] == ["assign:inferred"] and any(o[0] == "merge" and "annotations" in o[1] for o in order[1:]):
                ok = True
            elif kinds_ and kinds_[-1] == "assign:inferred" and len(kinds_) > 1:
                ok = False
            elif kinds_ == ["assign:inferred"]:
                ok = False
            why = {True: "inferred annotations are computed first, explicit ones merged afterwards", False: "explicit annotations are dropped or overwritten by the inferred set",
                   None: f"unrecognised constructor shape {kinds_}"}[ok]
            rep.decide(ok, "annot-merge", "LinearOperator.__init__", why, detail="" if ok else "order", locs=[idx.loc(init.module, init.node)])
    from props.C18 import declare_annotation, excluded_ids
    declare_annotation(idx, rep, Own(idx, excluded=excluded_ids(idx)))

    # ------------------------------------------------------------ clause 3
    ortho = Ortho(idx)
    n_sites = 0
    for fi in [f for f in idx.funcs.values() if f.module.name not in EXCLUDED_MODULES]:
        for c in df.calls(fi.node, into_nested=False):
            r = idx.resolve_expr(fi.module, c.func, fi)
            if r is not None and r.kind == "class" and r.val.name in ANNOT_NAMES and c.args:
                n_sites += 1
                wrapper = "SelfAdjoint" if r.val.name == "Hermitian" else r.val.name
                check_site(idx, rep, res, ortho, fi, c, wrapper)
            for k in c.keywords:
                if k.arg == "annotations" and isinstance(k.value, ast.Set):
                    for e in k.value.elts:
                        rr = idx.resolve_expr(fi.module, e, fi)
                        if rr is not None and rr.kind == "class" and rr.val.name in ANNOT_NAMES:
                            n_sites += 1
                            check_ctor_annotation(idx, rep, fi, c, rr.val.name)
    rep.analysed["annotation_output_sites"] = n_sites
    # ---- SLICE-ROLE: index objects of a Sliced are resolved against the parent's shape wherever they are materialised
    from sa.slicerole import slice_role_obligations
    readers = [f for f in idx.funcs.values() if f.module.name in core and not (f.cls is not None and f.cls.name == "Sliced" and f.name == "__init__")
               and any(isinstance(n, ast.Attribute) and n.attr == "slices" and isinstance(n.ctx, ast.Load) for n in df.body_nodes(f.node))]
    rep.analysed["functions reading .slices"] = sorted(f.qual for f in readers)
    n_sites = slice_role_obligations(idx, rep, "slice-resolution", readers)
    if not n_sites:
        rep.note(f"slice-resolution: {len(readers)} functions read `.slices`; none materialises them with arange(N)[s] on this tree (the self-test keeps a firing example)")
    annotation_transfer(idx, rep)
    from props.C16 import gram_side
    if not gram_side(idx, rep):
        rep.missing_anchor("eigen-solver calls on a Gram matrix in the Krylov svd rules")
    rep.floor("gram-side", 2)
    rep.floor("annot-rule", 16)
    rep.floor("annot-sound", 5000)
    rep.floor("annot-merge", 1)
    rep.floor("declare-annotation", 1)
    rep.floor("output-annotation", 12)
    rep.explanation = ("(1) every get_annotations rule is executed by an interpreter for its pure fragment over operator descriptors (kind, raw annotation set, parts, "
                       "object identity, slice identity) for all composites with up to 3 parts (4 for the sandwich pattern) and all 16 raw annotation subsets per part; "
                       "the claimed set must be within what linear algebra allows (sa/annot.py allowed). (2) constructor merge order and the declaration wrapper. "
                       "(3) ORTHO/COLS provenance of every value wrapped in Unitary/Stiefel/SelfAdjoint/PSD inside cola/.")
    rep.assumptions += [
        "declarations on the parts are assumed true; ScalarMul values are unconstrained unless the scalar itself carries a declaration",
        "numerical orthogonality of Krylov bases and PSD-ness of user data are not decided (UNDECIDED sites)",
        "a column selection by a caller-controlled count (k, max_iters, get_slice) yields fewer columns than rows for some input",
    ]


def shape_sig(cfg):
    """kinds-only signature of a configuration (annotation sets and factor order/multiplicity dropped)"""
    idents = {p.ident for p in cfg.parts}
    sigs = set()
    for p in cfg.parts:
        if p.kind in ("Transpose", "Adjoint") and p.parts:
            sigs.add(f"{p.kind}[{'same' if p.parts[0].ident in idents else 'other'}]")
        else:
            sigs.add(p.kind)
    extra = ""
    if cfg.slices is not None:
        extra = ":" + ("eq" if cfg.slices[0].ident == cfg.slices[1].ident else "neq")
    return f"{cfg.kind}[{','.join(sorted(sigs))}]{extra}"


def role(fi):
    r = getattr(fi, "rule", None)
    if r is not None:
        return r.role
    top = fi
    chain = [fi.name]
    while top.parent is not None:
        top = top.parent
        chain.append(top.name)
    if top.cls is not None:
        chain.append(top.cls.name)
    return ".".join(reversed(chain))


def target_of(fi, call):
    p = getattr(call, "_parent", None)
    if isinstance(p, ast.Assign) and p.value is call and len(p.targets) == 1 and isinstance(p.targets[0], ast.Name):
        return p.targets[0].id
    if isinstance(p, ast.Tuple):
        pp = getattr(p, "_parent", None)
        i = p.elts.index(call)
        if isinstance(pp, ast.Return):
            return f"ret[{i}]"
        if isinstance(pp, ast.Assign) and len(pp.targets) == 1 and isinstance(pp.targets[0], ast.Tuple) and i < len(pp.targets[0].elts):
            t = pp.targets[0].elts[i]
            return t.id if isinstance(t, ast.Name) else f"elt[{i}]"
    if isinstance(p, ast.Return):
        return "ret"
    if isinstance(p, ast.Call):
        return "arg"
    return "expr"


def site_shape(fi, call):
    """the wrapped expression with every function-local name replaced by `_`: stable under renaming of locals and under
    re-ordering of branches (a source-order ordinal is neither)"""
    params = set()
    f = fi
    while f is not None:
        params |= set(f.params)
        f = f.parent
    local = {n for n in df.assignments(fi.node) if n not in params}
    t = ast.parse(ast.unparse(call.args[0]) if call.args else "None", mode="eval").body
    for n in ast.walk(t):
        if isinstance(n, ast.Name) and n.id in local:
            n.id = "_"
    return ast.unparse(t).replace(" ", "")[:48]


def site_ordinal(fi, call, wrapper, idx):
    """<shape>[~n]: n-th (source order) among the calls of the same wrapper with the same shape, omitted when unique"""
    shape = site_shape(fi, call)
    same, all_sites = [], []
    for c in df.calls(fi.node, into_nested=False):
        r = idx.resolve_expr(fi.module, c.func, fi)
        if r is not None and r.kind == "class" and (r.val.name == wrapper or (wrapper == "SelfAdjoint" and r.val.name == "Hermitian")):
            all_sites.append(c)
            if site_shape(fi, c) == shape:
                same.append(c)
    if len(all_sites) <= 1:
        return "only"  # the only site of this wrapper in the function: no shape needed to name it (stable under any rewrite of its argument)
    same.sort(key=lambda c: (c.lineno, c.col_offset))
    return shape if len(same) <= 1 else f"{shape}~{same.index(call) + 1 if call in same else 0}"


def check_site(idx, rep, res, ortho, fi, call, wrapper):
    construct = f"{role(fi)}:{wrapper}:{site_ordinal(fi, call, wrapper, idx)}"
    loc = idx.loc(fi.module, call)
    env = {}
    rule = getattr(fi, "rule", None)
    if rule is not None and rule.cond is not None:
        cf = res._cond_form(rule)
        if cf is not None and cf[1] in ("Unitary", ) and cf[0] < len(rule.params):
            env[rule.params[cf[0]][0]] = mat("SQ", "square")
    v = ortho.eval_in(fi, call.args[0], env)
    alts = ortho.alternatives(v)
    mats = [a for a in alts if isinstance(a, tuple) and a and a[0] == "mat"]
    text = ast.unparse(call)[:70]
    if wrapper in ("Unitary", "Stiefel"):
        bad = None
        # a diagonal matrix is unitary iff every entry has modulus one; sign(x) has modulus one except at x = 0, where it is 0
        inner = df.resolve_value(fi.node, call.args[0]) if call.args else None
        r_in = idx.resolve_expr(fi.module, inner.func, fi) if isinstance(inner, ast.Call) else None
        if r_in is not None and r_in.kind == "class" and r_in.val.name == "Diagonal" and inner.args:
            dv = df.resolve_value(fi.node, inner.args[0])
            if isinstance(dv, ast.Call) and (df.is_xnp_call(dv) == "sign" or (isinstance(dv.func, ast.Attribute) and dv.func.attr == "sign")):
                rep.refuted("output-annotation", f"{role(fi)}:{wrapper}", f"`{text}`: sign(x) is 0 where x is 0, so the diagonal matrix has a zero column for every zero entry of "
                            f"`{ast.unparse(dv.args[0]) if dv.args else '?'}` and is not {'unitary' if wrapper == 'Unitary' else 'orthonormal'} (witness: diag(2, 0, -1))",
                            detail="sign-of-zero", locs=[loc])
                return
        for m in mats:
            if wrapper == "Unitary" and m[2] == "count":
                bad = ("non-square", f"the wrapped value has a caller-controlled number of columns (k / max_iters / rank < n): an n-by-k matrix is not unitary")
            elif m[1] == "GEN":
                bad = ("general-eigenvectors", "the wrapped value holds eigenvectors of a general matrix, which are not orthonormal")
            if bad:
                break
        if bad:
            # one finding per (function, wrapper, reason): how many sites the function spreads it over, and how they are written,
            # changes with every refactoring of the function; the defect ("this rule declares k-column outputs unitary") does not
            rep.refuted("output-annotation", f"{role(fi)}:{wrapper}", f"`{text}`: {bad[1]}", detail=bad[0], locs=[loc], derivation=[repr(a) for a in alts])
            return
        need = 3 if wrapper == "Unitary" else 2
        if mats and len(mats) == len(alts) and all(ORDER[m[1]] >= need and (wrapper != "Unitary" or m[2] == "square") for m in mats):
            rep.proved("output-annotation", construct, f"`{text}`: wrapped value is {'a square unitary' if wrapper == 'Unitary' else 'a column selection of a unitary / orthonormal'} matrix by provenance",
                       locs=[loc], derivation=[repr(a) for a in alts])
        else:
            rep.undecided("output-annotation", construct, f"`{text}`: no orthogonality provenance ({[repr(a) for a in alts][:3]})", locs=[loc])
        return
    # SelfAdjoint / PSD
    tri = [a for a in alts if isinstance(a, tuple) and a and a[0] == "tridiag"]
    if tri and len(tri) == len(alts):
        sym = all(t[1][0] == t[1][2] for t in tri if len(t[1]) == 3)
        if wrapper == "SelfAdjoint":
            rep.decide(True if sym else False, "output-annotation", construct,
                       f"`{text}`: Tridiagonal built with {'the same array' if sym else 'different arrays'} in both off-diagonal slots", detail="" if sym else "asymmetric", locs=[loc])
            return
    if wrapper == "PSD" and call.args:
        # f(A) = V diag(f(w)) V^H is positive semi-definite only if f is non-negative on the spectrum: for a function the caller passes in
        # (log, x -> x - 1, ...) the claim cannot hold for every f
        fparams = set(fi.params)
        for x in ast.walk(call.args[0]):
            e = df.resolve_value(fi.node, x) if isinstance(x, ast.Name) else None
            if e is None or e is x:
                continue
            for c in [c for c in ast.walk(e) if isinstance(c, ast.Call) and isinstance(c.func, ast.Name) and c.func.id in fparams]:
                rep.refuted("output-annotation", construct, f"`{text}`: the middle factor is `{ast.unparse(c)[:40]}` with `{c.func.id}` a function handed in by the caller -- "
                            "V diag(f(w)) V^H is positive semi-definite only when f >= 0 on the spectrum (false for log on eigenvalues below 1, for x -> x - 1, ...)",
                            detail="arbitrary-function", locs=[loc])
                return
    rep.undecided("output-annotation", construct, f"`{text}`: Hermitian/PSD construction not recognised", locs=[loc])


def check_ctor_annotation(idx, rep, fi, call, name):
    construct = f"{role(fi)}:annotations={{{name}}}"
    loc = idx.loc(fi.module, call)
    ci = fi.enc_cls
    if ci is not None and name == "Unitary":
        # an opaque transform declared unitary: both directions must use the orthonormal normalisation
        calls = []
        for mname in ("_matmat", "_rmatmat"):
            m = ci.methods.get(mname)
            if m is not None:
                calls += [c for c in df.calls(m.node) if df.is_xnp_call(c) in ("fft", "ifft")]
        if calls:
            ok = all(any(k.arg == "norm" and isinstance(k.value, ast.Constant) and k.value.value == "ortho" for k in c.keywords) for c in calls)
            rep.decide(ok, "output-annotation", construct, f"{ci.name}: {len(calls)} fft/ifft calls " + ("all use norm='ortho'" if ok else "do not all use norm='ortho' (the unnormalised DFT is not unitary)"),
                       detail="" if ok else "norm", locs=[loc])
            return
    rep.undecided("output-annotation", construct, "constructor-declared annotation not derivable from the code shape", locs=[loc])


# ------------------------------------------------------------------------------------------------
LEGIT_ANNOTATION_STORES = {("LinearOperator", "__init__"), ("WrapMeta", "__call__")}  # computed from the rules / declared by the user


def annotation_transfer(idx, rep):
    """every other assignment to `<op>.annotations` copies knowledge from one operator to another; what is copied must be allowed
    for the operator it is attached to.  The target's meaning relative to the source comes from TERM (Dense(A.A.T) = T(A), ...),
    the copied set from the annotation interpreter, the verdict from the same oracle as the inference rules."""
    from sa.term import C, T, TermEval, norm, sym
    core = frozenset(idx.core_modules())
    n = 0
    for g in idx.funcs.values():
        if g.module.name not in core:
            continue
        owner = (g.cls.name if g.cls is not None else (g.enc_cls.name if getattr(g, "enc_cls", None) is not None else None), g.name)
        if owner in LEGIT_ANNOTATION_STORES:
            continue
        for st in df.body_nodes(g.node, into_nested=False):
            if not (isinstance(st, ast.Assign) and len(st.targets) == 1 and isinstance(st.targets[0], ast.Attribute) and st.targets[0].attr == "annotations"
                    and isinstance(st.targets[0].value, ast.Name)):
                continue
            tgt = st.targets[0].value.id
            n += 1
            loc = [idx.loc(g.module, st)]
            construct = f"{role(g)}:{tgt}.annotations"
            # contexts: g itself when it is a rule, else the rules that call g
            contexts = []
            if getattr(g, "rule", None) is not None:
                contexts.append((g, None))
            else:
                for caller in idx.funcs.values():
                    if getattr(caller, "rule", None) is None:
                        continue
                    for c in df.calls(caller.node):
                        r = idx.resolve_expr(caller.module, c.func, caller)
                        if r is not None and r.kind == "funcs" and r.val[-1] is g:
                            contexts.append((caller, c))
            if not contexts:
                rep.undecided("annotation-transfer", construct, "annotations are assigned outside any dispatch rule context", locs=loc)
                continue
            for caller, call in contexts:
                a = caller.rule.params[0][0]
                te = TermEval(idx)
                bound = df.bind_call(call, g.params) if call is not None else {}
                tgt_expr = bound.get(tgt) if call is not None else df.resolve_value(caller.node, ast.Name(id=tgt, ctx=ast.Load()))
                t = norm(te.eval_in(caller, tgt_expr)) if tgt_expr is not None else ("opaque", "?")
                # the operand as a whole, or its dense payload (A = A.A for Dense / Triangular)
                whole = [sym(a), sym(f"{a}.A")]
                comb = "Transpose" if t in [norm(T(w)) for w in whole] else ("Adjoint" if t in [norm(C(T(w))) for w in whole] else ("Same" if t in whole else None))
                cconstruct = f"{construct}@{caller.rule.role}"
                if comb is None:
                    rep.undecided("annotation-transfer", cconstruct, f"the object that receives the annotations ({ast.unparse(tgt_expr) if tgt_expr is not None else tgt}) is not a recognised function of {a}", locs=loc)
                    continue
                src_param = next((p for p, e in bound.items() if isinstance(e, ast.Name) and e.id == a), a) if call is not None else a
                kind = sorted(caller.rule.types[0])[0]
                bad = None
                for raw in raw_subsets():
                    src = OpD(kind if kind != "LinearOperator" else "Dense", raw, label="B")
                    out = OpD("Dense", (), label="out")
                    env = {src_param: src, tgt: out}
                    try:
                        got = Interp(idx, g.module).ev(st.value, env, g)
                    except Undecidable as e:
                        bad = ("undecided", str(e))
                        break
                    ok = allowed(OpD(comb, (), [src])) if comb != "Same" else closure(raw)
                    extra = sorted(closure(frozenset(got)) - ok)
                    if extra:
                        bad = ("refuted", f"claims {', '.join(extra)} for {comb}[{src!r}]: " + "; ".join(WHY_NOT.get((comb, x), "") for x in extra))
                        break
                if bad is None:
                    rep.proved("annotation-transfer", cconstruct, f"`{ast.unparse(st)}` attaches only annotations that hold for {comb}({a})", locs=loc)
                elif bad[0] == "undecided":
                    rep.undecided("annotation-transfer", cconstruct, f"`{ast.unparse(st)}`: {bad[1]}", locs=loc)
                else:
                    rep.refuted("annotation-transfer", cconstruct, f"`{ast.unparse(st)}` {bad[1]}", detail="copied", locs=loc)
    if not n:
        rep.note("annotation-transfer: no assignment to `.annotations` outside the base constructor and the declaration wrapper on this tree")
