"""C07 — slogdet / logdet (DESIGN.md section 4, C07): scalar TERM algebra of every slogdet rule
against oracle_algebra, dependence completeness, sign domain, Auto decision table."""
import ast

from sa import dataflow as df
from sa.autorule import check_auto
from sa.resolver import Resolver
from sa.scalar import VAR, ScalarEval, alternatives, equal, has_opaque, mentions, opaque_text, show, snorm
from sa.term import MUL, TermEval, norm as tnorm, show as tshow


def S(i, t):
    return ("sld", i, t)


# payloads the determinant of a kind provably varies with, for kinds without a closed form in the scalar grammar
DET_DEPENDS = {"Householder": ("vec", "beta")}
DET_WHY = {"Householder": "det(I - beta v v^H) = 1 - beta v^H v: scaling v changes it unless beta = 0"}


def oracle(kind, a):
    """(sign, logabs) the determinant algebra requires, in the rule's own parameter name `a`"""
    N = ("fprod", ("size", VAR))
    if kind == "Product":
        # det(Π Aᵢ) = Π det Aᵢ
        return ("fprod", S(0, VAR)), ("fsum", S(1, VAR))
    if kind == "Kronecker":
        # det(⊗ Aᵢ) = Π det(Aᵢ)^(N/nᵢ)
        e = ("mul", (N, ("inv", ("size", VAR))))
        return ("fprod", ("pow", S(0, VAR), e)), ("fsum", ("mul", (S(1, VAR), e)))
    if kind == "BlockDiag":
        # det(bdiag(Aᵢ repeated mᵢ times)) = Π det(Aᵢ)^mᵢ
        return ("fprod", ("pow", S(0, VAR), ("mult", VAR))), ("fsum", ("mul", (S(1, VAR), ("mult", VAR))))
    if kind in ("Diagonal", "Triangular"):
        d = ("vec", f"{a}.diag") if kind == "Diagonal" else ("diagof", ("ssym", f"{a}.A"))
        return ("prod", ("mul", (d, ("inv", ("abs", d))))), ("sum", ("log", ("abs", d)))
    if kind == "ScalarMul":
        # det(c Iₙ) = cⁿ
        c, n = ("ssym", f"{a}.c"), ("dim", f"{a}.n")
        return ("pow", ("mul", (c, ("inv", ("abs", c)))), n), ("mul", (n, ("log", ("abs", c))))
    if kind == "Identity":
        return ("num", 1), ("num", 0)
    if kind == "Transpose":
        # det(Aᵀ) = det A
        return S(0, ("ssym", f"{a}.A")), S(1, ("ssym", f"{a}.A"))
    if kind == "Adjoint":
        # det(Aᴴ) = conj(det A): same magnitude, conjugated sign
        return ("conj", S(0, ("ssym", f"{a}.A"))), S(1, ("ssym", f"{a}.A"))
    return None


def run(idx, rep, tier):
    core = frozenset(idx.core_modules())
    res = Resolver(idx, core)
    rules = res.rules_of("slogdet")
    from sa.autorule import arity_obligations
    arity_obligations(idx, rep, list(rules) + list(res.rules_of("logdet")))
    if not rules:
        rep.missing_anchor("dispatched function slogdet")
    for rule in rules:
        fi = rule.func
        a = rule.params[0][0]
        kinds, algs = sorted(rule.types[0]), sorted(rule.types[1])
        construct = rule.role
        if algs == ["Auto"]:
            continue
        se = ScalarEval(idx)
        rets = [r for r in df.returns(fi.node) if r.value is not None]
        for r in rets:
            loc = idx.loc(fi.module, r)
            v = se.eval_in(fi, r.value)
            if kinds == ["LinearOperator"] and algs == ["Cholesky"]:
                L = ("ssym", f"chol({a})")
                want = ("tuple", (("mul", (S(0, L), ("conj", S(0, L)))), ("mul", (("num", 2), S(1, L)))))
                ok = equal(v, want)
                rep.decide(ok, "rule-algebra", construct, f"returns {show(snorm(v))}; required (s·conj s, 2·ld) of the Cholesky factor", detail="" if ok else "pair", locs=[loc])
                continue
            if kinds == ["LinearOperator"] and algs == ["LU"]:
                ok = None
                why = f"returns {show(v)}"
                if v[0] == "sldpair":
                    call = r.value
                    te = TermEval(idx)
                    t = tnorm(te.eval_in(fi, call.args[0])) if isinstance(call, ast.Call) and call.args else None
                    want = tnorm(MUL(("plu", ("sym", a), 0), ("plu", ("sym", a), 1), ("plu", ("sym", a), 2)))
                    ok = t == want
                    why = f"delegates to slogdet({tshow(t) if t else '?'}); required the product P·L·U of plu({a})"
                rep.decide(ok, "rule-algebra", construct, why, detail="" if ok else "delegate", locs=[loc])
                continue
            if kinds == ["LinearOperator"]:
                # Krylov / trace-of-log path: sign domain only
                sign_domain(rep, construct, v, loc, krylov=True)
                continue
            if v[0] == "sldpair":
                v = ("tuple", (S(0, v[1]), S(1, v[1])))
            for kind in kinds:
                rule_for_kind(rep, construct if len(kinds) == 1 else f"{construct}:{kind}", kind, a, v, loc)
        # recursive calls forward both algorithm arguments
        rec = [c for c in df.calls(fi.node) if isinstance(c.func, ast.Name) and c.func.id == "slogdet"]
        if rec and len(rule.params) == 3:
            p1, p2 = rule.params[1][0], rule.params[2][0]
            ok = all((len(c.args) >= 3 and ast.unparse(c.args[2]) == p2 and (ast.unparse(c.args[1]) == p1)) or
                     ({k.arg: ast.unparse(k.value) for k in c.keywords}.get(p2) == p2) for c in rec)
            rep.decide(ok, "forwarded", construct, "recursive slogdet calls pass both algorithm arguments on" if ok else "a recursive call drops or swaps an algorithm argument",
                       detail="" if ok else "dropped", locs=[rule.loc])
    check_auto(idx, res, rep, "slogdet", 1)
    # ---- logdet
    lds = [f for f in idx.funcs_named("logdet") if f.module.name in core]
    if not lds:
        rep.missing_anchor("logdet")
    else:
        f = lds[-1]
        se = ScalarEval(idx)
        rets = [r for r in df.returns(f.node) if r.value is not None]
        v = se.eval_in(f, rets[0].value) if rets else ("opaque", "no return")
        ok = v == ("sld", 1, ("ssym", f.params[0]))
        rep.decide(ok, "logdet", "logdet", f"returns {show(v)}; required the log-magnitude component of slogdet({f.params[0]})", detail="" if ok else "component", locs=[idx.loc(f.module, f.node)])
        calls = [c for c in df.calls(f.node) if isinstance(c.func, ast.Name) and c.func.id == "slogdet"]
        kw = {k.arg: ast.unparse(k.value) for c in calls for k in c.keywords}
        pos = [ast.unparse(a_) for c in calls for a_ in c.args[1:]]
        fw = bool(calls) and all(p in list(kw.values()) + pos for p in f.params[1:])
        named = all(kw.get(p, p) == p for p in f.params[1:])
        rep.decide(fw and named, "forwarded", "logdet", "logdet forwards log_alg and trace_alg to slogdet" if fw and named else "logdet drops or swaps an algorithm argument",
                   detail="" if fw and named else "dropped", locs=[idx.loc(f.module, f.node)])
    rep.floor("rule-algebra", 9)
    rep.floor("sign-domain", 6)
    rep.floor("auto-rule", 2)
    rep.explanation = ("Scalar TERM: the (sign, logabs) pair returned by every slogdet rule is evaluated into a small algebra with families over the factors and compared with "
                       "the determinant identities (product, Kronecker exponent N/nᵢ, block multiplicities, diagonal/triangular, cⁿ, Cholesky, P·L·U); the log-magnitude component "
                       "must not be provably non-negative and the sign must depend on what the determinant's sign depends on.")
    rep.assumptions += ["accuracy of the Krylov / stochastic-trace path and branch cuts are not decided", "sizes divide their product: N // n is treated as N / n"]


def rule_for_kind(rep, construct, kind, a, v, loc):
    if kind == "Permutation":
        comp = v[1] if v[0] == "tuple" else ()
        dep = any(mentions(c, ("ssym", f"{a}.perm")) for c in comp) if comp else False
        if v[0] == "tuple" and not dep and not has_opaque(v):
            rep.refuted("dependence", construct, f"returns {show(snorm(v))}: the sign does not depend on the permutation, but odd permutations have determinant -1",
                        detail="sign-constant", locs=[loc])
        else:
            rep.decide(True if dep else None, "dependence", construct, f"returns {show(snorm(v))}", locs=[loc])
        return
    want = oracle(kind, a)
    if want is None and kind in DET_DEPENDS:
        # no closed form in the scalar grammar, but the determinant is known to vary with each of these payloads
        # (Householder: det(I - beta v v^H) = 1 - beta v^H v): a result that never reads one of them is constant in it
        def reads(t, name):
            if isinstance(t, tuple):
                return any(reads(x, name) for x in t)
            return isinstance(t, str) and (t == name or t.startswith(name + ".") or t.startswith(name + "["))
        missing = [p for p in DET_DEPENDS[kind] if not reads(v, f"{a}.{p}")]
        if missing and not has_opaque(v):
            rep.refuted("dependence", construct, f"returns {show(snorm(v))}: it never reads {', '.join(f'{a}.{p}' for p in missing)}, but the determinant of a {kind} varies with "
                        f"it ({DET_WHY[kind]})", detail="payload:" + ",".join(missing), locs=[loc])
        else:
            rep.decide(None if missing else True, "dependence", construct, f"returns {show(snorm(v))}; reads every payload the determinant depends on ({', '.join(DET_DEPENDS[kind])}); "
                       f"the closed form itself ({DET_WHY[kind]}) is outside the scalar grammar", locs=[loc])
            sign_domain(rep, construct, v, loc, krylov=False)
        return
    if want is None:
        rep.undecided("rule-algebra", construct, f"no oracle entry for {kind}", locs=[loc])
        return
    wt = ("tuple", want)
    ok = equal(v, wt)
    rep.decide(ok, "rule-algebra", construct, f"returns {show(snorm(v))}; required {show(snorm(wt))}" + (f" [outside the grammar: {opaque_text(snorm(v))}]" if ok is None else ""),
               detail="" if ok else "pair", locs=[loc], derivation={"got": show(snorm(v)), "want": show(snorm(wt))})
    sign_domain(rep, construct, v, loc, krylov=False)


def sign_domain(rep, construct, v, loc, krylov):
    """the log-magnitude is refuted when it is provably >= 0 (abs / norm of something) for a kind whose |det| can be < 1"""
    for a in alternatives(v):
        if a[0] != "tuple" or len(a[1]) != 2:
            rep.undecided("sign-domain", construct, f"does not return a pair: {show(a)[:60]}", locs=[loc])
            return
        ld = snorm(a[1][1])
        if ld[0] in ("abs", "exp", "sqrt"):
            rep.refuted("sign-domain", construct, f"log-magnitude component is `{show(ld)}`: non-negative for every input, but |det| < 1 needs a negative value", detail="logabs-nonneg",
                        locs=[loc])
            return
    rep.proved("sign-domain", construct, "log-magnitude component is not an absolute value / norm", locs=[loc], nontrivial=krylov)
