"""Source normal form used by the index: every single-assignment, single-use temporary whose use is in the very next
statement of the same block is inlined (`t = e; return f(t)` -> `return f(e)`).

Checks are written against this normal form, so introducing or removing such temporaries (the most common
behaviour-preserving refactoring) cannot change a verdict.  Moved expression nodes keep their original positions,
so reported locations still point into the file as written.  Names that occur in nested scopes (closures, lambdas,
comprehensions), parameters, multiply-assigned or multiply-read names are never touched, nor are uses inside
compound statements (the temporary may be evaluated a different number of times there)."""
import ast

COMPOUND = (ast.For, ast.AsyncFor, ast.While, ast.If, ast.With, ast.AsyncWith, ast.Try, ast.FunctionDef, ast.AsyncFunctionDef, ast.ClassDef, ast.Match)
SCOPES = (ast.FunctionDef, ast.AsyncFunctionDef, ast.Lambda, ast.ListComp, ast.GeneratorExp, ast.SetComp, ast.DictComp, ast.ClassDef)


def _process_function(fn):
    n = 0
    while True:
        loads, stores = {}, {}
        nested_names = set()
        simple = {}  # name -> number of stores that are `name = <expr>` statements whose next sibling reads the name exactly once

        def scan(node, nested):
            for c in ast.iter_child_nodes(node):
                inner = nested or isinstance(c, SCOPES)
                if isinstance(c, ast.Name):
                    (loads if isinstance(c.ctx, ast.Load) else stores).setdefault(c.id, []).append(c)
                    if inner:
                        nested_names.add(c.id)
                elif isinstance(c, ast.arg):
                    stores.setdefault(c.arg, []).extend([c, c])  # parameters are never temporaries
                elif isinstance(c, (ast.Global, ast.Nonlocal)):
                    for nm in c.names:
                        stores.setdefault(nm, []).extend([c, c])
                elif isinstance(c, ast.AugAssign) and isinstance(c.target, ast.Name):
                    loads.setdefault(c.target.id, []).extend([c, c])  # `x op= e` reads x as well: never a single-use temporary
                elif isinstance(c, (ast.MatchAs, ast.MatchStar)) and c.name:
                    stores.setdefault(c.name, []).extend([c, c])
                scan(c, inner)
        scan(fn, False)

        def blocks_of(node):
            for f in ("body", "orelse", "finalbody"):
                b = getattr(node, f, None)
                if isinstance(b, list) and b and isinstance(b[0], ast.stmt):
                    yield b
            for h in getattr(node, "handlers", []) or []:
                yield h.body
            for c in getattr(node, "cases", []) or []:
                yield c.body

        def count_simple(blk):
            for i, st in enumerate(blk):
                if isinstance(st, ast.Assign) and len(st.targets) == 1 and isinstance(st.targets[0], ast.Name) and i + 1 < len(blk) and not isinstance(blk[i + 1], COMPOUND):
                    x = st.targets[0].id
                    uses = [y for y in ast.walk(blk[i + 1]) if isinstance(y, ast.Name) and y.id == x and isinstance(y.ctx, ast.Load)]
                    self_ref = any(isinstance(y, ast.Name) and y.id == x and isinstance(y.ctx, ast.Load) for y in ast.walk(st.value))
                    if len(uses) == 1 and not self_ref:
                        simple[x] = simple.get(x, 0) + 1
                if not isinstance(st, (ast.FunctionDef, ast.AsyncFunctionDef, ast.ClassDef)):
                    for b in blocks_of(st):
                        count_simple(b)
        count_simple(fn.body)
        changed = False

        def do_block(blk):
            nonlocal n, changed
            i = 0
            while i < len(blk) - 1:
                st, nx = blk[i], blk[i + 1]
                if (isinstance(st, ast.Assign) and len(st.targets) == 1 and isinstance(st.targets[0], ast.Name) and not isinstance(nx, COMPOUND)
                        and not isinstance(st.value, (ast.Lambda, ast.Yield, ast.YieldFrom, ast.Await))):
                    x = st.targets[0].id
                    # a temporary: every store of the name is such an assignment and every load is the single use that follows one
                    # (one store and one load; or one name re-used for the same purpose in several branches)
                    n_st, n_ld = len(stores.get(x, [])), len(loads.get(x, []))
                    if n_st == n_ld == simple.get(x, 0) and n_st >= 1 and x not in nested_names:
                        uses_here = [y for y in ast.walk(nx) if isinstance(y, ast.Name) and y.id == x and isinstance(y.ctx, ast.Load)]
                        if len(uses_here) == 1:
                            use, val = uses_here[0], st.value

                            class R(ast.NodeTransformer):
                                def visit_Name(self, node):
                                    return val if node is use else node
                            blk[i + 1] = R().visit(nx)
                            del blk[i]
                            n += 1
                            changed = True
                            return True  # the counts are stale now: restart the scan of the function
                i += 1
            for s in blk:
                if isinstance(s, (ast.FunctionDef, ast.AsyncFunctionDef, ast.ClassDef)):
                    continue
                for b in blocks_of(s):
                    if do_block(b):
                        return True
            return False

        do_block(fn.body)
        if not changed:
            return n


def split_tuple_assignments(tree):
    """`a, b = x, y` -> `a = x; b = y` when no target is read by any of the values (a swap is left alone)"""
    n = 0
    for node in ast.walk(tree):
        for f in ("body", "orelse", "finalbody"):
            blk = getattr(node, f, None)
            if not (isinstance(blk, list) and blk and isinstance(blk[0], ast.stmt)):
                continue
            i = 0
            while i < len(blk):
                st = blk[i]
                if (isinstance(st, ast.Assign) and len(st.targets) == 1 and isinstance(st.targets[0], ast.Tuple) and isinstance(st.value, ast.Tuple)
                        and len(st.targets[0].elts) == len(st.value.elts) and all(isinstance(t, ast.Name) for t in st.targets[0].elts)
                        and not any(isinstance(v, ast.Starred) for v in st.value.elts)):
                    names = [t.id for t in st.targets[0].elts]
                    read = {x.id for v in st.value.elts for x in ast.walk(v) if isinstance(x, ast.Name)}
                    if len(set(names)) == len(names) and not (set(names) & read):
                        new = [ast.copy_location(ast.Assign(targets=[t], value=v), st) for t, v in zip(st.targets[0].elts, st.value.elts)]
                        blk[i:i + 1] = new
                        n += 1
                        i += len(new)
                        continue
                i += 1
    return n


def normalise(tree):
    """in place; returns the number of temporaries inlined (private helpers are inlined and tuple assignments split first)"""
    total = inline_helpers(tree)
    ast.fix_missing_locations(tree)
    # temporaries first: `t1 = e1; t2 = e2; a, b = t1, t2` must become `a, b = e1, e2` before deciding whether that assignment splits
    for _round in range(2):
        for x in ast.walk(tree):
            if isinstance(x, (ast.FunctionDef, ast.AsyncFunctionDef)):
                total += _process_function(x)
        if _round == 0:
            if not split_tuple_assignments(tree):
                break
            ast.fix_missing_locations(tree)
    return total


# ------------------------------------------------------------------------------------------------
# Helper inlining: "extract function" is the most common behaviour-preserving refactoring, and rules that look at the body of a
# dispatch rule or of a product method would otherwise lose sight of the code.  Private module-level helpers (leading underscore,
# no decorators, no *args/**kwargs, straight-line body of assignments ending in one `return <expr>`) are inlined at their call
# sites inside the same module; their locals get fresh names and parameters are replaced by the argument expressions (the
# analyses treat library code as pure, so evaluating an argument expression twice does not matter).
_SIMPLE_STMTS = (ast.Assign, ast.AnnAssign, ast.AugAssign, ast.Expr, ast.Assert, ast.Pass)
_NO_INLINE_INSIDE = (ast.Lambda, ast.ListComp, ast.GeneratorExp, ast.SetComp, ast.DictComp)


def _inlinable_helpers(tree):
    out = {}
    for st in tree.body:
        if not (isinstance(st, ast.FunctionDef) and st.name.startswith("_") and not st.name.startswith("__") and not st.decorator_list):
            continue
        a = st.args
        if a.vararg or a.kwarg or a.posonlyargs:
            continue
        body = [s for s in st.body if not (isinstance(s, ast.Expr) and isinstance(s.value, ast.Constant))]
        if not body or not isinstance(body[-1], ast.Return) or body[-1].value is None:
            continue
        if not all(isinstance(s, _SIMPLE_STMTS) for s in body[:-1]):
            continue
        if any(isinstance(x, (ast.FunctionDef, ast.Lambda, ast.Yield, ast.YieldFrom, ast.Await, ast.NamedExpr, ast.Global, ast.Nonlocal) + _NO_INLINE_INSIDE) for s in body for x in ast.walk(s)):
            continue
        if any(isinstance(x, ast.Call) and isinstance(x.func, ast.Name) and x.func.id == st.name for s in body for x in ast.walk(s)):
            continue  # recursive
        out[st.name] = (st, body)
    return out


def _bind(fn, call):
    """parameter -> argument expression, or None when the call cannot be bound statically"""
    a = fn.args
    params = [p.arg for p in a.args] + [p.arg for p in a.kwonlyargs]
    if any(isinstance(x, ast.Starred) for x in call.args) or any(k.arg is None for k in call.keywords) or len(call.args) > len(a.args):
        return None
    bound = {}
    for p, v in zip([p.arg for p in a.args], call.args):
        bound[p] = v
    for k in call.keywords:
        if k.arg not in params or k.arg in bound:
            return None
        bound[k.arg] = k.value
    defaults = dict(zip([p.arg for p in a.args][len(a.args) - len(a.defaults):], a.defaults))
    defaults.update({p.arg: d for p, d in zip(a.kwonlyargs, a.kw_defaults) if d is not None})
    for p in params:
        if p not in bound:
            if p not in defaults:
                return None
            bound[p] = defaults[p]
    return bound


class _Subst(ast.NodeTransformer):
    def __init__(self, mapping):
        self.mapping = mapping

    def visit_Name(self, node):
        if node.id in self.mapping:
            new = self.mapping[node.id]
            if isinstance(new, str):
                return ast.copy_location(ast.Name(id=new, ctx=node.ctx), node)
            if isinstance(node.ctx, ast.Load):
                return _copy(new)
        return node


def _copy(node):
    import copy
    return copy.deepcopy(node)


def inline_helpers(tree):
    """in place; returns the number of call sites inlined"""
    helpers = _inlinable_helpers(tree)
    if not helpers:
        return 0
    counter = [0]
    total = [0]

    def expand(call):
        """-> (prefix statements, expression) or None"""
        fn, body = helpers[call.func.id]
        bound = _bind(fn, call)
        if bound is None:
            return None
        counter[0] += 1
        tag = counter[0]
        params = set(bound)
        assigned = {t.id for s in body for t in ast.walk(s) if isinstance(t, ast.Name) and isinstance(t.ctx, ast.Store)}
        # a parameter that the helper re-binds becomes a fresh local initialised with the argument
        pre = []
        mapping = {}
        def simple(e):
            return isinstance(e, (ast.Name, ast.Constant)) or (isinstance(e, ast.Attribute) and simple(e.value)) or \
                (isinstance(e, ast.Subscript) and simple(e.value) and isinstance(e.slice, (ast.Constant, ast.Name)))
        for p, e in bound.items():
            # an argument that is not a plain reference (a constructor call, an arithmetic expression) is evaluated once, into a
            # fresh local: substituting it at every use would build distinct objects
            if p in assigned or not simple(e):
                fresh = f"_inl{tag}_{p}"
                pre.append(ast.Assign(targets=[ast.Name(id=fresh, ctx=ast.Store())], value=_copy(e), lineno=call.lineno))
                mapping[p] = fresh
            else:
                mapping[p] = e
        for v in assigned - params:
            mapping[v] = f"_inl{tag}_{v}"
        sub = _Subst(mapping)
        stmts = [sub.visit(_copy(s)) for s in body[:-1]]
        expr = sub.visit(_copy(body[-1].value))
        for s in pre + stmts:
            ast.copy_location(s, call)
            ast.fix_missing_locations(s)
        return pre + stmts, expr

    def process_block(blk, owner_name):
        i = 0
        while i < len(blk):
            st = blk[i]
            if isinstance(st, (ast.FunctionDef, ast.AsyncFunctionDef)):
                process_block(st.body, st.name)
                i += 1
                continue
            if isinstance(st, ast.ClassDef):
                process_block(st.body, owner_name)
                i += 1
                continue
            # calls in the expressions that belong to this statement itself (not to nested blocks)
            own_exprs = []
            for f, v in ast.iter_fields(st):
                if f in ("body", "orelse", "finalbody", "handlers", "cases"):
                    continue
                if isinstance(v, ast.AST):
                    own_exprs.append(v)
                elif isinstance(v, list):
                    own_exprs += [x for x in v if isinstance(x, ast.AST)]
            target = None
            for e in own_exprs:
                blocked = set()
                for x in ast.walk(e):
                    if isinstance(x, _NO_INLINE_INSIDE + (ast.IfExp, ast.BoolOp)):
                        blocked |= {id(y) for y in ast.walk(x) if y is not x}
                for x in ast.walk(e):
                    if isinstance(x, ast.Call) and isinstance(x.func, ast.Name) and x.func.id in helpers and x.func.id != owner_name and id(x) not in blocked:
                        target = x
                        break
                if target is not None:
                    break
            if target is not None and not isinstance(st, (ast.For, ast.While, ast.With)) or (target is not None and isinstance(st, (ast.If, ))):
                res = expand(target)
                if res is not None:
                    pre, expr = res

                    class R(ast.NodeTransformer):
                        def visit_Call(self, node):
                            if node is target:
                                return expr
                            return self.generic_visit(node)
                    blk[i] = R().visit(st)
                    blk[i:i] = pre
                    total[0] += 1
                    if total[0] > 500:
                        return
                    continue  # look at the same statements again (nested helper calls)
            for f in ("body", "orelse", "finalbody"):
                b = getattr(st, f, None)
                if isinstance(b, list) and b and isinstance(b[0], ast.stmt):
                    process_block(b, owner_name)
            for h in getattr(st, "handlers", []) or []:
                process_block(h.body, owner_name)
            for c in getattr(st, "cases", []) or []:
                process_block(c.body, owner_name)
            i += 1

    process_block(tree.body, None)
    ast.fix_missing_locations(tree)
    return total[0]
