"""./check entry point: parse args, build the index, run one property assembly."""
import argparse
import importlib
import json
import os
import sys
import traceback

VERIF = os.path.dirname(os.path.dirname(os.path.abspath(__file__)))
if VERIF not in sys.path:
    sys.path.insert(0, VERIF)

from sa.index import AnalysisError, Index  # noqa: E402
from sa.report import Report  # noqa: E402


def run_property(pid, tier, root, evidence_dir=None, quiet=False, replay=None):
    rep = Report(pid, tier, root, evidence_dir=evidence_dir, seed=int(os.environ.get("VERIF_SEED", "0") or 0), quiet=quiet)
    try:
        idx = Index(root)
        mod = importlib.import_module(f"props.{pid}")
        mod.run(idx, rep, tier)
        if replay:
            want = json.load(open(replay))["obligation"]["key"]
            rep.obs = [ob for ob in rep.obs if ob.key == want]
            rep.floors = {}
            rep.bulk = {}
            if not rep.obs:
                print(f"replay: obligation {want} is no longer derived on this tree")
        return rep.finish(), rep
    except AnalysisError as e:
        msg = f"ANALYSIS-INCOMPLETE property={pid} {e}"
    except Exception:  # noqa: BLE001 - any crash of the analyser is an analysis error, never a verdict
        msg = f"ANALYSIS-ERROR property={pid}\n" + traceback.format_exc()
    if not quiet:
        print(msg)
    rep.output = [msg]
    return 2, rep


def main(argv=None):
    ap = argparse.ArgumentParser()
    ap.add_argument("prop")
    ap.add_argument("--tier", default=os.environ.get("VERIF_TIER") or "quick", choices=["quick", "thorough"])
    ap.add_argument("--root", default="/repo")
    ap.add_argument("--replay")
    ap.add_argument("--evidence-dir")
    ap.add_argument("--jobs", type=int, default=16)
    a = ap.parse_args(argv)
    if a.prop == "selftest":
        from sa import selftest
        return selftest.main(a)
    if a.prop == "all":
        rc = 0
        for f in sorted(os.listdir(os.path.join(VERIF, "props"))):
            if f.startswith("C") and f.endswith(".py"):
                r, _ = run_property(f[:-3], a.tier, a.root, a.evidence_dir)
                rc = max(rc, r)
        return rc
    rc, rep = run_property(a.prop, a.tier, a.root, a.evidence_dir, replay=a.replay)
    if rc != 2 and a.tier == "thorough" and not a.replay:
        try:
            from sa import selftest
            vrc = selftest.validate_property(a.prop, a.jobs)
        except Exception:  # noqa: BLE001
            print(f"ANALYSIS-ERROR property={a.prop} (checker validation crashed)\n" + traceback.format_exc())
            vrc = 2
        if vrc != 0:
            return 2
    return rc


if __name__ == "__main__":
    sys.exit(main())
