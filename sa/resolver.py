"""Model of the (forked) plum resolver over the rule table extracted from the
decorators (DESIGN.md section 1.1 and analysis DISPATCH).

Trusted base: this file re-implements Resolver.resolve, Signature.__le__/match
and append_default_args of cola-plum-dispatch 0.1.4; the thorough tier of C04
differential-tests it against the live registry.
"""
import ast
import itertools

from sa.index import AnalysisError

ANNOTS = ("SelfAdjoint", "PSD", "Stiefel", "Unitary")
SCALAR_CLASSES = ("int", "float", "complex", "np.generic", "ndarray")


class Arg:
    __slots__ = ("cls", "annots")

    def __init__(self, cls, annots=frozenset()):
        self.cls, self.annots = cls, frozenset(annots)

    def __repr__(self):
        return self.cls + ("{" + ",".join(sorted(self.annots)) + "}" if self.annots else "")

    def __eq__(self, o):
        return self.cls == o.cls and self.annots == o.annots

    def __hash__(self):
        return hash((self.cls, self.annots))


class Resolver:
    def __init__(self, idx, modules=None):
        """modules: set of module names whose rules are registered (a configuration);
        None = every module"""
        self.idx = idx
        self.modules = modules
        self._sub_cache = {}
        self.annot_parent = {}
        for a in ANNOTS:
            if idx.has_cls(a):
                self.annot_parent[a] = [c.name for c in idx.mro(idx.cls(a))]

    # -- type order -----------------------------------------------------
    def sub(self, a, b):
        k = (a, b)
        r = self._sub_cache.get(k)
        if r is None:
            r = self._sub_cache[k] = self.idx.is_subclass_name(a, b)
        return r

    def accepts(self, atoms, cls):
        return any(self.sub(cls, t) for t in atoms)

    def atoms_le(self, x, y):
        return all(any(self.sub(a, b) for b in y) for a in x)

    def sig_le(self, s, o):
        return len(s) == len(o) and all(self.atoms_le(a, b) for a, b in zip(s, o))

    # -- rules ----------------------------------------------------------
    def rules_of(self, fname):
        rs = [r for r in self.idx.rules.get(fname, []) if r.kind == "rule"]
        if self.modules is not None:
            rs = [r for r in rs if r.module.name in self.modules]
        return rs

    def abstract_of(self, fname):
        rs = [r for r in self.idx.rules.get(fname, []) if r.kind == "abstract"]
        if self.modules is not None:
            rs = [r for r in rs if r.module.name in self.modules]
        return rs[0] if rs else None

    def isa(self, annots, target):
        return any(target in self.annot_parent.get(a, [a]) for a in annots)

    def cond_value(self, rule, args):
        """True / False, or None when the condition is not an annotation test (free)"""
        c = rule.cond
        if c is None:
            return True
        cached = getattr(rule, "_cond_form", None)
        if cached is None:
            cached = rule._cond_form = self._cond_form(rule)
        if cached is None:
            return None
        pos, target = cached
        if pos >= len(args):
            return None
        return self.isa(args[pos].annots, target)

    def _cond_form(self, rule):
        c = rule.cond
        if not isinstance(c, ast.Lambda):
            return None
        params = [a.arg for a in c.args.posonlyargs + c.args.args]
        b = c.body
        if (isinstance(b, ast.Call) and isinstance(b.func, ast.Attribute) and b.func.attr == "isa" and isinstance(b.func.value, ast.Name)
                and b.func.value.id in params and len(b.args) == 1):
            r = self.idx.resolve_expr(rule.module, b.args[0])
            if r is not None and r.kind == "class" and r.val.name in self.annot_parent:
                return (params.index(b.func.value.id), r.val.name)
        return None

    # -- the algorithm --------------------------------------------------
    def resolve(self, fname, args, free=None, reverse=False, rules=None):
        """-> (status, winners, candidates, matching); status OK | AMBIGUOUS | NOTFOUND.
        free: dict rule -> bool for conditions that are not annotation tests."""
        rules = self.rules_of(fname) if rules is None else rules
        sigs = [(r, s) for r in rules for s in r.sigs]
        if reverse:
            sigs = sigs[::-1]
        n = len(args)
        matching = []
        for r, s in sigs:
            if len(s) != n:
                continue
            if not all(self.accepts(t, a.cls) for t, a in zip(s, args)):
                continue
            cv = self.cond_value(r, args)
            if cv is None:
                cv = True if free is None else free.get(r, True)
            if not cv:
                continue
            matching.append((r, s))
        cands = []
        for sg in matching:
            le = [self.sig_le(sg[1], c[1]) for c in cands]
            ge = [self.sig_le(c[1], sg[1]) for c in cands]
            if not any(a or b for a, b in zip(le, ge)):
                cands.append(sg)
                continue
            new = [c for c, a, b in zip(cands, le, ge) if not (a and not b)]
            if any(le):
                cands = new + [sg]
            else:
                cands = new
        if not cands:
            return "NOTFOUND", [], cands, matching
        if len(cands) == 1:
            return "OK", cands, cands, matching
        precs = [c[0].precedence + (0.5 if c[0].cond is not None else 0.0) for c in cands]
        mx = max(precs)
        if sum(1 for p in precs if p == mx) == 1:
            return "OK", [cands[precs.index(mx)]], cands, matching
        return "AMBIGUOUS", [c for c, p in zip(cands, precs) if p == mx], cands, matching

    def free_rules(self, fname, args):
        """rules with a non-annotation condition whose types accept args"""
        out = []
        for r in self.rules_of(fname):
            if r.cond is None or self.cond_value(r, args) is not None:
                continue
            for s in r.sigs:
                if len(s) == len(args) and all(self.accepts(t, a.cls) for t, a in zip(s, args)):
                    out.append(r)
                    break
        return out

    def resolve_all(self, fname, args, reverse=False):
        """explore both values of every free condition; yields (free assignment, result)"""
        fr = self.free_rules(fname, args)
        for vals in itertools.product([True, False], repeat=len(fr)):
            free = dict(zip(fr, vals))
            yield free, self.resolve(fname, args, free, reverse)


def intrinsic_annotations(idx):
    """kind -> annotations every instance carries: constant get_annotations rules and
    `annotations={...}` passed to the base constructor"""
    out = {}
    for r in idx.rules.get("get_annotations", []):
        if r.kind != "rule" or len(r.params) != 1:
            continue
        from sa import dataflow as df
        rets = df.returns(r.node)
        straight = not any(isinstance(s, (ast.If, ast.For, ast.While, ast.Try, ast.Match, ast.With)) for s in r.node.body)
        if straight and len(rets) == 1 and isinstance(rets[0].value, ast.Set):
            names = set()
            for e in rets[0].value.elts:
                rr = idx.resolve_expr(r.module, e)
                if rr is not None and rr.kind == "class":
                    names.add(rr.val.name)
            for t in r.types[0]:
                if t != "LinearOperator":
                    out.setdefault(t, set()).update(names)
    for ci in idx.operator_classes():
        init = ci.methods.get("__init__")
        if init is None:
            continue
        for c in ast.walk(init.node):
            if isinstance(c, ast.Call):
                for k in c.keywords:
                    if k.arg == "annotations" and isinstance(k.value, ast.Set):
                        for e in k.value.elts:
                            rr = idx.resolve_expr(ci.module, e, init)
                            if rr is not None and rr.kind == "class":
                                out.setdefault(ci.name, set()).add(rr.val.name)
    # inherited by subclasses
    for ci in idx.operator_classes():
        for b in idx.mro(ci)[1:]:
            if b.name in out:
                out.setdefault(ci.name, set()).update(out[b.name])
    return {k: frozenset(v) for k, v in out.items()}


def constructed_classes(idx, node, module, fn=None):
    """classes instantiated (called) inside node"""
    out = []
    for c in ast.walk(node):
        if isinstance(c, ast.Call):
            r = idx.resolve_expr(module, c.func, fn)
            if r is not None and r.kind == "class":
                out.append(r.val.name)
    return out


def admitted_algorithms(idx, res, fname, pos):
    """algorithm classes admitted at (function, position): named by a rule there, the
    default's class, and classes constructed inside the function's own rules."""
    algs = {c.name for c in idx.algorithm_classes()}
    named, out = set(), set()
    rules = res.rules_of(fname)
    ab = res.abstract_of(fname)
    for r in rules + ([ab] if ab else []):
        if pos < len(r.params):
            for t in r.params[pos][1]:
                if t in algs and t != "Algorithm":
                    named.add(t)
            d = r.params[pos][2]
            if d is not None:
                for n in constructed_classes(idx, d, r.module):
                    if n in algs:
                        out.add(n)
    out |= named
    if named:
        for r in rules:
            for n in constructed_classes(idx, r.node, r.module, r.func):
                if n in algs and n != "Algorithm":
                    # constructed and forwarded to the same function
                    out.add(n)
    return sorted(out)
