#!/venv/bin/python
"""Regenerate /verif/MANIFEST.json from the table below (kept valid at all times)."""
import json
import os

VERIF = os.path.dirname(os.path.dirname(os.path.abspath(__file__)))

# pid -> (technique, level text, level note, design ref)
CHECKS = {
    "C04": ("exhaustive enumeration of the dispatch lattice against a model of the plum resolver (rule table extracted from decorators with ast)",
            "Complete decision for the finite lattice (function x operator kind(s) x annotation set x algorithm class x arity x configuration): every tuple "
            "must have exactly one winning rule under plum's algorithm, in registration and reversed order. A tie or a missing rule is reported with the "
            "candidate list; every rule's cond lambda must accept the arity of every signature registered for the rule (defaults create shorter ones). An algorithm argument a rule hands on untouched and unconditionally to another dispatched function carries every class the rule can be selected with to that function's selection: each must be admitted there or accepted by an unconditional generic rule (forwarded-algorithm). This is the property itself, decided from the decorators, including tuples and backends no test builds.",
            "Trusted: the ~150-line resolver model (differentially tested against the live plum registry in the thorough tier), the documented argument "
            "kinds in sa/oracle_domains.py, name resolution of sa/index.py. Errors raised inside the selected rule are outside the property.", "4/C04"),
    "C19": ("reachability over the call graph with dispatch edges resolved by the resolver model; materialiser who-may-call; default-arity consistency",
            "Decides the code-shape content of the property: (1) no to_dense/densify/eye/kron/block_diag/diag materialiser is reachable from the product "
            "methods of the 10 structured kinds; (2) for every required (function, kind) pair, every admitted algorithm class, with and without the optional "
            "algorithm argument, the selected rule neither materialises its own operator argument nor forwards it to a selection that does (least fixpoint); "
            "(3) omitting an optional argument selects the same rule as passing its default. The generic densifier multiplies into an identity of the smaller dimension on the branch taken because that dimension is (a multiple) smaller.",
            "Trusted: resolver model, materialiser set and required pairs in sa/oracle_structural.py. Peak memory as a number and constant factors are not decided.", "4/C19"),
    "C17": ("typestate analysis of global-RNG use (save/perturb/restore bracket on every path), def-use chains of keys, bounded-loop certificate, sibling cross-check of backends",
            "Full for determinism and global state: every reference to numpy.random / random / torch RNG APIs in cola/ (three backends, including the two the "
            "sandbox cannot import) is classified; perturbing calls must lie in a get_state/set_state bracket on every path to a normal exit; keys passed to "
            "randn must derive from a parameter, PRNGKey(constant) or next_key; loop-carried keys must advance; PRNGKey/next_key must depend on their argument; "
            "the Hutchinson loop has a cap conjunct and a +1 counter. Of unbiasedness only three necessary conditions are decided: probe/estimator conjugation agreement, that "
            "the estimator reads the sign of the offset k (not only abs(k)), and that on every path of the loop body the multiplier of (A @ z) is the probe block z itself or a shift / mask of it. "
            "The options given to Auto (tolerance, iteration cap, key) reach the estimator it constructs. No function writes a new key into an object passed by its caller. The cap comparison is strict exactly when the counter starts at 0. A local generator is never created from a seed that may be None. Every routine and algorithm object that takes rand / key / tol / max_iters / bs and calls the estimator hands its own value on (option-passthrough).",
            "Statistical unbiasedness, variance and the Rademacher-exactness claim are not decided. Exceptional exits inside a bracket are ignored.", "4/C17"),
    "C18": ("ownership / effect analysis: flow-sensitive origins of every in-place write target, parameter-write and return-alias summaries to a fixpoint over the resolved call graph",
            "Full for non-mutation: every in-place write site in cola/ (update_array on numpy/torch, augmented assignment, subscript/attribute store, out=, mutating methods, "
            "setattr) is classified by where its target's storage comes from; no public entry point may carry a parameter-write summary; products are treated as possibly "
            "returning their operand (Identity._matmat does); attribute stores and mutating calls on representation-relevant operator attributes outside constructors are "
            "violations; the annotation wrapper must build a new object and a new set. Flatten/unflatten: writer/reader encoding agreement is decided; of the history clause only that "
            "the per-class leaf table is copied for every class the metaclass creates. The per-attribute leaf/static classification is a function of the value's kind: it is evaluated for an operator without array leaves and must say `dynamic`.",
            "Trusted: backend freshness table in sa/own.py (XNP_FRESH / XNP_VIEW), the named exclusions (module-namespace plumbing, torch ctx, the update_array primitives). "
            "The registry-history clause of flatten depends on runtime values and is not decided.", "4/C18"),
    "C05": ("abstract interpretation of the get_annotations rules over operator descriptors against an oracle of preserved annotations; provenance dataflow (ORTHO/COLS) at annotation output sites",
            "Full for the inference rules: each get_annotations rule is executed by an interpreter for the pure fragment it is written in (set algebra, reduce, comprehensions, "
            "isinstance/issubclass against parametric patterns, identity tests) on every composite with up to 3-4 parts x all 16 raw annotation subsets per part; a claimed annotation "
            "that linear algebra does not allow is reported with the witness operator. Refute-only for output sites: Unitary/Stiefel(...) inside cola/ is refuted when the wrapped "
            "value provably has a caller-controlled column count or holds general eigenvectors, proved when it is a (column selection of a) unitary factor, undecided otherwise. Index "
            "objects of a Sliced that are materialised as arange(N)[s] must take N from the parent's shape on the same axis. Krylov svd rules take the Gram matrix of the shorter side on every branch (the other one is singular, its back-substituted factor is not orthonormal); index-array equality in the Sliced rule is interpreted for `.all()` and `.any()`. PSD is not claimed for V diag(f(w)) V^H with f supplied by the caller.",
            "Trusted: oracle `allowed` in sa/annot.py (one line per combinator with its reason); backend provenance table in sa/prov.py (eigh/svd/qr/eig). Numerical orthogonality of "
            "Krylov bases and PSD-ness of user data are not decided.", "4/C05"),
    "C02": ("term rewriting (abstract interpretation of product methods and transpose/adjoint rules into a free algebra over T, C, inv, products, sums, factor families; normal-form comparison)",
            "Decides the algebraic shape, not the numbers: every explicit _rmatmat must be right-multiplication by the same term its _matmat left-multiplies with (Dense, Sparse, "
            "Product order, Sum, Diagonal broadcasting idiom, Transpose, Adjoint, TriangularInv incl. the lower flag); the default _rmatmat's self-adjoint shortcut must equal X*A "
            "under H(A)=A; each transpose/adjoint rule must equal T(A) / C(T(A)) under its own cond and its operand kind's defining equation; .T/.H must delegate to them; an operator kind "
            "that subclasses another kind (and is therefore selected by all of its dispatch rules) must represent the same matrix term as its base. Row / column gathers by a permutation "
            "payload are part of the algebra (X[p] = P X, X[:, p] = X P^T).",
            "Opaque by declaration: FFT, Jacobian, Sliced values, the linear_transpose branch. Numerical agreement for nestings is not decided.", "4/C02"),
    "C03": ("term rewriting of the operator overloads and dot/add/mul/kron/kronsum rules against the matrix expression each stands for; structural checks of shape validation and composite metadata",
            "Decides the algebraic meaning of every Python operator overload of LinearOperator (A+x, A-x, -A, c*A, A/c, c/A, A@B, B@A, the A+0 shortcut) and of every rewrite rule "
            "(factor order for Product/Kronecker/KronSum flattening, multiset for Sum, identity dropping, scalar merging, diagonal Kronecker fusion in row-major order, scalar operator "
            "placed on the side whose size it has), that block_diag assembles its operands in order without multiplying nested multiplicities, that Product/Sum constructors and @ validate the contracted dimensions before building, and that the dtype of *Ms composites is a "
            "reduction over all parts, and that the scalar operator representing c in c*A is typed by something c influences (refuted on this tree for three rules: known findings). The contracted-dimension check of `@` dominates the operator-operand exit (or every rule of dot() builds a validating Product).",
            "The value of the represented matrix and error messages are not decided; totality/unambiguity of the combinators is C04.", "4/C03"),
    "C06": ("term rewriting of every inv / pinv rule against inv(A) under the operand kind's defining equation and the factorisation hypotheses; decision tables of the Auto rules",
            "Decides the algebraic shape of every dispatch path of inv/pinv/solve: factorisation base cases (inv(H(L))*inv(L) for A = L*H(L); inv(U)*inv(L)*inv(P) for A = P*L*U), "
            "structural rules (reversed product of inverses, factor-wise and NOT reversed for Kronecker/BlockDiag with multiplicities kept, reciprocal payloads, argsort permutation, "
            "adjoint under the Unitary cond, triangular solve), forwarding of the algorithm argument, the lazy iterative inverse calling alg(A, X), and that Auto is exhaustive and "
            "chooses PSD-only algorithms only where its guard implies PSD. For the CG path, the HOMOG analysis of C12 decides that the stopping threshold is homogeneous in b "
            "(the requested tolerance is relative) and the solution linear in b. What an operand kind represents is read off its own _matmat (term grammar), so a new structural "
            "rule (inv(TriangularInv), pinv(Kronecker), ...) is decided, not special-cased; pinv rules are compared with the Moore-Penrose algebra (distributes over Kronecker / block-diagonal, "
            "not over products). Every iterative algorithm an Auto rule constructs must be configured from the Auto object's own options (wholesale, or field f from key f).",
            "Residual sizes, tolerances, conditioning and the numerical effect of the 10^6 threshold are not decided. Dispatch of every (kind, algorithm) pair is C04; densification is C19.", "4/C06"),
    "C09": ("term rewriting of the apply_unary / exp / log / pow / sqrt / isqrt rules; decision table of the Auto rule",
            "Decides the algebraic shape of every matrix-function rule: dense paths must be V f(D) V^-1 with V^-1 written as V^H only for the unitary eigenvectors of eigh; structural "
            "rules (Diagonal, BlockDiag with multiplicities, Identity, ScalarMul, Transpose, Adjoint, exp of a Kronecker sum, pow of a Kronecker product) must equal f of the operand "
            "kind's defining expression under the guard of each exit; a non-integer power may be distributed over a multiplicative decomposition (Kronecker factors, scalar x operator) "
            "only under a positivity / integrality guard (refuted on this tree for pow(Kronecker): known finding); sqrt/isqrt must be pow with exponent +-1/2; the integer shortcuts of pow, judged exit by exit with the path conditions of each return (if / early return / match-case patterns and guards): an exit that "
            "returns I / the k-fold product / inv(A) must be reached only when alpha is close to the integer k and k is 0 / >= 1 / -1 (with the algorithm map); "
            "f and alg are forwarded; Auto chooses Eigh/Lanczos only under a guard implying SelfAdjoint.",
            "The Krylov paths (LanczosUnary, ArnoldiUnary), branch choice and accuracy are not decided.", "4/C09"),
    "C11": ("term rewriting / structural comparison of the cholesky and plu rules",
            "Structure-level: Kronecker / BlockDiag rules must rebuild the same composite kind from the factor-wise decompositions in order (multiplicities kept), component i of every "
            "plu rule must play role i, base cases must hand A itself (not a symmetrised or transposed variant) to the backend factorisation and wrap the factors with lower=True / "
            "True / False, Diagonal|ScalarMul rules return sqrt(A). cholesky(Diagonal) written on the payload is decided: Diagonal(sqrt(A.diag)) proved, the root of a modified payload refuted.",
            "L L^H = A and P L U = A as numbers and positive-definiteness are not decided; densification is C19.", "4/C11"),
    "C16": ("def-use pairing, sign provenance and term rewriting over the svd rules; pinv rules as in C06",
            "Structural necessary conditions of a valid SVD / pseudo-inverse: U, Sigma and V are permuted / sliced by one common index in every rule; Sigma is non-negative by "
            "provenance (backend singular values, sqrt of eigenvalues, ones) and is refuted when it is the rule's own payload; the Krylov rules run the eigen-solver on H(A)A or A H(A) "
            "(not on a transposed Gram matrix) and recover the other factor as A V inv(Sigma) / H(A) U inv(Sigma); pinv structural rules equal the inverse of the payload, the mask selecting the entries a pinv rule inverts is not an ordering test on the signed payload, the "
            "least-squares operator has shape (columns, rows); an exit that returns one factor as both U and V is restricted to PSD operands; the CG pseudo-inverse runs the solver on a Gram matrix whose range contains the vector it is "
            "applied to for wide and for tall operands; Auto tables are exhaustive.",
            "Orthonormality, best rank-k and minimum-norm optimality are numerical and not decided; the CG pinv rule regularises on purpose and has no exact-algebra obligation.", "4/C16"),
    "C07": ("scalar term rewriting of every slogdet rule against the determinant identities; dependence and sign-domain rules; decision table of the Auto rule",
            "Decides the algebraic shape of the (sign, logabs) pair of every slogdet rule: product of square factors, Kronecker exponent N/n_i on sign and log-magnitude, block "
            "multiplicities, diagonal / triangular (prod d/|d|, sum log|d|), c I_n -> ((c/|c|)^n, n log|c|), identity, Cholesky (s conj s, 2 ld), delegation to P L U; the sign must "
            "depend on what the determinant's sign depends on (permutation parity); a rule for a kind without a closed form in the scalar grammar (Householder) must read every payload the determinant provably varies with; the log-magnitude must not be provably non-negative; logdet returns the second component and "
            "forwards both algorithm arguments; Auto picks Cholesky/Lanczos only under PSD.",
            "Accuracy of the Krylov / stochastic trace path and branch cuts are not decided.", "4/C07"),
    "C08": ("dominance / dependence / idiom checks over the diag and trace rules",
            "Decides the 'same values or refuses' clause structurally: rules whose formula only holds for the main diagonal (BlockDiag, Kronecker, KronSum) must refuse k != 0, the "
            "k-generic ones must let k reach the result; self-built off-diagonals have length n - |k|; recursive calls keep (k, alg); the outer-product idiom puts factor i on axis i "
            "(row-major) with product for Kronecker and sum for KronSum -- decided by interpreting the rule's own code over axis labels for 2, 3 and 4 factors (AXES: indexing "
            "with None / slice / ..., broadcasting, folds, comprehensions; two factors meeting on one axis or a wrong axis order is a counterexample with that many factors); BlockDiag "
            "concatenates with multiplicities; trace = sum of diag(A, 0, alg) after a squareness check; structural trace rules are compared with the kind's trace identity as scalar terms "
            "(product of traces for Kronecker, sum for Sum, multiplicity-weighted sum for BlockDiag, size-weighted sum for KronSum, c*n for ScalarMul); Auto's options reach the estimator; the Exact/Hutch base case forwards (A, k); Auto constructs Exact on the small-tolerance branch; the blocked probing loop of exact_diag ranges over "
            "every column of the operator in steps of the block it hands to the chunk builder and reads the sign of the offset somewhere; the Auto rule's default tolerance is an "
            "operator-independent literal not looser than 1e-6. A rule for an n-ary composite (Product, Sum, Kronecker, ...) that takes its parts by constant index must pin their number (part-coverage; the same obligation is raised for the inverse, determinant, matrix-function, eig, factorisation and svd rules).",
            "The chunk/shift arithmetic inside get_I_chunk_like (sizes not divisible by the block) and the numerical value of the Auto threshold are runtime quantities and "
            "are NOT decided.", "4/C08"),
    "C10": ("provenance dataflow (sort order of spectra) and def-use pairing over the eig rules and their Krylov helpers; decision table of the Auto rule",
            "Decides the selection mechanism: get_slice maps SM/LM to the first/last k entries, so every spectrum it cuts must be in ascending-magnitude order (eigh: algebraic, eig: "
            "unordered, x[argsort(x)]: algebraic, x[argsort(|x|)]: magnitude); values and vectors must be permuted by the same argsort index on the column axis (a Permutation operator "
            "or row index is the transposed permutation) and cut by the same slice; eigmax/eigmin call eig with k=1 and LM/SM; power iteration refuses other requests; Auto chooses "
            "Lanczos only under SelfAdjoint; the matrix handed to the backend eigh / eig is A itself (term equality, under H(A)=A for eigh); a triangular back-substitution helper "
            "that reads one strict triangle only receives data of that orientation for every value of the operand's lower flag; the (complex) output of the general dense "
            "eigen-decomposition is never converted to the operator's own dtype.",
            "That returned pairs satisfy A v = lambda v, convergence and linear independence are numerical and not decided.", "4/C10"),
    "C12": ("bounded-loop certificate (cap conjunct + counter monotonicity), def-use of the stopping tolerance and the scaling array, axis discipline of reductions, typestate of the iteration counter",
            "Decides the stopping contract and the structural part of the per-column claim: the loop condition is a conjunction containing k < max_iters with k from 0 by +1 per body; it "
            "continues while ANY column's residual norm exceeds tol' = tol*||r0|| + tol, computed once; a statistic over the batch (mean / sum / min / median of the residual norms) in its place is refuted; every wrapper and the CG object hand tol / max_iters / x0 / P on to the routine they call; the right-hand side is divided by its column norms and solution and residual are "
            "multiplied back by the same array (linearity in b, exact zero for b = 0); every reduction on the CG state in the routine and its helpers is over the row axis (no mixing of "
            "right-hand-side columns); the reported iteration count must advance once per body execution. A degree-of-homogeneity type system (HOMOG: b has degree 1, exact zeros and "
            "division guards any degree, products add, sums need equal degrees) additionally decides that the stopping test compares quantities of equal degree (a relative tolerance), "
            "that the returned solution has degree 1 in b, and that the counter is compared with the caller's max_iters itself, not a derived value. The monitored loop runner must hand "
            "the caller's condition through unchanged on every exit of its wrapper (no stopping criterion of its own), and no reciprocal of a division guard below the smallest normal "
            "float32 is formed (0 * inf for a zero right-hand side in single precision). A literal that a magnitude is compared with to be treated as zero must not exceed the smallest normal single-precision number. No `parameter or <number>` default on the CG path (an explicit max_iters=0 stays 0).",
            "Krylov optimality of the iterate, the recurrences themselves and preconditioner independence are numerical and NOT decided (a formula match of the CG recurrences was "
            "rejected: an equivalent reformulation would be a false alarm).", "4/C12"),
    "C14": ("bounded-loop certificate, constructor-argument identity, sign provenance of written entries, sesquilinear-form convention of the Gram-Schmidt step, def-use pairing",
            "Structural necessary conditions: at most min(max_iters, n) steps (clip + cond conjunct i <= max_iters with i from 1 by +1); T is Tridiagonal(a, b, a) with the same array in "
            "both off-diagonal slots and off-diagonal entries written as norms; the start vector is divided by its norm (not in place) and stored in column 1; the re-orthogonalisation "
            "coefficient conjugates the basis it is later multiplied with; lanczos_eigs sorts ascending and permutes values and vector columns by the same index; diagonal, off-diagonal "
            "and Q are trimmed to N, N-1, N for one size N, and N counts the steps run (final loop counter minus its initial value; the loop runner's 'iterations' counts "
            "condition evaluations, one more); the work buffers of init_lanczos are typed by the operator's dtype at every call site; every clip / maximum bound inside the "
            "factorisation loop has the degree of homogeneity (in the scale of A) of the quantity it guards; the loop condition folds to False at an exact breakdown. Every wrapper and the algorithm object hand their own tolerance / iteration cap (C12: also start vector and preconditioner) on to the routine they call (option-passthrough). The stopping test continues while ANY column is above its threshold (polarity of comparison and reduction); no in-place write on a value that may be the operator product or the loop state (products may return their operand); Ritz values are in ascending order by abstract interpretation over spectrum orders, helpers followed. The diagonal handed to Tridiagonal comes from the factorisation through selections, `.real`, casts and copies only. The relative breakdown test must not compare the first tested entry with itself (open finding).",
            "Orthonormality, the three-term recurrence, early termination and A Q - Q T are numerical and not decided.", "4/C14"),
    "C15": ("bounded-loop certificate, allocation check of the work buffers, sign provenance, dependence of the normalisation floor on the tolerance, projection convention",
            "Thin structural claim: at most min(max_iters, n) steps; H and Q are zero-initialised (never empty) and sized by the requested cap, which is why extra rows/columns stay zero; "
            "sub-diagonal entries are norms; every wrapper and the Arnoldi object hand tol / max_iters on to the routine they call; the new vector is divided by clip(norm, floor) with a floor that depends on tol (a tol-independent floor turns post-breakdown rounding noise "
            "into a unit column with a zero H column); modified Gram-Schmidt conjugates the basis; the first column is the normalised start vector; arnoldi_eigs drops the last row of H "
            "and last column of Q together; the work buffers of init_arnoldi are typed by the operator's dtype at every call site; every clip / maximum bound inside the factorisation "
            "loop has the degree of homogeneity (in the scale of A) of the quantity it guards (refuted on this tree: known finding); the loop condition folds to False at an exact "
            "breakdown; arnoldi_eigs applies no data-dependent mask to the Ritz values. The stopping test continues while ANY column is above its threshold; no in-place write on a value that may alias the basis; the driver clips the cap before it allocates and hands allocator and loop the same cap.",
            "The Arnoldi relation, orthonormality and breakdown behaviour as numbers are not decided.", "4/C15"),
    "C01": ("dtype-source dataflow over every _matmat/_rmatmat, dependence of composite metadata, role checks of dimensions on the generic paths and the Kronecker / KronSum / BlockDiag contractions",
            "Partial by construction (the value of a product is out of reach): decides that no buffer typed by one side receives data of the other side in place, that the result dtype of "
            "every product method is influenced by operator and operand, that composite shapes depend on (or validate) all parts, that 1-D operands are reshaped to a column/row and back, "
            "that to_dense multiplies an identity of the matching side size, that Transpose/Adjoint swap the shape, that the operand is split along the factors' COLUMN sizes and the "
            "result has the operator's row count, that every axis moved to the front is moved back by the inverse move, that the pieces a BlockDiag cuts its operand into are sized "
            "by the blocks' column counts and the pieces of its result by their row counts (AXIS-TAINT: which axes of the parts' shapes an offset is computed from, through helpers and running totals), "
            "that no product method converts its operand to a dtype that ignores it, that a blocked product loop covers the whole range (ceil count, or floor count with the last block extended), "
            "and that a to_dense override returns the matrix the class's own product applies (TERM). The block-diagonal product is evaluated per block as a (TERM, symbolic shape) pair: every `@` contracts equal dimensions for any multiplicity and for multiplicity one the block of the result is M·x.",
            "Values of products (Kronecker reshaping, BlockDiag slicing, Tridiagonal shifts), nesting depth and tolerances are NOT decided. Opaque methods: FFT, Jacobian, Hessian, "
            "ConvolveND, the Krylov unary operators, user-supplied matmat.", "4/C01"),
    "C20": ("dimension-role, attribute-existence, dtype-source and guard/use agreement checks on LinearOperator.__getitem__ and Sliced; one known-bad-idiom rule",
            "Partial: decides that each arm's canonical vector has the contracted dimension of the operator it multiplies (rows for A.T, columns for A), that every self attribute read by a "
            "base-class method exists on the base class, that Sliced derives rows from slices[0] and columns from slices[1], stores the caller's index objects unchanged, scatters into an "
            "(A.C, k) buffer whose dtype covers the operand and gathers by the other index (mirror image on the left), that duck-type guards test the attribute they protect, that every "
            "documented index form has an arm and the fall-through raises, that no slice(*s.indices(n)) round trip is used, and that every exit of Sliced._matmat/_rmatmat goes through the "
            "scatter/gather pair (a size-guarded shortcut that multiplies the parent by the raw operand is refuted) -- these Sliced obligations are judged on the VALUE the methods return "
            "(SCATTER domain: gather(parent @ scatter(zeros(shape), X, idx), idx'), through helper methods and any naming) --, that index objects of a Sliced are resolved against the "
            "parent's shape, that no __getitem__ compares two integer indices raw (negative aliases), and that an index of one axis is never reduced modulo / compared with the length of the other. No method of Sliced indexes an array with both stored index objects in one subscript (paired instead of outer selection); case coverage of __getitem__ is decided by executing its normal form on abstract index forms.",
            "Values for negative / strided / empty slices are delegated to the array library by construction: noted, not proved.", "4/C20"),
}

NOT_APPLICABLE = {
    "C13": "GMRES optimality is a floating-point least-squares statement; its only code-shape clause (at most m operator products = the Arnoldi iteration cap) is decided "
           "under C15, so claiming C13 through it would be a relabelled C15. No sound static argument bounds the regularised normal-equation solve.",
}


def main():
    props = [json.loads(l) for l in open(os.path.join(VERIF, "properties.jsonl"))]
    checks = []
    for p in props:
        pid = p["id"]
        if pid not in CHECKS or not os.path.exists(os.path.join(VERIF, "props", f"{pid}.py")):
            continue
        tech, text, note, ref = CHECKS[pid]
        checks.append({
            "property_id": pid,
            "quick_cmd": f"./check {pid} --tier quick",
            "thorough_cmd": f"./check {pid} --tier thorough",
            "evidence_file": f"/verif/evidence/{pid}.json",
            "replay_cmd_template": f"./check {pid} --replay {{path}}",
            "engine": "sa",
            "level_claimed": {"category": "other", "text": text, "design_ref": f"DESIGN.md section {ref}"},
            "level_note": note,
            "technique": "static analysis: " + tech,
        })
    claimed = {c["property_id"] for c in checks}
    na = []
    for p in props:
        if p["id"] in claimed:
            continue
        na.append({"property_id": p["id"], "reason": NOT_APPLICABLE.get(p["id"], "static check for this property not committed yet (in progress)")})
    m = {
        "version": 1,
        "setup_cmd": "/venv/bin/python -B -c \"import ast,glob; [ast.parse(open(f).read(),f) for f in glob.glob('/verif/sa/*.py')+glob.glob('/verif/props/*.py')]\"",
        "hooks": {
            "guard": "WILSON_LABS_COLA_VERIF",
            "enable": "no hooks: the checks parse /repo/cola with ast and never import or run it",
            "baseline_off_cmd": "cd /repo && /venv/bin/python -m pytest -q -p no:cacheprovider --timeout=900 --continue-on-collection-errors",
            "source_commits": [],
            "add_only": True,
        },
        "engines": [{"name": "sa", "path": "/verif/sa", "serves_properties": sorted(claimed),
                     "kind_free_text": "stdlib-ast static analysis: source index, dispatch-table extraction + plum resolver model, per-property analyses (props/Cxx.py)"}],
        "checks": checks,
        "not_applicable": na,
        "notes": "All checks are static (ast over /repo/cola, re-parsed on every run). Exit 0 held / 1 VIOLATION / 2 analysis incomplete. See DESIGN.md.",
    }
    with open(os.path.join(VERIF, "MANIFEST.json"), "w") as fh:
        json.dump(m, fh, indent=1)
    print(f"MANIFEST.json: {len(checks)} checks, {len(na)} not_applicable")


if __name__ == "__main__":
    main()
