"""Small syntax-directed helpers shared by the analyses: def-use over a function
body, call-argument binding, scoped walks."""
import ast

FUNC_NODES = (ast.FunctionDef, ast.AsyncFunctionDef, ast.Lambda)


def walk(node, into_nested=True, descend_root=True):
    """pre-order walk; with into_nested=False nested function/lambda/class nodes are yielded
    but their bodies are not entered (the root itself is entered when descend_root)"""
    stack = [(node, True)]
    while stack:
        n, is_root = stack.pop()
        yield n
        if isinstance(n, FUNC_NODES + (ast.ClassDef, )) and not into_nested and not (is_root and descend_root):
            continue
        stack.extend((c, False) for c in reversed(list(ast.iter_child_nodes(n))))


def body_nodes(fnode, into_nested=True):
    """nodes of a function body (decorators, annotations and defaults excluded)"""
    body = fnode.body if isinstance(fnode.body, list) else [fnode.body]
    for st in body:
        yield from walk(st, into_nested, descend_root=False)


def calls(fnode, into_nested=True):
    return [n for n in body_nodes(fnode, into_nested) if isinstance(n, ast.Call)]


def target_names(t):
    if isinstance(t, ast.Name):
        return [t.id]
    if isinstance(t, (ast.Tuple, ast.List)):
        out = []
        for e in t.elts:
            out += target_names(e)
        return out
    if isinstance(t, ast.Starred):
        return target_names(t.value)
    return []


def assignments(fnode, into_nested=False):
    """name -> list of (value expr, index path or None, stmt).  `a, b = f()` records
    (f(), (0,), stmt) for a and (f(), (1,), stmt) for b.  (memoised on the node)"""
    cache = getattr(fnode, "_asg_cache", None)
    if cache is None:
        try:
            cache = fnode._asg_cache = {}
        except AttributeError:
            cache = {}
    if into_nested in cache:
        return cache[into_nested]
    out = cache[into_nested] = {}

    def bind(t, value, path, st):
        if isinstance(t, ast.Name):
            out.setdefault(t.id, []).append((value, path, st))
        elif isinstance(t, (ast.Tuple, ast.List)):
            if isinstance(value, (ast.Tuple, ast.List)) and len(value.elts) == len(t.elts) and path is None and not any(isinstance(e, ast.Starred) for e in t.elts):
                for e, v in zip(t.elts, value.elts):
                    bind(e, v, None, st)
            else:
                for i, e in enumerate(t.elts):
                    if isinstance(e, ast.Starred):
                        bind(e.value, value, (path or ()) + ("*", ), st)
                    else:
                        bind(e, value, (path or ()) + (i, ), st)

    for n in body_nodes(fnode, into_nested):
        if isinstance(n, ast.Assign):
            for t in n.targets:
                bind(t, n.value, None, n)
        elif isinstance(n, ast.AnnAssign) and n.value is not None:
            bind(n.target, n.value, None, n)
        elif isinstance(n, ast.AugAssign):
            bind(n.target, n, None, n)
        elif isinstance(n, ast.NamedExpr):
            bind(n.target, n.value, None, n)
        elif isinstance(n, (ast.For, ast.AsyncFor)):
            bind(n.target, n.iter, ("iter", ), n)
        elif isinstance(n, ast.comprehension):
            bind(n.target, n.iter, ("iter", ), n)
        elif isinstance(n, ast.With):
            for it in n.items:
                if it.optional_vars is not None:
                    bind(it.optional_vars, it.context_expr, ("with", ), n)
    return out


def param_names(fnode):
    a = fnode.args
    return [x.arg for x in a.posonlyargs + a.args]


def param_defaults(fnode):
    """name -> default expr (positional and keyword-only)"""
    a = fnode.args
    pos = a.posonlyargs + a.args
    out = {}
    for p, d in zip(pos[len(pos) - len(a.defaults):], a.defaults):
        out[p.arg] = d
    for p, d in zip(a.kwonlyargs, a.kw_defaults):
        if d is not None:
            out[p.arg] = d
    return out


def bind_call(call, params, skip_first=False):
    """map the arguments of `call` to parameter names -> {param: expr}; starred / ** arguments
    are returned under the keys '*' and '**'."""
    ps = list(params)
    if skip_first:
        ps = ps[1:]
    out = {}
    i = 0
    for a in call.args:
        if isinstance(a, ast.Starred):
            out.setdefault("*", []).append(a.value)
            continue
        if i < len(ps):
            out[ps[i]] = a
        else:
            out.setdefault("*extra", []).append(a)
        i += 1
    for k in call.keywords:
        if k.arg is None:
            out.setdefault("**", []).append(k.value)
        else:
            out[k.arg] = k.value
    return out


def names_in(expr):
    return {n.id for n in ast.walk(expr) if isinstance(n, ast.Name)}


def is_name(expr, name):
    return isinstance(expr, ast.Name) and expr.id == name


def attr_chain(expr):
    """x.a.b -> ('x', ['a','b']); returns (None, []) when the root is not a Name"""
    parts = []
    while isinstance(expr, ast.Attribute):
        parts.append(expr.attr)
        expr = expr.value
    if isinstance(expr, ast.Name):
        return expr.id, parts[::-1]
    return None, []


def is_xnp_call(call, name=None):
    """xnp.f(...), self.xnp.f(...), A.xnp.f(...): returns f or None"""
    tagged = getattr(call, "_xnp_name", None)
    if tagged is not None:
        return tagged if name is None or tagged == name else None
    f = call.func
    if not isinstance(f, ast.Attribute):
        return None
    v = f.value
    if isinstance(v, ast.Attribute) and v.attr == "xnp":
        if name is None or f.attr == name:
            return f.attr
    return None


def _block_of(node):
    p = getattr(node, "_parent", None)
    if p is None:
        return None
    for f in ("body", "orelse", "finalbody"):
        blk = getattr(p, f, None)
        if isinstance(blk, list) and any(x is node for x in blk):
            return blk
    return None


def _stored_names(st):
    out = set()
    for n in ast.walk(st):
        if isinstance(n, ast.Name) and isinstance(n.ctx, (ast.Store, ast.Del)):
            out.add(n.id)
        elif isinstance(n, ast.arg):
            out.add(n.arg)
    return out


def effective_return(r):
    """`tmp = <expr>; return tmp` is the same exit as `return <expr>`: when the returned name's reaching definition is a plain
    assignment earlier in the SAME block and nothing in between re-binds the name or a name the expression reads, a Return
    node carrying <expr> (same position, same parent) stands for it.  Analyses then see one value per exit instead of the
    flow-insensitive join of every assignment to the temporary."""
    v = r.value
    if not isinstance(v, ast.Name):
        return r
    cached = getattr(r, "_effective", None)
    if cached is not None:
        return cached
    out = r
    blk = _block_of(r)
    if blk is not None:
        i = next(k for k, x in enumerate(blk) if x is r)
        touched = set()
        for st in reversed(blk[:i]):
            if isinstance(st, ast.Assign) and len(st.targets) == 1 and isinstance(st.targets[0], ast.Name) and st.targets[0].id == v.id:
                if v.id not in touched and not (names_in(st.value) & touched):
                    out = ast.Return(value=st.value)
                    ast.copy_location(out, r)
                    out._parent = getattr(r, "_parent", None)
                    out._origin = r
                break
            touched |= _stored_names(st)
            if v.id in touched:
                break
    r._effective = out
    return out


def returns(fnode):
    """Return nodes of the function itself (not nested defs), in source order; a returned temporary is replaced by the
    expression it was just bound to (effective_return)"""
    out = [effective_return(n) for n in body_nodes(fnode, into_nested=False) if isinstance(n, ast.Return)]
    return sorted(out, key=lambda n: (n.lineno, n.col_offset))


def sign_uses(fnode, name):
    """loads of `name` in the function (nested functions included): (under abs(...), elsewhere) -- a quantity that is only
    ever read through abs() cannot influence the result by its sign"""
    n_abs = n_other = 0
    for n in body_nodes(fnode, into_nested=True):
        if isinstance(n, ast.Name) and n.id == name and isinstance(n.ctx, ast.Load):
            p = getattr(n, "_parent", None)
            under = False
            while p is not None and p is not fnode:
                if isinstance(p, ast.Call) and ((isinstance(p.func, ast.Name) and p.func.id == "abs") or (isinstance(p.func, ast.Attribute) and p.func.attr in ("abs", "absolute"))):
                    under = True
                    break
                p = getattr(p, "_parent", None)
            if under:
                n_abs += 1
            else:
                n_other += 1
    return n_abs, n_other


def normalise_test(test, polarity=True):
    """(test, polarity) with leading `not`s stripped and `!=` rewritten as a negated `==` (so that `if not c: B else: A`
    reads the same as `if c: A else: B`)"""
    while isinstance(test, ast.UnaryOp) and isinstance(test.op, ast.Not):
        test, polarity = test.operand, not polarity
    if isinstance(test, ast.Compare) and len(test.ops) == 1 and isinstance(test.ops[0], ast.NotEq):
        t2 = ast.Compare(left=test.left, ops=[ast.Eq()], comparators=test.comparators)
        ast.copy_location(t2, test)
        return t2, not polarity
    return test, polarity


def _terminates(block):
    if not block:
        return False
    last = block[-1]
    if isinstance(last, (ast.Return, ast.Raise)):
        return True
    if isinstance(last, ast.If):
        return _terminates(last.body) and _terminates(last.orelse)
    return False


def _case_conditions(subject, case):
    """what `case <pattern> [if <guard>]:` of `match <subject>:` asserts, as (test, polarity) pairs over the subject's own expressions:
    literal sub-patterns become `elem == literal`, class patterns `isinstance(elem, C)`, captures are substituted into the guard"""
    conds, captures = [], {}

    def go(pat, subj):
        if isinstance(pat, ast.MatchValue):
            conds.append(normalise_test(ast.copy_location(ast.Compare(left=subj, ops=[ast.Eq()], comparators=[pat.value]), pat)))
        elif isinstance(pat, ast.MatchSingleton):
            if pat.value is True or pat.value is False:
                conds.append(normalise_test(subj, bool(pat.value)))
            else:
                conds.append((ast.copy_location(ast.Compare(left=subj, ops=[ast.Is()], comparators=[ast.Constant(value=pat.value)]), pat), True))
        elif isinstance(pat, ast.MatchAs):
            if pat.pattern is not None:
                go(pat.pattern, subj)
            if pat.name:
                captures[pat.name] = subj
        elif isinstance(pat, ast.MatchSequence) and isinstance(subj, (ast.Tuple, ast.List)) and len(pat.patterns) == len(subj.elts) \
                and not any(isinstance(x, ast.MatchStar) for x in pat.patterns):
            for q, e in zip(pat.patterns, subj.elts):
                go(q, e)
        elif isinstance(pat, ast.MatchClass) and not pat.patterns and not pat.kwd_patterns:
            conds.append((ast.copy_location(ast.Call(func=ast.Name(id="isinstance", ctx=ast.Load()), args=[subj, pat.cls], keywords=[]), pat), True))
        elif isinstance(pat, ast.MatchOr):
            pass  # a disjunction asserts nothing that holds in every alternative (not needed so far)

    go(case.pattern, subject)
    if case.guard is not None:
        import copy

        class S(ast.NodeTransformer):
            def visit_Name(self, node):
                return copy.deepcopy(captures[node.id]) if isinstance(node.ctx, ast.Load) and node.id in captures else node
        g = S().visit(copy.deepcopy(case.guard))
        ast.fix_missing_locations(g)
        if isinstance(g, ast.BoolOp) and isinstance(g.op, ast.And):
            conds += [normalise_test(v) for v in g.values]
        else:
            conds.append(normalise_test(g))
    out = []
    for t, pol in conds:
        # `bool(x)` / `bool(x) == True` read as x
        while isinstance(t, ast.Call) and isinstance(t.func, ast.Name) and t.func.id == "bool" and len(t.args) == 1:
            t, pol = normalise_test(t.args[0], pol)
        out.append((t, pol))
    return out


def branch_conditions(node, stop):
    """conditions that hold at `node`: [(normalised test, polarity)] for every enclosing if (innermost first); works for
    df.effective_return stand-ins through their `_origin`"""
    node = getattr(node, "_origin", node)
    out = []
    child, p = node, getattr(node, "_parent", None)
    while p is not None:
        # an earlier sibling `if t: ... return` (no fall-through) means t is false here -- the early-return layout of an if/else
        for f in ("body", "orelse", "finalbody"):
            blk = getattr(p, f, None)
            if isinstance(blk, list) and any(x is child for x in blk):
                for prev in blk[:next(i for i, x in enumerate(blk) if x is child)]:
                    if isinstance(prev, ast.If):
                        tb, te = _terminates(prev.body), _terminates(prev.orelse)
                        if tb and not te:
                            out.append(normalise_test(prev.test, False))
                        elif te and not tb:
                            out.append(normalise_test(prev.test, True))
        if p is stop:
            break
        if isinstance(p, ast.match_case):
            m = getattr(p, "_parent", None)
            if isinstance(m, ast.Match) and any(x is child for x in p.body):
                out += _case_conditions(m.subject, p)
        if isinstance(p, ast.If):
            in_body = any(x is child for x in p.body)
            in_else = any(x is child for x in p.orelse)
            if in_body or in_else:
                out.append(normalise_test(p.test, in_body))
        elif isinstance(p, ast.IfExp):
            if child is p.body or child is p.orelse:
                out.append(normalise_test(p.test, child is p.body))
        child, p = p, getattr(p, "_parent", None)
    return out


def resolve_value(fnode, e, depth=0):
    """an expression with a local name replaced by its defining expression when the name has exactly one plain binding in the
    function (so that `n = norm(x); y = x / n` and `y = x / norm(x)` read the same); other expressions are returned unchanged"""
    if isinstance(e, ast.Name) and depth < 4:
        asg = assignments(fnode, into_nested=False).get(e.id, [])
        plain = [v for v, path, st in asg if path is None and not isinstance(v, ast.AugAssign)]
        if len(asg) == 1 and len(plain) == 1:
            return resolve_value(fnode, plain[0], depth + 1)
    return e


def resolve_at(fnode, e, line=None, depth=0):
    """like resolve_value, but in program order: a name read at `line` has the value of its last plain function-level binding above
    that line (`init = tol; tol = tol * n + tol` -- `init` is the parameter, a later read of `tol` the product); a name with no binding
    above is returned as it is (a parameter, or a closure variable)"""
    if not isinstance(e, ast.Name) or depth > 6:
        return e
    line = getattr(e, "lineno", 0) if line is None else line
    best = None
    # blocks (statement lists) the read sits in: a binding in one of them, above the read, is on every path to it
    enclosing = []
    cur = e
    par = getattr(cur, "_parent", None)
    while par is not None and cur is not fnode:
        for fld in ("body", "orelse", "finalbody"):
            blk = getattr(par, fld, None)
            if isinstance(blk, list) and any(cur is x for x in blk):
                enclosing.append(blk)
        cur, par = par, getattr(par, "_parent", None)
    for v, path, st in assignments(fnode, into_nested=False).get(e.id, []):
        if path is not None or isinstance(v, ast.AugAssign):
            continue
        if getattr(st, "_parent", None) is not fnode and not any(any(st is x for x in blk) for blk in enclosing):
            continue
        if st.lineno < line and (best is None or st.lineno > best[1]):
            best = (v, st.lineno)
    if best is None:
        return e
    return resolve_at(fnode, best[0], best[1], depth + 1) if isinstance(best[0], ast.Name) else best[0]


def statements_before(node, fnode):
    """statements that are executed on every path from the entry of `fnode` to `node`: for every enclosing block, the statements
    that precede (in that block) the statement leading to `node` -- compound statements among them are returned as they are (the caller
    decides what a check nested in one of their branches is worth)"""
    out = []
    cur = node
    p = getattr(cur, "_parent", None)
    while p is not None:
        for field in ("body", "orelse", "finalbody"):
            block = getattr(p, field, None)
            if isinstance(block, list) and cur in block:
                out += block[:block.index(cur)]
        if p is fnode:
            break
        cur, p = p, getattr(p, "_parent", None)
    return out


def is_super_init(c):
    """`super().__init__(..)` / `super(C, self).__init__(..)`"""
    return isinstance(c, ast.Call) and isinstance(c.func, ast.Attribute) and c.func.attr == "__init__" and isinstance(c.func.value, ast.Call) \
        and isinstance(c.func.value.func, ast.Name) and c.func.value.func.id == "super"
