"""SCATTER -- what a product method of an index-selecting operator (`Sliced`) computes, as a small expression language, so that the
obligations are stated on the value that is returned and not on the names, temporaries, helper methods or statement order used to
build it.

  ('obj', path)                 a parameter / attribute chain (`self.A`, `X`)
  ('item', path, i)             element i of a tuple-valued object (`self.slices[0]`, `rows, cols = self.slices`)
  ('shapevec', path)            path.shape          ('dim', path, axis)   path.shape[axis]  (axis -1 / -2 normalised to 1 / 0)
  ('zeros', shape)              xnp.zeros(shape=...)
  ('scatter', buf, val, idx)    xnp.update_array(buf, val, *idx)
  ('matmul', l, r)              l @ r
  ('gather', v, idx)            v[idx]
  ('arange', N), ('indices', N, s) = arange(N)[s], ('lenof', v) = v.shape of such an index vector, ('cat', a, b) tuple concatenation
  ('ellipsis',), ('const', c), ('tuple', (...)), ('gen', body) a comprehension whose element '*' is substituted on indexing
"""
import ast

from sa.absint import AbsInt


def _axis(i):
    return {-1: 1, -2: 0}.get(i, i)


def _subst_star(v, i):
    if isinstance(v, tuple):
        if len(v) == 3 and v[0] == "item" and v[2] == "*":
            return ("item", v[1], i)
        return tuple(_subst_star(x, i) for x in v)
    if isinstance(v, frozenset):
        return frozenset(_subst_star(x, i) for x in v)
    return v


class Scatter(AbsInt):
    def __init__(self, idx, tuple_paths=()):
        super().__init__(idx)
        self.tuple_paths = set(tuple_paths)  # objects known to be tuples of index objects (`self.slices`, the `slices` parameter)

    def unknown(self, why=""):
        return ("opaque", why)

    def param(self, fi, name):
        return ("obj", name)

    def self_attr(self, fi, attr, node):
        return self.attribute(("obj", "self"), attr, node, None)

    def const(self, node):
        if node.value is Ellipsis:
            return ("ellipsis", )
        return ("const", node.value)

    def attribute(self, base, attr, node, ctx):
        if isinstance(base, tuple) and base:
            if base[0] == "obj":
                if attr == "shape":
                    return ("shapevec", base[1])
                return ("obj", f"{base[1]}.{attr}")
            if base[0] in ("indices", ) and attr == "shape":
                return ("lenof", base)
            if base[0] == "join":
                return self.join([self.attribute(b, attr, node, ctx) for b in base[1]])
        return self.unknown(f".{attr}")

    def _idx(self, s, ctx):
        if isinstance(s, ast.Tuple):
            return tuple(self._idx1(e, ctx) for e in s.elts)
        return (self._idx1(s, ctx), )

    def _idx1(self, e, ctx):
        if isinstance(e, ast.Slice):
            return ("pyslice", ast.unparse(e))
        return self.ev(e, ctx)

    def subscript(self, base, node, ctx):
        s = node.slice
        ci = None
        if isinstance(s, ast.Constant) and isinstance(s.value, int):
            ci = s.value
        elif isinstance(s, ast.UnaryOp) and isinstance(s.op, ast.USub) and isinstance(s.operand, ast.Constant) and isinstance(s.operand.value, int):
            ci = -s.operand.value
        if isinstance(base, tuple) and base:
            if base[0] == "join":
                return self.join([self.subscript(b, node, ctx) for b in base[1]])
            if base[0] == "shapevec":
                if ci is None:
                    return self.unknown("shape[?]")
                path, ax = base[1], _axis(ci)
                while path.endswith(".T") or path.endswith(".H"):  # the shape of a transpose is the shape swapped
                    path, ax = path[:-2], (1 - ax if ax in (0, 1) else ax)
                return ("dim", path, ax)
            if base[0] == "obj" and ci is not None and base[1] in self.tuple_paths:
                return ("item", base[1], ci)
            if base[0] == "arange":
                return ("indices", base[1], self._idx1(s, ctx))
            if base[0] in ("tuple", "gen") and ci is not None:
                return self.index(base, ci)
            if base[0] in ("matmul", "scatter", "zeros", "obj", "gather"):
                return ("gather", base, self._idx(s, ctx))
        return self.unknown("subscript")

    def element_of(self, v, i):
        if isinstance(v, tuple) and v:
            if v[0] == "obj":
                return ("item", v[1], i)
            if v[0] == "gen":
                return _subst_star(v[1], i)
        return self.unknown("element")

    def index(self, v, i):
        if isinstance(v, tuple) and v and v[0] == "gen":
            return _subst_star(v[1], i)
        return super().index(v, i)

    def binop(self, node, l, r, ctx):
        if isinstance(node.op, ast.MatMult):
            return ("matmul", l, r)
        if isinstance(node.op, ast.Add) and all(isinstance(x, tuple) and x and x[0] in ("lenof", "cat", "tuple") for x in (l, r)):
            return ("cat", l, r)
        return self.unknown("arithmetic")

    def unaryop(self, node, v, ctx):
        return self.unknown("unary")

    def call_xnp(self, name, node, args, kwargs, ctx):
        if name == "zeros":
            return ("zeros", kwargs.get("shape", args[0] if args else self.unknown("shape")))
        if name == "update_array" and len(args) >= 2:
            idx_ = []
            for a_node, a in zip(node.args[2:], args[2:]):
                if isinstance(a_node, ast.Starred) and isinstance(a, tuple) and a and a[0] == "tuple":
                    idx_ += list(a[1])  # update_array(buf, val, *index)
                else:
                    idx_.append(a)
            return ("scatter", args[0], args[1], tuple(idx_))
        if name == "arange" and args:
            return ("arange", args[0])
        if name in ("copy", "array", "cast") and args:
            return args[0]
        return ("other", f"xnp.{name}")

    def call_external(self, dotted, node, args, kwargs, ctx):
        if dotted.endswith(".arange") and args:
            return ("arange", args[0])
        return self.unknown(dotted)

    def call_method(self, recv, name, node, args, kwargs, ctx):
        if name in ("cpu", "numpy", "copy", "clone"):
            return recv
        if name == "_matmat" and args:
            return ("matmul", recv, args[0])
        if name == "_rmatmat" and args:
            return ("matmul", args[0], recv)
        return self.unknown(f".{name}()")

    def call_builtin(self, name, node, args, kwargs, ctx):
        if name in ("tuple", "list") and args:
            return args[0]
        return self.unknown(f"{name}()")

    def call_class(self, ci, node, args, kwargs, ctx):
        return self.unknown(ci.name)

    def call_dispatch(self, fname, node, args, kwargs, ctx):
        if fname == "dot" and len(args) == 2:
            return ("matmul", args[0], args[1])
        return self.unknown(fname)

    def call_unknown(self, node, ctx):
        return self.unknown("call")

    def follow_callee(self, callee):
        return callee.module.name.startswith("cola.ops")

    def other(self, node, ctx):
        if isinstance(node, (ast.ListComp, ast.GeneratorExp)) and len(node.generators) == 1 and isinstance(node.generators[0].target, ast.Name) and not node.generators[0].ifs:
            g = node.generators[0]
            it = self.ev(g.iter, ctx)
            env = dict(ctx.env)
            env[g.target.id] = self.element_of(it, "*")
            return ("gen", self.ev(node.elt, AbsInt.Ctx(ctx.fi, env, ctx.depth + 1)))
        if isinstance(node, ast.List):
            return ("tuple", tuple(self.ev(x, ctx) for x in node.elts))
        return self.unknown(type(node).__name__)


def show(v):
    if not isinstance(v, tuple) or not v:
        return str(v)
    k = v[0]
    if k == "obj":
        return v[1]
    if k == "item":
        return f"{v[1]}[{v[2]}]"
    if k == "dim":
        return f"{v[1]}.shape[{v[2]}]"
    if k == "shapevec":
        return f"{v[1]}.shape"
    if k == "zeros":
        return f"zeros({show(v[1])})"
    if k == "scatter":
        return f"scatter({show(v[1])}, {show(v[2])}, [{', '.join(show(x) for x in v[3])}])"
    if k == "matmul":
        return f"{show(v[1])} @ {show(v[2])}"
    if k == "gather":
        return f"({show(v[1])})[{', '.join(show(x) for x in v[2])}]"
    if k == "tuple":
        return "(" + ", ".join(show(x) for x in v[1]) + ")"
    if k == "indices":
        return f"arange({show(v[1])})[{show(v[2])}]"
    if k == "lenof":
        return f"{show(v[1])}.shape"
    if k == "cat":
        return f"{show(v[1])} + {show(v[2])}"
    if k == "ellipsis":
        return "..."
    if k == "const":
        return repr(v[1])
    if k == "join":
        return " | ".join(sorted(show(x) for x in v[1]))
    if k == "opaque":
        return f"?{v[1]}?"
    return str(v)
