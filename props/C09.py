"""C09 — matrix functions (DESIGN.md section 4, C09) with TERM.

dense paths V f(D) V^H (Eigh, V unitary) and V f(D) V^-1 (Eig, V general); structural rules;
sqrt/isqrt/exp/log as instances of pow/apply_unary; integer shortcuts of pow; Auto guard implication.
"""
import ast

from sa import dataflow as df
from sa.autorule import check_auto
from sa.resolver import Resolver
from sa.term import H, I, INV, MUL, SCAL, T, VAR, TermEval, alternatives, equal, expand, has_opaque, norm, opaque_text, show, sym
from sa.termutil import guard_hyps

KIND_DEF = {
    "Diagonal": lambda a: ("diag", sym(f"{a}.diag")),
    "BlockDiag": lambda a: ("fam", "bdiag", 1, VAR, f"{a}.Ms", f"{a}.multiplicities"),
    "Identity": lambda a: I,
    "ScalarMul": lambda a: SCAL(("ssym", f"{a}.c"), I),
    "Transpose": lambda a: T(sym(f"{a}.A")),
    "Adjoint": lambda a: H(sym(f"{a}.A")),
    "KronSum": lambda a: ("fam", "ksum", 1, VAR, f"{a}.Ms"),
    "Kronecker": lambda a: ("fam", "kron", 1, VAR, f"{a}.Ms"),
}
# the inverse algorithm that corresponds to each matrix-function algorithm (pow(A, -1, alg) -> inv(A, alg'))
ALG_MAP = {"Lanczos": "CG", "Arnoldi": "GMRES", "Eigh": "Cholesky", "Eig": "LU"}


def run(idx, rep, tier):
    core = frozenset(idx.core_modules())
    res = Resolver(idx, core)
    rules = res.rules_of("apply_unary")
    from sa.autorule import arity_obligations
    arity_obligations(idx, rep, list(rules) + [r_ for f_ in ("exp", "log", "sqrt", "isqrt", "pow") for r_ in res.rules_of(f_)])
    if not rules:
        rep.missing_anchor("dispatched function apply_unary")
    for rule in rules:
        fi = rule.func
        if len(rule.params) < 3:
            continue
        fp, a, algp = rule.params[0][0], rule.params[1][0], rule.params[2][0]
        kinds, algs = sorted(rule.types[1]), sorted(rule.types[2])
        construct = rule.role
        te = TermEval(idx)
        if algs == ["Auto"]:
            continue
        rets = [r for r in df.returns(fi.node) if r.value is not None]
        if algs and set(algs) <= {"Eigh", "Eig"}:
            # which dense decomposition does the body use?  (a rule typed Eig | Eigh that runs the general solver is an Eig path)
            uses_eigh = any(df.is_xnp_call(c) == "eigh" for c in df.calls(fi.node))
            dense_path(idx, rep, te, rule, rets, "Eigh" if uses_eigh else "Eig")
            continue
        if algs in (["Lanczos"], ["Arnoldi"]):
            krylov_ctor(idx, rep, rule, rets)
            continue
        defs = {}
        if len(kinds) == 1 and kinds[0] in KIND_DEF:
            defs[sym(a)] = KIND_DEF[kinds[0]](a)
        want = ("fn", fp, sym(a))
        for r in rets:
            t = te.eval_in(fi, r.value)
            hyp = guard_hyps(idx, fi, r)
            if len(kinds) > 1:
                # a rule typed by a union of kinds: the isinstance tests on the way to this exit say which member it serves
                here = set(kinds)
                for t_, pol in df.branch_conditions(r, fi.node):
                    if isinstance(t_, ast.Call) and isinstance(t_.func, ast.Name) and t_.func.id == "isinstance" and len(t_.args) == 2 and ast.unparse(t_.args[0]) == a:
                        cl = {ast.unparse(c).split(".")[-1] for c in (t_.args[1].elts if isinstance(t_.args[1], ast.Tuple) else [t_.args[1]])}
                        here = here & cl if pol else here - cl
                defs = {sym(a): KIND_DEF[next(iter(here))](a)} if len(here) == 1 and next(iter(here)) in KIND_DEF else {}
            ok = equal(t, want, hyp, defs)
            hy = (" under " + ", ".join(sorted(f"{h[0]}({show(h[1])})" for h in hyp))) if hyp else ""
            rep.decide(ok, "function-rule", construct, f"returns {show(norm(expand(t, defs), hyp))}; required {fp}({show(norm(expand(sym(a), defs), hyp))}) = {show(norm(expand(want, defs), hyp))}{hy}"
                       + (f" [outside the grammar: {opaque_text(norm(t))}]" if ok is None else ""), detail="" if ok else "meaning", locs=[idx.loc(fi.module, r)])
        rec = [c for c in df.calls(fi.node) if isinstance(c.func, ast.Name) and c.func.id == "apply_unary"]
        if rec:
            ok = all(len(c.args) >= 3 and ast.unparse(c.args[0]) == fp and ast.unparse(c.args[2]) == algp for c in rec)
            rep.decide(ok, "forwarded", construct, "recursive calls forward f and alg" if ok else "a recursive call drops or replaces f / alg", detail="" if ok else "dropped", locs=[rule.loc])
    check_auto(idx, res, rep, "apply_unary", 2)

    # ---- exp / log / sqrt / isqrt / pow wrappers and structural rules
    for fname, expect in (("exp", "exp"), ("log", "log")):
        for rule in res.rules_of(fname):
            fi = rule.func
            a = rule.params[0][0]
            kinds = sorted(rule.types[0])
            te = TermEval(idx)
            rets = [r for r in df.returns(fi.node) if r.value is not None]
            for r in rets:
                t = norm(te.eval_in(fi, r.value))
                if kinds == ["LinearOperator"]:
                    ok = t[0] == "fn" and t[1].endswith("." + expect) and t[2] == sym(a)
                    rep.decide(ok, "function-rule", rule.role, f"delegates to apply_unary with {t[1] if t[0] == 'fn' else show(t)}" + ("" if ok else f"; expected xnp.{expect} applied to {a}"),
                               detail="" if ok else "function", locs=[idx.loc(fi.module, r)])
                else:
                    defs = {sym(a): KIND_DEF[kinds[0]](a)} if len(kinds) == 1 and kinds[0] in KIND_DEF else {}
                    ok = equal(t, ("fn", fname, sym(a)), defs=defs)
                    rep.decide(ok, "function-rule", rule.role, f"returns {show(t)}; required {show(norm(expand(('fn', fname, sym(a)), defs)))}", detail="" if ok else "meaning",
                               locs=[idx.loc(fi.module, r)])
                    fwd_alg(rep, rule, fi, fname)
    for fname, expo in (("sqrt", 0.5), ("isqrt", -0.5)):
        for rule in res.rules_of(fname):
            if sorted(rule.types[0]) != ["LinearOperator"]:
                continue
            fi = rule.func
            a = rule.params[0][0]
            te = TermEval(idx)
            for r in [r for r in df.returns(fi.node) if r.value is not None]:
                t = norm(te.eval_in(fi, r.value))
                ok = t == ("fn", f"pow:{expo}", sym(a))
                if not ok:
                    # the same power written as a composition: inv(sqrt(A)), sqrt(inv(A)), pow(pow(A, p), q)
                    ce = composed_exponent(t, sym(a))
                    if ce is not None and abs(ce - expo) < 1e-12:
                        ok = True
                if not ok and t[0] == "fn" and not str(t[1]).startswith("pow:") and t[2] == sym(a) and isinstance(r.value, ast.Call) and r.value.args:
                    # the same function written as an element-wise map handed to apply_unary: x -> sqrt(x), x -> 1 / sqrt(x), x -> x ** e
                    e = scalar_exponent(r.value.args[0])
                    ok = None if e is None else abs(e - expo) < 1e-12
                rep.decide(ok, "function-rule", rule.role, f"returns {show(t)}; required pow({a}, {expo}) or the same element-wise map", detail="" if ok else "exponent", locs=[idx.loc(fi.module, r)])
                fwd_alg(rep, rule, fi, "pow")
    for rule in res.rules_of("pow"):
        fi = rule.func
        a, al = rule.params[0][0], rule.params[1][0]
        kinds = sorted(rule.types[0])
        te = TermEval(idx)
        if kinds != ["LinearOperator"]:
            defs = {sym(a): KIND_DEF[kinds[0]](a)} if len(kinds) == 1 and kinds[0] in KIND_DEF else {}
            for r in [r for r in df.returns(fi.node) if r.value is not None]:
                t = te.eval_in(fi, r.value)
                want = ("fn", f"pow:{al}", sym(a))
                ok = equal(t, want, defs=defs)
                rep.decide(ok, "function-rule", rule.role, f"returns {show(norm(t))}; required {show(norm(expand(want, defs)))}", detail="" if ok else "meaning", locs=[idx.loc(fi.module, r)])
            fwd_alg(rep, rule, fi, "pow")
            branch_safety(idx, rep, rule)
            continue
        generic_pow(idx, rep, rule, te)
    rep.floor("function-rule", 14)
    rep.floor("dense-path", 2)
    rep.floor("auto-rule", 2)
    rep.floor("pow-shortcut", 4)
    rep.explanation = ("TERM: apply_unary / exp / log / pow / sqrt / isqrt rules are evaluated to terms; f(A) is normalised with f(diag d)=diag f(d), f(cI)=f(c)I, block-wise action, "
                       "f(A^T)=f(A)^T, exp(A (+) B)=exp A (x) exp B, (A (x) B)^a = A^a (x) B^a; the dense paths must be V f(D) V^-1 with V^-1 = V^H only for the unitary "
                       "eigenvectors of eigh.")
    rep.assumptions += ["Krylov paths (LanczosUnary, ArnoldiUnary), branch choice and accuracy are not decided", "f(conj A) = conj f(A) is assumed for the functions used (real power series)"]


def fwd_alg(rep, rule, fi, callee):
    algp = rule.params[-1][0]
    rec = [c for c in df.calls(fi.node) if isinstance(c.func, ast.Name) and c.func.id in (callee, "apply_unary", rule.fname)]
    if rec:
        ok = all(ast.unparse(c.args[-1]) == algp or any(ast.unparse(k.value) == algp for k in c.keywords) for c in rec)
        rep.decide(ok, "forwarded", rule.role, "the algorithm argument is passed on" if ok else "the algorithm argument is dropped", detail="" if ok else "dropped", locs=[rule.loc])


def dense_path(idx, rep, te, rule, rets, alg):
    fi = rule.func
    fp, a = rule.params[0][0], rule.params[1][0]
    backend = "eigh" if alg == "Eigh" else "eig"
    w, V = ("eigvals", backend, sym(a)), ("eigvecs", backend, sym(a))
    hyp = set()
    if alg == "Eigh":
        hyp.add(("unitary", V))  # eigh returns a square unitary eigenvector matrix
    want = MUL(V, ("diag", ("fapply", fp, w)), INV(V))
    for r in rets:
        hyp2 = frozenset(hyp | set(guard_hyps(idx, fi, r)))
        t = te.eval_in(fi, r.value)
        ok = equal(t, want, hyp2)
        note = ""
        nt = norm(t, hyp2)
        if any(x[0] in ("eigvals", "eigvecs") and x[1] != backend for x in walk(nt)):
            ok, note = False, f" (the decomposition used is not xnp.{backend})"
        rep.decide(ok, "dense-path", rule.role, f"returns {show(norm(t))}; required V·{fp}(D)·inv(V)" + (" with inv(V) = H(V) for the unitary V of eigh" if alg == "Eigh" else " (V of eig is not unitary)") + note
                   + (f" [outside the grammar: {opaque_text(nt)}]" if ok is None else ""), detail="" if ok else "meaning", locs=[idx.loc(fi.module, r)])


def walk(t):
    if isinstance(t, tuple):
        yield t
        for x in t[1:]:
            if isinstance(x, (tuple, frozenset)):
                for y in (x if isinstance(x, frozenset) else [x]):
                    yield from walk(y)
                if isinstance(x, tuple):
                    for y in x:
                        if isinstance(y, tuple):
                            yield from walk(y)


def krylov_ctor(idx, rep, rule, rets):
    fi = rule.func
    fp, a = rule.params[0][0], rule.params[1][0]
    for r in rets:
        c = r.value
        ok = isinstance(c, ast.Call) and len(c.args) >= 2 and ast.unparse(c.args[0]) == a and ast.unparse(c.args[1]) == fp
        rep.decide(ok, "function-rule", rule.role, f"constructs {ast.unparse(c)[:60]}" + ("" if ok else f"; expected ({a}, {fp}, ...)"), detail="" if ok else "args", locs=[idx.loc(fi.module, r)])


def nospace(n):
    return ast.unparse(n).replace(" ", "")


def branch_safety(idx, rep, rule):
    """a non-integer power does not distribute over a MULTIPLICATIVE decomposition on the principal branch: (X Y)^a = X^a Y^a needs
    arg(eig X) + arg(eig Y) to stay inside (-pi, pi].  Rules for Kronecker products and (scalar x operator) products that raise the
    parts separately therefore need a guard (positive definite parts, or an integer exponent); block-wise, element-wise and
    transposition rules are exact and need none."""
    fi = rule.func
    kinds = sorted(rule.types[0])
    if not (set(kinds) & {"Kronecker", "Product"}):
        return
    a, al = rule.params[0][0], rule.params[1][0]
    distributes = [c for c in df.calls(fi.node) if isinstance(c.func, ast.Name) and c.func.id in ("pow", "sqrt", "isqrt") and c.args and nospace(c.args[0]) != a]
    scalar_pows = [n for n in df.body_nodes(fi.node) if isinstance(n, ast.BinOp) and isinstance(n.op, ast.Pow) and al in df.names_in(n.right)]
    if not distributes and not scalar_pows:
        return
    guards = []
    if isinstance(rule.cond, ast.Lambda):
        guards.append(nospace(rule.cond.body))
    guards += [nospace(st.test) for st in fi.node.body if isinstance(st, ast.Assert)]
    guards += [nospace(t) for r in df.returns(fi.node) for t, pol in df.branch_conditions(r, fi.node) if pol]
    safe = any(("PSD" in g and "isa" in g) or ("round(" in g and al in g) or ("is_integer" in g) for g in guards)
    what = ", ".join(sorted({nospace(c)[:40] for c in distributes} | {nospace(n)[:30] for n in scalar_pows}))
    rep.decide(True if safe else False, "branch-safety", rule.role, f"raises the parts separately ({what})" + (" under a guard that keeps the arguments from wrapping" if safe else
               ": no guard restricts the parts to positive definite ones (or the exponent to integers); for parts whose spectra lie on the negative axis the product of the principal "
               "powers is not the principal power of the product (sqrt of (-A) (x) (-B) comes out as minus the principal root)"), detail="" if safe else "unguarded", locs=[rule.loc])


def composed_exponent(t, leaf):
    """e such that the term is leaf ** e through inv / sqrt / isqrt / pow:c only (principal powers of one operator compose
    multiplicatively on the positive axis, which is where sqrt / isqrt are specified); None otherwise"""
    if t == leaf:
        return 1.0
    if isinstance(t, tuple) and len(t) == 2 and t[0] == "inv":
        e = composed_exponent(t[1], leaf)
        return None if e is None else -e
    if isinstance(t, tuple) and len(t) == 3 and t[0] == "fn":
        name = str(t[1])
        c = {"sqrt": 0.5, "isqrt": -0.5}.get(name)
        if c is None and name.startswith("pow:"):
            try:
                c = float(name[4:])
            except ValueError:
                return None
        if c is None:
            return None
        e = composed_exponent(t[2], leaf)
        return None if e is None else c * e
    return None


def scalar_exponent(fn, var=None):
    """exponent e such that the element-wise map is x -> x ** e, or None: xnp.sqrt, lambda x: x ** c, 1 / g(x), sqrt(g(x)), g(x) ** c"""
    if isinstance(fn, (ast.Attribute, ast.Name)) and var is None:
        name = fn.attr if isinstance(fn, ast.Attribute) else fn.id
        return {"sqrt": 0.5}.get(name)
    if isinstance(fn, ast.Lambda) and var is None and len(fn.args.args) == 1:
        return scalar_exponent(fn.body, fn.args.args[0].arg)
    if var is None:
        return None
    if isinstance(fn, ast.Name) and fn.id == var:
        return 1.0
    if isinstance(fn, ast.BinOp) and isinstance(fn.op, ast.Pow):
        c = fn.right
        neg = isinstance(c, ast.UnaryOp) and isinstance(c.op, ast.USub)
        c = c.operand if neg else c
        b = scalar_exponent(fn.left, var)
        if b is not None and isinstance(c, ast.Constant) and isinstance(c.value, (int, float)):
            return b * (-c.value if neg else c.value)
        return None
    if isinstance(fn, ast.BinOp) and isinstance(fn.op, ast.Div) and isinstance(fn.left, ast.Constant) and fn.left.value in (1, 1.0):
        b = scalar_exponent(fn.right, var)
        return None if b is None else -b
    if isinstance(fn, ast.Call) and len(fn.args) == 1 and ((isinstance(fn.func, ast.Attribute) and fn.func.attr == "sqrt") or (isinstance(fn.func, ast.Name) and fn.func.id == "sqrt")):
        b = scalar_exponent(fn.args[0], var)
        return None if b is None else b / 2
    return None


def int_test(test, k):
    """the test on the integer exponent, with the local's name normalised to `k`"""
    t = ast.parse(ast.unparse(test), mode="eval").body
    for n in ast.walk(t):
        if isinstance(n, ast.Name) and n.id == k:
            n.id = "k"
        elif isinstance(n, ast.Name) and n.id == "k":
            n.id = "_other_k"
    return ast.unparse(t).replace(" ", "")


def generic_pow(idx, rep, rule, te):
    """the base rule of pow, judged exit by exit: every return is classified by the value it returns (identity / k-fold product / inverse
    / the general matrix function) and the conditions under which it is reached (if / elif / early returns / match cases, any layout)
    must entail what the shortcut needs: alpha is close to the integer k, and k == 0, k >= 1 or k == -1 respectively"""
    fi = rule.func
    a, al, algp = rule.params[0][0], rule.params[1][0], rule.params[2][0]
    src = fi.node
    loc = rule.loc
    asg = df.assignments(src)

    def is_kdef(v):
        # int(round(alpha)) in any spelling: int(...) of an expression that reads alpha
        return isinstance(v, ast.Call) and isinstance(v.func, ast.Name) and v.func.id == "int" and al in df.names_in(v)

    knames = set()
    for n in df.body_nodes(src):
        tgt = val = None
        if isinstance(n, ast.NamedExpr):
            tgt, val = n.target, n.value
        elif isinstance(n, ast.Assign) and len(n.targets) == 1:
            tgt, val = n.targets[0], n.value
        if isinstance(tgt, ast.Name) and is_kdef(val):
            knames.add(tgt.id)

    def is_k(e):
        if isinstance(e, ast.NamedExpr):
            return is_kdef(e.value) or is_k(e.value)
        return (isinstance(e, ast.Name) and e.id in knames) or is_kdef(e)

    def is_close_test(t):
        return isinstance(t, ast.Call) and ast.unparse(t.func).endswith("isclose") and len(t.args) >= 2 and \
            ((al in df.names_in(t.args[0]) and is_k(t.args[1])) or (al in df.names_in(t.args[1]) and is_k(t.args[0])))

    # a name that holds the rounded exponent when alpha is close to it and None otherwise (`k = nearest if isclose(alpha, nearest) else None`,
    # also as the result of a helper): `k is not None` then IS the closeness test
    guarded = set()
    for name_, vals in asg.items():
        vals = [(v, st) for v, p_, st in vals if p_ is None and not isinstance(v, ast.AugAssign)]
        if len(vals) != 2:
            continue
        kv = [(v, st) for v, st in vals if is_k(v)]
        nv = [(v, st) for v, st in vals if isinstance(v, ast.Constant) and v.value is None]
        if len(kv) == 1 and len(nv) == 1:
            cs = [(df.normalise_test(df.resolve_value(src, t) if isinstance(t, ast.Name) else t, pol)) for t, pol in df.branch_conditions(kv[0][1], src)]
            cn = [(df.normalise_test(df.resolve_value(src, t) if isinstance(t, ast.Name) else t, pol)) for t, pol in df.branch_conditions(nv[0][1], src)]
            if any(pol and is_close_test(t) for t, pol in cs) and any((not pol) and is_close_test(t) for t, pol in cn):
                guarded.add(name_)
    knames |= guarded

    def is_not_none_test(t, pol):
        if isinstance(t, ast.Compare) and len(t.ops) == 1 and isinstance(t.left, ast.Name) and t.left.id in guarded \
                and isinstance(t.comparators[0], ast.Constant) and t.comparators[0].value is None:
            return (isinstance(t.ops[0], ast.IsNot) and pol) or (isinstance(t.ops[0], ast.Is) and not pol)
        return False

    def k_values(conds):
        """the integers in a window that satisfy every comparison of k with constants among the conditions"""
        allowed = set(range(-40, 41))
        for t, pol in conds:
            t = df.resolve_value(src, t) if isinstance(t, ast.Name) else t
            if not isinstance(t, ast.Compare):
                continue
            operands = [t.left] + list(t.comparators)
            if not any(is_k(o) for o in operands) or not all(is_k(o) or (isinstance(o, ast.Constant) and isinstance(o.value, int)) or
                                                               (isinstance(o, ast.UnaryOp) and isinstance(o.op, ast.USub) and isinstance(o.operand, ast.Constant)) for o in operands):
                continue
            code = compile(ast.Expression(body=ast.fix_missing_locations(ast.parse(ast.unparse(ast.Compare(
                left=ast.Name(id="k", ctx=ast.Load()) if is_k(t.left) else t.left, ops=t.ops,
                comparators=[ast.Name(id="k", ctx=ast.Load()) if is_k(c) else c for c in t.comparators])), mode="eval").body)), "<k>", "eval")
            allowed = {k for k in allowed if bool(eval(code, {"__builtins__": {}}, {"k": k})) == pol}
        return allowed

    seen = {"general": 0, "identity": 0, "product": 0, "inverse": 0}
    for r in [r for r in df.returns(src) if r.value is not None]:
        rv = r.value
        rloc = [idx.loc(fi.module, r)]
        conds = []
        work = list(df.branch_conditions(r, src))
        while work:
            t, pol = work.pop()
            t2 = df.resolve_value(src, t) if isinstance(t, ast.Name) else t
            t2, pol = df.normalise_test(t2, pol)
            while isinstance(t2, ast.Call) and isinstance(t2.func, ast.Name) and t2.func.id == "bool" and len(t2.args) == 1:
                t2, pol = df.normalise_test(t2.args[0], pol)
            if isinstance(t2, ast.BoolOp) and ((isinstance(t2.op, ast.And) and pol) or (isinstance(t2.op, ast.Or) and not pol)):
                work += [(v, pol) for v in t2.values]  # a true conjunction / a false disjunction: every part holds with that polarity
                continue
            conds.append((t2, pol))
        close = any(pol and is_close_test(t) for t, pol in conds) or any(is_not_none_test(t, pol) for t, pol in conds)
        ks = k_values(conds)
        # ---- classify the exit by the value it returns
        if isinstance(rv, ast.Call) and ast.unparse(rv.func) == "apply_unary":
            seen["general"] += 1
            lam = rv.args[0] if rv.args else None
            ok = isinstance(lam, ast.Lambda) and isinstance(lam.body, ast.BinOp) and isinstance(lam.body.op, ast.Pow) and al in df.names_in(lam.body.right) and \
                [x.arg for x in lam.args.args] == [n for n in df.names_in(lam.body.left)]
            rep.decide(ok, "pow-shortcut", "pow:general", f"general case applies x -> x ** {al}" if ok else "general case does not raise to the given exponent", detail="" if ok else "exponent", locs=rloc)
            continue
        t = norm(te.eval_in(fi, rv))
        helper = idx.resolve_expr(fi.module, rv.func, fi) if isinstance(rv, ast.Call) else None
        is_product = isinstance(rv, ast.Call) and len(rv.args) == 1 and isinstance(rv.args[0], ast.BinOp) and isinstance(rv.args[0].op, ast.Mult) and \
            any(isinstance(x, ast.List) and len(x.elts) == 1 and ast.unparse(x.elts[0]) == a for x in (rv.args[0].left, rv.args[0].right))
        # an exit reached exactly for one integer exponent is that exponent's shortcut whatever it returns
        if close and ks == {0} and t != I:
            seen["identity"] += 1
            rep.refuted("pow-shortcut", "pow:k=0", f"A^0 returns {show(t)}", detail="identity", locs=rloc)
            continue
        if close and ks == {-1} and t != INV(sym(a)):
            seen["inverse"] += 1
            rep.refuted("pow-shortcut", "pow:k=-1", f"A^-1 returns {show(t)}", detail="inverse", locs=rloc)
            continue
        if close and ks and min(ks) >= 1 and len(ks) < 41 and not is_product and t != I and t != INV(sym(a)):
            seen["product"] += 1
            rep.refuted("pow-shortcut", "pow:small-integer", f"integer shortcut returns `{ast.unparse(rv)[:50]}`; required the k-fold product of {a}", detail="product", locs=rloc)
            continue
        if t == I:
            kind_, need, label = "identity", {0}, "pow:k=0"
        elif is_product:
            kind_, need, label = "product", None, "pow:small-integer"
        elif t == INV(sym(a)):
            kind_, need, label = "inverse", {-1}, "pow:k=-1"
        else:
            rep.undecided("pow-shortcut", f"pow:exit@{ast.unparse(rv)[:30]}", f"returns {show(t)}: not one of the tabulated exits", locs=rloc)
            continue
        seen[kind_] += 1
        if not close:
            rep.refuted("pow-shortcut", label, f"`return {ast.unparse(rv)[:50]}` is reached without the test that {al} is close to the integer it was rounded to: "
                        f"a non-integer exponent (2.5, 0.75) takes the integer shortcut", detail="not-integer", locs=rloc)
            continue
        if kind_ == "product":
            count = rv.args[0].right if isinstance(rv.args[0].left, ast.List) else rv.args[0].left
            count = df.resolve_value(src, count)
            ok = is_k(count) and bool(ks) and min(ks) >= 1
            fold_txt = ""
            if ok and helper is not None and helper.kind == "funcs":
                # what the folding helper computes, read off by running it on [X1, X2, X3]: the left-to-right matrix product
                from sa.minieval import Mini, Undecided, flatten_mm
                hf = helper.val[-1]
                def resolve_call(c_, hf=hf):
                    r_ = idx.resolve_expr(hf.module, c_.func, hf)
                    return r_.val[-1].node if r_ is not None and r_.kind == "funcs" and getattr(r_.val[-1], "rule", None) is None else None
                try:
                    got = Mini(resolve_call).run(hf.node, [["X1", "X2", "X3"]])
                    ok = flatten_mm(got) == ["X1", "X2", "X3"]
                    if not ok:
                        fold_txt = f"; the helper `{hf.short}` maps [X1, X2, X3] to {' @ '.join(map(str, flatten_mm(got)))}"
                except Undecided as ex:
                    ok, fold_txt = None, f"; the helper `{hf.short}` is outside the executed fragment ({ex})"
            rep.decide(ok, "pow-shortcut", label, f"A^k for k in [{min(ks) if ks else '?'}, {max(ks) if ks else '?'}] is the k-fold product of A" if ok else
                       f"integer shortcut returns `{ast.unparse(rv)[:50]}` for k in {sorted(ks)[:4]}..." + fold_txt, detail="" if ok else "product", locs=rloc)
        elif kind_ == "identity":
            ok = ks == need
            rep.decide(ok, "pow-shortcut", label, "A^0 returns I" if ok else f"the identity is returned for k in {sorted(ks)[:6]}", detail="" if ok else "identity", locs=rloc)
        else:
            ok = ks == need
            rep.decide(ok, "pow-shortcut", label, "A^-1 returns inv(A)" if ok else f"the inverse is returned for k in {sorted(ks)[:6]}", detail="" if ok else "inverse", locs=rloc)
    for kind_, label in (("identity", "pow:k=0"), ("product", "pow:small-integer"), ("inverse", "pow:k=-1"), ("general", "pow:general")):
        if not seen[kind_] and kind_ == "general":
            rep.refuted("pow-shortcut", label, "no exit applies the general matrix function x -> x ** alpha", detail="exponent", locs=[loc])
    # ---- the algorithm handed to inv on the k = -1 exit: matrix-function algorithms map to the matching linear solvers (the match may
    # live in the rule or in a helper it calls)
    holders = [fi] + [r_.val[-1] for c in df.calls(src) for r_ in [idx.resolve_expr(fi.module, c.func, fi)] if r_ is not None and r_.kind == "funcs" and getattr(r_.val[-1], "rule", None) is None
                      and r_.val[-1].module is fi.module]
    mapping = {}
    for h in holders:
        for m in [x for x in ast.walk(h.node) if isinstance(x, ast.Match)]:
            for case in m.cases:
                if isinstance(case.pattern, ast.MatchClass):
                    made = [ast.unparse(c.func) for st in case.body for c in ast.walk(st) if isinstance(c, ast.Call)]
                    if made:
                        mapping[ast.unparse(case.pattern.cls)] = made[0]
    if seen["inverse"]:
        bad = {k: v for k, v in mapping.items() if ALG_MAP.get(k) != v}
        okm = not bad and set(mapping) == set(ALG_MAP)
        rep.decide(okm if mapping else None, "pow-shortcut", "pow:k=-1:algorithm-map", f"matrix-function algorithms map to inverse algorithms as {mapping}" + ("" if okm else f"; expected {ALG_MAP}"),
                   detail="" if okm else "map", locs=[loc])
