"""C03 — operator algebra (DESIGN.md section 4, C03).

1. overload table: every dunder of LinearOperator evaluates (TERM) to the matrix expression it stands for;
2. rewrite rules of dot / add / mul / kron / kronsum preserve meaning (order for the non-commutative
   constructors, multiset for sums, payload arithmetic for scalars, the diagonal-kron fusion);
3. shape validation exists in Product / Sum constructors and in __matmul__ / __rmatmul__;
4. dtype metadata of *Ms composites depends on the whole collection.
"""
import ast

from sa import dataflow as df
from sa.termutil import kind_def
from sa.term import ADD, H, I, INV, MUL, SCAL, T, VAR, TermEval, alternatives, equal, expand, has_opaque, norm, opaque_text, show, sym



def nospace(n):
    return ast.unparse(n).replace(" ", "")


def ssym(n):
    return ("ssym", n)


def run(idx, rep, tier):
    base = idx.cls("LinearOperator")
    # ------------------------------------------------------------ 1. overload table
    S = sym("self")

    def want_for(name, p):
        x = sym(p) if p else None
        return {
            "__add__": lambda: ADD(S, x),
            "__radd__": lambda: ADD(S, x),
            "__sub__": lambda: ADD(S, SCAL(("num", -1), x)),
            "__neg__": lambda: SCAL(("num", -1), S),
            "__mul__": lambda: SCAL(ssym(p), S),
            "__rmul__": lambda: SCAL(ssym(p), S),
            "__truediv__": lambda: SCAL(("sinv", ssym(p)), S),
            "__rtruediv__": lambda: SCAL(ssym(p), INV(S)),
            "__matmul__": lambda: MUL(S, x),
            "__rmatmul__": lambda: MUL(x, S),
        }[name]()

    scalar_dunders = {"__mul__", "__rmul__", "__truediv__", "__rtruediv__"}
    for name in ("__add__", "__radd__", "__sub__", "__neg__", "__mul__", "__rmul__", "__truediv__", "__rtruediv__", "__matmul__", "__rmatmul__"):
        m = base.methods.get(name)
        if m is None:
            rep.missing_anchor(f"LinearOperator.{name}")
            continue
        p = m.params[1] if len(m.params) > 1 else None
        te = TermEval(idx)
        te.scalars = frozenset({p}) if name in scalar_dunders and p else frozenset()
        want = want_for(name, p)
        construct = f"LinearOperator.{name}"
        loc = idx.loc(m.module, m.node)
        rets = [r for r in df.returns(m.node) if r.value is not None]
        if name in ("__matmul__", "__rmatmul__"):
            rets = [r for r in rets if in_positive_branch(r, m.node, lambda t: "isinstance" in t and "LinearOperator" in t)]
            if not rets:
                rep.undecided("overload", construct, "no return guarded by isinstance(X, LinearOperator)", locs=[loc])
                continue
        verdicts = []
        for r in rets:
            t = te.eval_in(m, r.value)
            for a in alternatives(norm(t)):
                if a == S and name in ("__add__", "__radd__", "__sub__"):
                    # the `A + 0 -> A` shortcut must sit behind a test for zero
                    z = zero_guarded(idx, base, m, r)
                    verdicts.append((True if z else False, f"returns self {'only for a zero operand' if z else 'without testing the operand for zero'}"))
                    continue
                ok = equal(a, want)
                verdicts.append((ok, f"evaluates to {show(a)}; required {show(norm(want))}" + (f" [outside the grammar: {opaque_text(a)}]" if ok is None else "")))
        if any(v[0] is False for v in verdicts):
            bad = next(v for v in verdicts if v[0] is False)
            rep.refuted("overload", construct, bad[1], detail="meaning", locs=[loc])
        elif any(v[0] is None for v in verdicts) or not verdicts:
            rep.undecided("overload", construct, next((v[1] for v in verdicts if v[0] is None), "no return"), locs=[loc])
        else:
            rep.proved("overload", construct, "; ".join(v[1] for v in verdicts), locs=[loc])

    # ------------------------------------------------------------ 2. rewrite rules
    meaning = {"dot": lambda a, b: MUL(a, b), "add": lambda a, b: ADD(a, b), "kron": lambda a, b: ("kron", (a, b)), "kronsum": lambda a, b: ("ksum", (a, b))}
    for fname in ("dot", "add", "kron", "kronsum", "mul"):
        rules = [r for r in idx.rules.get(fname, []) if r.kind == "rule"]
        if not rules:
            rep.missing_anchor(f"dispatched function {fname}")
            continue
        for rule in rules:
            fi = rule.func
            if len(rule.params) != 2:
                continue
            pa, pb = rule.params[0][0], rule.params[1][0]
            ka, kb = sorted(rule.types[0]), sorted(rule.types[1])
            te = TermEval(idx)
            defs = {}
            unreadable = []  # operands of a concrete kind whose represented matrix could not be read off its _matmat
            for pn, ks in ((pa, ka), (pb, kb)):
                kd = kind_def(idx, ks[0], pn) if len(ks) == 1 else None
                if kd is not None:
                    defs[sym(pn)] = kd
                elif len(ks) == 1 and ks[0] not in ("LinearOperator", "Any") and idx.has_cls(ks[0]):
                    unreadable.append(pn)
            if fname == "mul":
                # which side is the scalar?
                a_scalar = "Any" in ka and "Any" not in kb
                sc_names = {pa} if a_scalar else ({pb} if "Any" in kb else set())
                te.scalars = frozenset(sc_names)
                if a_scalar:
                    want = SCAL(ssym(pa), sym(pb))
                elif "Any" in kb:
                    want = SCAL(ssym(pb), sym(pa))
                else:
                    want = MUL(sym(pa), sym(pb))
            else:
                want = meaning[fname](sym(pa), sym(pb))
            rets = [r for r in df.returns(fi.node) if r.value is not None]
            for r in rets:
                t = te.eval_in(fi, r.value)
                ok = equal(t, want, defs=defs)
                if ok is False and any(f"'{pn}." in repr(norm(t)) for pn in unreadable):
                    ok = None  # built from payload attributes of a kind whose definition is outside the term grammar
                rep.decide(ok, "rewrite-rule", rule.role, f"returns {show(norm(expand(t, defs)))}; required {show(norm(expand(want, defs)))}"
                           + (f" [outside the grammar: {opaque_text(norm(t))}]" if ok is None else ""), detail="" if ok else "meaning", locs=[idx.loc(fi.module, r)])
            if fname == "mul" and "Any" in kb and "LinearOperator" in ka:
                scalar_shape(idx, rep, rule)
            if fname == "mul" and sc_names:
                scalar_dtype(idx, rep, rule, next(iter(sc_names)), pb if a_scalar else pa)

    # ------------------------------------------------------------ 2b. block_diag assembly
    bd = [f for f in idx.funcs.values() if f.short == "block_diag" and f.module.name in ("cola.fns", ) and f.parent is None]
    if not bd:
        rep.missing_anchor("cola.fns.block_diag")
    else:
        block_diag_assembly(idx, rep, bd[-1])
    # ------------------------------------------------------------ 3. shape validation
    shape_validation(idx, rep)
    # ------------------------------------------------------------ 4. dtype metadata of *Ms composites
    for ci in idx.operator_classes():
        init = ci.methods.get("__init__")
        if init is None or init.node.args.vararg is None:
            continue
        va = init.node.args.vararg.arg
        sup = [c for c in df.calls(init.node) if df.is_super_init(c)]
        if not sup:
            continue
        b = df.bind_call(sup[0], ["dtype", "shape", "matmat", "annotations"])
        d = b.get("dtype")
        if d is None:
            continue
        asg = df.assignments(init.node)
        expr = d
        if isinstance(d, ast.Name) and len(asg.get(d.id, [])) == 1:
            expr = asg[d.id][0][0]
        whole = whole_through_helpers(idx, init, expr, va, asg)
        construct = f"{ci.name}.__init__:dtype"
        txt = ast.unparse(expr)[:70]
        rep.decide(True if whole else False, "composite-metadata", construct,
                   f"dtype handed to the base constructor is `{txt}`: " + ("a reduction over all parts" if whole else f"taken from a single part of *{va} (a real first part hides a complex later one)"),
                   detail="" if whole else "single-part", locs=[idx.loc(init.module, sup[0])])
    rep.floor("overload", 9)
    rep.floor("rewrite-rule", 18)
    rep.floor("shape-validation", 6)
    rep.floor("composite-metadata", 5)
    rep.explanation = ("TERM evaluation of every Python operator overload of LinearOperator and every dot/add/mul/kron/kronsum rule against the matrix expression it stands "
                       "for (factor order kept for products/Kronecker, multiset for sums, scalar payload arithmetic, diagonal-kron fusion in row-major order); structural "
                       "checks that the constructors validate the contracted dimensions and that composite dtype metadata is a reduction over all parts.")
    rep.assumptions += ["the value of the represented matrix and error messages are not decided", "totality/unambiguity of the combinators is C04"]


def parents(node, stop):
    p = getattr(node, "_parent", None)
    while p is not None and p is not stop:
        yield p
        p = getattr(p, "_parent", None)


def in_positive_branch(node, stop, pred):
    """some enclosing condition that HOLDS at node (either branch polarity, `not` / `!=` normalised) satisfies pred(text)"""
    return any(pol and pred(ast.unparse(t)) for t, pol in df.branch_conditions(node, stop))


def zero_guarded(idx, base, m, ret):
    """is this `return self` (possibly inside a delegated dunder) behind a test `== 0`?"""
    if in_positive_branch(ret, m.node, lambda t: "== 0" in t):
        return True
    # delegation: return self.__add__(...) -> look inside the callee
    if isinstance(ret.value, ast.Call) and isinstance(ret.value.func, ast.Attribute) and ast.unparse(ret.value.func.value) == "self":
        callee = base.methods.get(ret.value.func.attr)
        if callee is not None:
            for r in df.returns(callee.node):
                if isinstance(r.value, ast.Name) and r.value.id == "self":
                    return zero_guarded(idx, base, callee, r)
    return False


def scalar_shape(idx, rep, rule):
    """mul(A, c) places the scalar operator on the left of A: its shape must be (R, R)"""
    fi = rule.func
    a = rule.params[0][0]
    for c in df.calls(fi.node):
        r = idx.resolve_expr(fi.module, c.func, fi)
        if r is not None and r.kind == "class" and r.val.name == "ScalarMul":
            b = df.bind_call(c, ["c", "shape", "dtype", "device"])
            sh = ast.unparse(b["shape"]).replace(" ", "") if "shape" in b else ""
            # where is it placed?
            prod = [p for p in df.calls(fi.node) if (idx.resolve_expr(fi.module, p.func, fi) or None) is not None and getattr(idx.resolve_expr(fi.module, p.func, fi).val, "name", "") == "Product"]
            side = None
            asg = df.assignments(fi.node)
            sname = next((n for n, vs in asg.items() if any(v is c for v, pth, st in vs)), None)
            for p in prod:
                # the factors of the product in order (Product(S, A), Product(*[S, A]), Product(*(S, A)))
                elts = []
                for x in p.args:
                    if isinstance(x, ast.Starred) and isinstance(x.value, (ast.List, ast.Tuple)):
                        elts += list(x.value.elts)
                    else:
                        elts.append(x)
                pos_s = next((i for i, x in enumerate(elts) if x is c or (sname is not None and isinstance(x, ast.Name) and x.id == sname)), None)
                pos_a = next((i for i, x in enumerate(elts) if isinstance(x, ast.Name) and x.id == a), None)
                if pos_s is not None and pos_a is not None:
                    side = "left" if pos_s < pos_a else "right"
            rows = {f"({a}.shape[-2],{a}.shape[-2])", f"({a}.shape[0],{a}.shape[0])"}
            cols = {f"({a}.shape[-1],{a}.shape[-1])", f"({a}.shape[1],{a}.shape[1])"}
            ok = None
            if side == "left":
                ok = sh in rows if (sh in rows or sh in cols) else None
            elif side == "right":
                ok = sh in cols if (sh in rows or sh in cols) else None
            rep.decide(ok, "rewrite-rule", rule.role + ":scalar-shape", f"scalar operator of shape {sh} is placed on the {side} of {a}" +
                       ("" if ok is not False else ": wrong square size for non-square operators"), detail="" if ok else "side", locs=[idx.loc(fi.module, c)])


def scalar_dtype(idx, rep, rule, c, a):
    """DTYPE: the scalar operator that represents c in c*A must be typed by something the scalar influences (the promoted dtype of
    c and A).  Typed by the operator alone, 0.5 * (integer operator) is the zero operator and a complex scalar on a real operator
    loses its imaginary part (or raises).  Forwarding the scalar to mul(<one part of A>, c) types it by that part alone, which is
    narrower still than the composite's dtype."""
    from sa.dtype import DType
    fi = rule.func
    dt = DType(idx, c)
    for call in df.calls(fi.node):
        r = idx.resolve_expr(fi.module, call.func, fi)
        loc = [idx.loc(fi.module, call)]
        if r is not None and r.kind == "class" and r.val.name == "ScalarMul" and call.args and c in df.names_in(call.args[0]):
            b = df.bind_call(call, ["c", "shape", "dtype", "device"])
            d = b.get("dtype")
            src = dt.flat(dt.eval_in(fi, d)) if d is not None else frozenset()
            ok = "arg" in src
            rep.decide(ok, "scalar-dtype", rule.role, f"the scalar operator is typed by `{ast.unparse(d) if d is not None else '?'}` (sources {sorted(src) or ['-']})" +
                       ("" if ok else f": `{c}` is cast to the operator's dtype, so a fractional scalar on an integer operator becomes 0 and a complex scalar on a real operator is truncated / rejected"),
                       detail="" if ok else "cast-to-operator", locs=loc)
        elif r is not None and r.kind == "funcs" and r.val[-1].name == "mul" and len(call.args) == 2:
            other = call.args[0] if c in df.names_in(call.args[1]) else (call.args[1] if c in df.names_in(call.args[0]) else None)
            if other is not None and isinstance(other, ast.Subscript) and nospace(other.value) in (f"{a}.Ms", ):
                rep.refuted("scalar-dtype", rule.role + ":part", f"the scalar is forwarded to `{ast.unparse(call)}`: it is typed by the single part `{ast.unparse(other)}` although the "
                            f"composite's dtype is the promotion over all parts ({a}.Ms): a scalar that fits {a}.dtype but not that part's dtype is truncated", detail="cast-to-part", locs=loc)


def block_diag_assembly(idx, rep, f):
    """block_diag(*ops) is the block diagonal of its operands in order.  Flattening a nested, REPEATED block diagonal by
    multiplying multiplicities is not an identity: I_m (x) (A (+) B) = (A (+) B) (+) (A (+) B) ..., whereas multiplicities
    [m, m] on [A, B] mean (A (+) A ...) (+) (B (+) B ...) -- a permuted matrix."""
    va = f.node.args.vararg.arg if f.node.args.vararg else (f.params[0] if f.params else None)
    loc = [idx.loc(f.module, f.node)]
    rets = [r for r in df.returns(f.node) if r.value is not None]
    direct = [r for r in rets if isinstance(r.value, ast.Call) and nospace(r.value.func) == "BlockDiag" and len(r.value.args) == 1 and isinstance(r.value.args[0], ast.Starred)
              and nospace(r.value.args[0].value) == va and not r.value.keywords]
    if rets and len(direct) == len(rets):
        rep.proved("rewrite-rule", "block_diag", f"returns BlockDiag(*{va}): the operands in order, unit multiplicities", locs=loc)
        return
    # products of multiplicities anywhere in the helper closure of block_diag
    fns, seen = [f], {id(f.node)}
    work = [f]
    while work:
        g = work.pop()
        for c in df.calls(g.node):
            r = idx.resolve_expr(g.module, c.func, g)
            if r is not None and r.kind == "funcs" and getattr(r.val[-1], "rule", None) is None and id(r.val[-1].node) not in seen and r.val[-1].module is f.module:
                seen.add(id(r.val[-1].node))
                fns.append(r.val[-1])
                work.append(r.val[-1])
    for g in fns:
        mult_names = set()
        for n in df.body_nodes(g.node):
            if isinstance(n, (ast.For, ast.comprehension)) and "multiplicities" in nospace(n.iter) and isinstance(n.target, ast.Tuple):
                mult_names |= {e.id for e in n.target.elts[1:] if isinstance(e, ast.Name)}
        for n in df.body_nodes(g.node):
            if isinstance(n, ast.BinOp) and isinstance(n.op, ast.Mult) and (set(df.names_in(n)) & mult_names):
                rep.refuted("rewrite-rule", "block_diag", f"`{nospace(n)}` in {g.short}: the multiplicity of an enclosing block diagonal is multiplied into the multiplicities of a nested one; "
                            "a repeated group diag(A, B) x m is then assembled as diag(A x m, B x m), which is a permuted matrix", detail="multiplicities", locs=[idx.loc(g.module, n)])
                return
    rep.undecided("rewrite-rule", "block_diag", "block_diag is not BlockDiag(*operands); its assembly is outside the recognised forms", locs=loc)


def norm_idx(txt):
    return txt.replace(" ", "").replace("[-1]", "[1]").replace("[-2]", "[0]")


def shape_validation(idx, rep):
    # Product: consecutive factors, contracted dimensions
    for cname, what in (("Product", "contracted"), ("Sum", "equal")):
        if not idx.has_cls(cname):
            rep.missing_anchor(f"class {cname}")
            continue
        init = idx.cls(cname).methods.get("__init__")
        if init is None:
            rep.missing_anchor(f"{cname}.__init__")
            continue
        # program order by position in the (normal-form) body, not by line number: inlined helper statements keep the lines of the helper
        order = {id(x): i for i, x in enumerate(df.body_nodes(init.node))}
        sup_line = min([order[id(c)] for c in df.calls(init.node) if df.is_super_init(c)] or [10**9])
        ok, why = False, "no comparison of the operands' shapes guards a raise/assert before the base constructor"
        def is_shape_list(e, depth=0):
            """a sequence of the operands' shapes: `[M.shape for M in Ms]` (also behind a name, a slice of it, list() / tuple())"""
            if isinstance(e, ast.Name) and depth < 4:
                v = df.resolve_value(init.node, e)
                return v is not e and is_shape_list(v, depth + 1)
            if isinstance(e, ast.Subscript) and isinstance(e.slice, ast.Slice):
                return is_shape_list(e.value, depth + 1)
            if isinstance(e, ast.Call) and isinstance(e.func, ast.Name) and e.func.id in ("list", "tuple") and len(e.args) == 1:
                return is_shape_list(e.args[0], depth + 1)
            return isinstance(e, (ast.ListComp, ast.GeneratorExp)) and isinstance(e.elt, ast.Attribute) and e.elt.attr == "shape"

        def shape_names(loop):
            """loop variables that ARE shapes (the loop runs over a sequence of shapes, possibly zipped)"""
            out = set()
            if loop is None:
                return out
            it = loop.iter
            srcs = it.args if isinstance(it, ast.Call) and isinstance(it.func, ast.Name) and it.func.id == "zip" else [it]
            tgts = loop.target.elts if isinstance(loop.target, ast.Tuple) else [loop.target]
            if len(srcs) == len(tgts):
                out |= {t.id for t, s_ in zip(tgts, srcs) if isinstance(t, ast.Name) and is_shape_list(s_)}
            return out

        def as_dims(e, shp):
            """text of a compared expression with `<shape variable>[i]` written as `<variable>.shape[i]`"""
            if isinstance(e, ast.Subscript) and isinstance(e.value, ast.Name) and e.value.id in shp:
                return norm_idx(f"{e.value.id}.shape[{ast.unparse(e.slice)}]")
            return norm_idx(ast.unparse(e))

        for n in df.body_nodes(init.node):
            test = None
            if isinstance(n, ast.If) and any(isinstance(x, ast.Raise) for x in ast.walk(n)) and order[id(n)] < sup_line:
                test = n.test
            elif isinstance(n, ast.Assert) and order[id(n)] < sup_line:
                test = n.test
            if test is None:
                continue
            for cmp_ in [x for x in ast.walk(test) if isinstance(x, ast.Compare) and len(x.ops) == 1]:
                loop = next((p for p in parents(n, init.node) if isinstance(p, ast.For)), None)
                shp = shape_names(loop)
                l, r = as_dims(cmp_.left, shp), as_dims(cmp_.comparators[0], shp)
                if what == "contracted":
                    if loop is None or not isinstance(loop.target, ast.Tuple) or len(loop.target.elts) != 2:
                        continue
                    a, b = (e.id for e in loop.target.elts)
                    it = ast.unparse(loop.iter).replace(" ", "")
                    consecutive = it.startswith("zip(") and "[:-1]" in it and "[1:]" in it and it.index("[:-1]") < it.index("[1:]")
                    if {l, r} == {f"{a}.shape[1]", f"{b}.shape[0]"} and isinstance(cmp_.ops[0], (ast.NotEq, ast.Eq)) and consecutive:
                        ok, why = True, f"`{ast.unparse(cmp_)}` over consecutive factors `{ast.unparse(loop.iter)}` guards the error"
                    elif {l, r} == {f"{a}.shape[0]", f"{b}.shape[1]"} or {l, r} == {f"{a}.shape[1]", f"{b}.shape[1]"} or {l, r} == {f"{a}.shape[0]", f"{b}.shape[0]"}:
                        why = f"`{ast.unparse(cmp_)}` compares the wrong pair of dimensions (the contracted ones are {a}.shape[-1] and {b}.shape[-2])"
                else:
                    def whole_shape(e):
                        if isinstance(e, ast.Attribute) and e.attr == "shape":
                            return True
                        if isinstance(e, ast.Name):
                            if e.id in shp:
                                return True
                            v = df.resolve_value(init.node, e)
                            return v is not e and (whole_shape(v) or (isinstance(v, ast.Subscript) and not isinstance(v.slice, ast.Slice) and is_shape_list(v.value)))
                        return False
                    if whole_shape(cmp_.left) and whole_shape(cmp_.comparators[0]) and isinstance(cmp_.ops[0], (ast.NotEq, ast.Eq)):
                        if loop is not None or "all(" in ast.unparse(test):
                            ok, why = True, f"`{ast.unparse(cmp_)}` over all terms guards the error"
        rep.decide(ok, "shape-validation", f"{cname}.__init__", why, detail="" if ok else "missing", locs=[idx.loc(init.module, init.node)])
    base = idx.cls("LinearOperator")
    for name, want in (("__matmul__", {"X.shape[0]", "self.shape[1]"}), ("__rmatmul__", {"X.shape[1]", "self.shape[0]"})):
        m = base.methods.get(name)
        if m is None:
            continue
        p = m.params[1]
        want = {w.replace("X", p) for w in want}
        ok, why = False, "operand shape is not checked"
        for n in df.body_nodes(m.node):
            test = n.test if isinstance(n, ast.Assert) else (n.test if isinstance(n, ast.If) and any(isinstance(x, ast.Raise) for x in ast.walk(n)) else None)
            if test is None:
                continue
            for cmp_ in [x for x in ast.walk(test) if isinstance(x, ast.Compare) and len(x.ops) == 1]:
                pair = {norm_idx(ast.unparse(cmp_.left)), norm_idx(ast.unparse(cmp_.comparators[0]))}
                alt = {w.replace(f"{p}.shape[1]", f"{p}.shape[1]") for w in want}
                if pair == want or (name == "__rmatmul__" and pair == {f"{p}.shape[1]", "self.shape[0]"}):
                    ok, why = True, f"`{ast.unparse(cmp_)}` checks the contracted dimension"
                elif ".shape" in "".join(pair):
                    why = f"`{ast.unparse(cmp_)}` does not compare the contracted dimensions {sorted(want)}"
        rep.decide(ok, "shape-validation", f"LinearOperator.{name}", why, detail="" if ok else "contracted", locs=[idx.loc(m.module, m.node)])
        if not ok:
            continue
        # the check must be passed on the way to the operator @ operator exit as well: the rules of `dot` that drop an operand
        # (identity, ...) build no Product and therefore validate nothing themselves
        def is_check(st_):
            t_ = st_.test if isinstance(st_, ast.Assert) else (st_.test if isinstance(st_, ast.If) and st_.body and isinstance(st_.body[0], ast.Raise) else None)
            return t_ is not None and any(isinstance(x, ast.Compare) and len(x.ops) == 1
                                          and {norm_idx(ast.unparse(x.left)), norm_idx(ast.unparse(x.comparators[0]))} in (want, {f"{p}.shape[1]", "self.shape[0]"})
                                          for x in ast.walk(t_))
        op_rets = [r for r in df.returns(m.node) if r.value is not None
                   and in_positive_branch(r, m.node, lambda t: "isinstance" in t and "LinearOperator" in t)]
        for r in op_rets:
            real = getattr(r, "_origin", r)
            if any(is_check(st_) for st_ in df.statements_before(real, m.node)):
                rep.proved("shape-validation", f"LinearOperator.{name}:operator-operand", "the contracted-dimension check is passed before the operands are handed to dot()",
                           locs=[idx.loc(m.module, real)])
                continue
            unvalidated = []
            for rule in [x for x in idx.rules.get("dot", []) if x.kind == "rule"]:
                for rr in df.returns(rule.func.node):
                    v = rr.value
                    if v is None:
                        continue
                    tgt = idx.resolve_expr(rule.func.module, v.func, rule.func) if isinstance(v, ast.Call) else None
                    if not (tgt is not None and tgt.kind == "class" and tgt.val.name == "Product"):
                        unvalidated.append(f"{rule.role} returns `{ast.unparse(v)[:40]}`")
            rep.decide(False if unvalidated else True, "shape-validation", f"LinearOperator.{name}:operator-operand",
                       ("operator operands reach dot() without the contracted-dimension check, and " + "; ".join(unvalidated[:3]) + " -- no Product is built, nothing validates the shapes")
                       if unvalidated else "every rule of dot() builds a Product, whose constructor validates the shapes",
                       detail="" if not unvalidated else "unchecked", locs=[idx.loc(m.module, real)])


def whole_through_helpers(idx, fi, expr, va, asg, depth=0):
    """depends_on_whole, also when the reduction over the whole collection lives in a helper that receives the collection"""
    if depends_on_whole(expr, va, asg):
        return True
    if depth > 2:
        return False
    for c in [n for n in ast.walk(expr) if isinstance(n, ast.Call)]:
        # a method of the operator itself: inside it the collection is `self.<va>`
        if isinstance(c.func, ast.Attribute) and isinstance(c.func.value, ast.Name) and c.func.value.id == "self" and fi.enc_cls is not None:
            m = idx.find_method(fi.enc_cls, c.func.attr)
            if m is not None and m is not fi:
                casg = df.assignments(m.node)
                rets = [ret.value for ret in df.returns(m.node) if ret.value is not None]
                if any(depends_on_whole(rv, va, casg) for rv in rets):
                    # running totals (`accumulate`): only the last entry covers every part
                    running = any(isinstance(x, ast.Call) and ast.unparse(x.func).endswith("accumulate") for rv in rets for x in ast.walk(df.resolve_value(m.node, rv) if isinstance(rv, ast.Name) else rv))
                    par = getattr(c, "_parent", None)
                    last = isinstance(par, ast.Subscript) and par.value is c and ast.unparse(par.slice) == "-1"
                    if not running or last:
                        return True
            continue
        r = idx.resolve_expr(fi.module, c.func, fi)
        if r is None or r.kind != "funcs" or getattr(r.val[-1], "rule", None) is not None:
            continue
        callee = r.val[-1]
        for i, a_ in enumerate(c.args):
            if ast.unparse(a_) in (va, "self." + va) and i < len(callee.params):
                casg = df.assignments(callee.node)
                if any(whole_through_helpers(idx, callee, ret.value, callee.params[i], casg, depth + 1) for ret in df.returns(callee.node) if ret.value is not None):
                    return True
    return False


def depends_on_whole(expr, va, asg, depth=0):
    """does the expression iterate over the whole *Ms collection (comprehension / reduce / loop variable)?"""
    for n in ast.walk(expr):
        if isinstance(n, (ast.GeneratorExp, ast.ListComp)):
            for g in n.generators:
                if va in {x.id for x in ast.walk(g.iter) if isinstance(x, ast.Name)} or "self." + va in ast.unparse(g.iter):
                    return True
        if isinstance(n, ast.Call) and ast.unparse(n.func) in ("reduce", "functools.reduce", "all", "any", "sum", "max") and va in ast.unparse(n):
            if not any(isinstance(s, ast.Subscript) and ast.unparse(s.value) in (va, "self." + va) and isinstance(s.slice, ast.Constant) for s in ast.walk(n)):
                return True
    if depth < 3:
        for n in ast.walk(expr):
            if isinstance(n, ast.Name) and n.id in asg and n.id != va:
                for v, p, st in asg[n.id]:
                    if not isinstance(v, ast.AugAssign) and depends_on_whole(v, va, asg, depth + 1):
                        return True
    return False
