"""C17 — randomised routines: determinism in the key, no effect on process-wide generators,
iteration cap of the Hutchinson loop (DESIGN.md section 4, C17).  Unbiasedness as a number
is not decided; one structural necessary condition of it (probe/estimator conjugation) is."""
import ast

from sa import dataflow as df
from sa import loop as lp
from sa.rng import Bracket, KeyChain, global_refs, role_of

EXCLUDED_MODULES = {"cola.utils.utils_for_tests": "test helpers, not library code"}
BACKEND_PREFIX = "cola.backends."


def cname(fi):
    m = fi.module.name
    if m.startswith(BACKEND_PREFIX) and m.rsplit(".", 1)[-1].endswith("_fns"):
        return f"{m.rsplit('.', 1)[-1]}.{fi.short}"
    return fi.short


def lib_modules(idx):
    return [m for n, m in sorted(idx.modules.items()) if n not in EXCLUDED_MODULES]


def randn_sites(idx):
    out = []
    for m in lib_modules(idx):
        if m.name.startswith(BACKEND_PREFIX):
            continue
        for fi in [f for f in idx.funcs.values() if f.module is m]:
            for c in df.calls(fi.node, into_nested=False):
                if df.is_xnp_call(c) == "randn":
                    out.append((fi, c))
    return out


def top_owner(fi):
    while fi.parent is not None:
        fi = fi.parent
    return fi


def run(idx, rep, tier):
    n_refs = 0
    # ------------------------------------------------------------ clause 1: global generators
    aliases = {}  # (backend module, alias name) -> dotted
    for m in lib_modules(idx):
        funcs = [f for f in idx.funcs.values() if f.module is m]
        in_func_nodes = set()
        for fi in funcs:
            br = Bracket(idx, fi)
            for role, dotted, call in br.events.values():
                in_func_nodes.add(id(call.func))
            n_refs += len(br.events)
            if not br.events:
                continue
            construct = cname(fi)
            if not br.has_perturbation():
                rep.proved("rng-bracket", construct, "only reads/restores generator state", locs=[idx.loc(m, fi.node)])
                continue
            bad = br.run()
            evs = sorted(br.events.values(), key=lambda e: e[2].lineno)
            deriv = [f"{e[0]}: {e[1]} @{m.rel}:{getattr(e[2], '_src_line', e[2].lineno)}" for e in evs]
            if bad:
                s = bad[0]
                what = f"leaked:{s[1]}" if s[0] == "leaked" else "dirty-at-exit"
                txt = (f"{construct} perturbs a process-wide generator with `{s[1]}` outside a get_state/set_state bracket" if s[0] == "leaked" else
                       f"{construct} can return with the process-wide generator perturbed (saved in `{s[1]}` but not restored on every path)")
                rep.refuted("rng-bracket", construct, txt, detail=what, derivation=deriv, locs=[idx.loc(m, e[2]) for e in evs])
            else:
                rep.proved("rng-bracket", construct, "every seed/draw lies between get_state bound to a name and set_state(<that name>) on every path to a normal exit",
                           derivation=deriv, locs=[idx.loc(m, fi.node)])
        # local generators must be seeded from a key / constant
        for fi in funcs:
            for c in df.calls(fi.node, into_nested=False):
                r = idx.resolve_expr(m, c.func, fi)
                if r is None or r.kind != "external" or role_of(r.val) != "local-generator":
                    continue
                construct = f"{cname(fi)}:{r.val.rsplit('.', 1)[-1]}"
                seed = c.args[0] if c.args else next((k.value for k in c.keywords if k.arg in ("seed", "x")), None)
                if seed is None or (isinstance(seed, ast.Constant) and seed.value is None):
                    rep.refuted("rng-local-seed", construct, f"`{ast.unparse(c)}` creates an unseeded generator: results differ from call to call", detail="unseeded",
                                locs=[idx.loc(m, c)])
                    continue
                # a seed that may be None is no seed: `default_rng(None)` draws from OS entropy.  The seed expression is followed to the
                # parameters it comes from; a parameter whose default is None reaches the constructor as None unless the call sits
                # behind a test of that parameter against None
                def none_params(e_, depth=0):
                    if isinstance(e_, ast.Name) and depth < 4:
                        v_ = df.resolve_value(fi.node, e_)
                        if v_ is not e_:
                            return none_params(v_, depth + 1)
                        d_ = df.param_defaults(fi.node).get(e_.id)
                        return {e_.id} if isinstance(d_, ast.Constant) and d_.value is None else set()
                    if isinstance(e_, ast.Call) and ast.unparse(e_.func).split(".")[-1] in ("asarray", "array", "int", "abs") and e_.args:
                        return set()  # asarray(None) / int(None) do not yield None (they yield an object array / raise)
                    return set()
                maybe = none_params(seed)
                guarded = {t_.left.id for t_, pol_ in df.branch_conditions(c, fi.node)
                           if isinstance(t_, ast.Compare) and len(t_.ops) == 1 and isinstance(t_.left, ast.Name) and isinstance(t_.comparators[0], ast.Constant)
                           and t_.comparators[0].value is None and ((isinstance(t_.ops[0], ast.IsNot) and pol_) or (isinstance(t_.ops[0], ast.Is) and not pol_))}
                if maybe - guarded:
                    p_ = sorted(maybe - guarded)[0]
                    rep.refuted("rng-local-seed", construct, f"`{ast.unparse(c)}`: the seed is the parameter `{p_}`, whose default is None -- a generator created from None is seeded "
                                "from OS entropy, so two calls that leave the key at its default return different results", detail="none-seed", locs=[idx.loc(m, c)])
                    continue
                tags = KeyChain(idx, fi).classify(seed)
                bad = sorted(t for t in tags if t.startswith(("entropy", "global-rng")))
                unk = sorted(t for t in tags if t.startswith("unknown"))
                rep.decide(False if bad else (None if unk else True), "rng-local-seed", construct, f"local generator seeded from {sorted(tags)}",
                           detail=bad[0] if bad else "", locs=[idx.loc(m, c)])
        # references outside call position / at module level
        for node, dotted, role in global_refs(idx, list(ast.walk(m.tree)), m):
            if role in ("entropy", "local-generator"):
                continue
            par = getattr(node, "_parent", None)
            fn = None
            p = par
            while p is not None and not isinstance(p, (ast.FunctionDef, ast.AsyncFunctionDef, ast.Lambda)):
                p = getattr(p, "_parent", None)
            if p is not None:
                # inside a function: counted by Bracket when it is the callee of a call
                if isinstance(par, ast.Call) and par.func is node:
                    continue
                fi = idx.funcs_by_node.get(p)
                rep.undecided("rng-reference", f"{cname(fi) if fi else '<lambda>'}", f"`{dotted}` used as a value (not called) at {m.rel}:{getattr(node, '_src_line', node.lineno)}")
                continue
            n_refs += 1
            if isinstance(par, ast.Assign) and par.value is node and role in ("draw", "seed"):
                for t in par.targets:
                    if isinstance(t, ast.Name):
                        aliases[(m.name, t.id)] = (dotted, idx.loc(m, par))
            elif isinstance(par, ast.Call) and par.func is node and role in ("draw", "seed"):
                rep.refuted("rng-bracket", f"{m.name.rsplit('.', 1)[-1]}:<module>", f"import-time call of `{dotted}` perturbs the process-wide generator",
                            detail=f"leaked:{dotted}", locs=[idx.loc(m, par)])
    # aliases of global draws must have no caller
    for (modname, alias), (dotted, loc) in sorted(aliases.items()):
        callers = []
        short = modname.rsplit(".", 1)[-1]
        for m in lib_modules(idx):
            for c in [n for n in ast.walk(m.tree) if isinstance(n, ast.Call)]:
                if m.name.startswith(BACKEND_PREFIX):
                    if m.name == modname and isinstance(c.func, ast.Name) and c.func.id == alias:
                        callers.append(idx.loc(m, c))
                elif df.is_xnp_call(c) == alias:
                    callers.append(idx.loc(m, c))
        construct = f"{short}.{alias}"
        if callers:
            rep.refuted("rng-alias", construct, f"`xnp.{alias}` is an alias of the global draw `{dotted}` on the {short} backend and is called from library code",
                        detail=f"callers:{len(callers)}", locs=[loc] + callers)
        else:
            rep.proved("rng-alias", construct, f"alias of `{dotted}` has no caller in cola/", locs=[loc])
    rep.analysed["global_generator_references"] = n_refs

    # ------------------------------------------------------------ clause 3: key threading
    sites = randn_sites(idx)
    rep.analysed["randn_call_sites"] = len(sites)
    unkeyed = []
    for fi, c in sites:
        kw = {k.arg: k.value for k in c.keywords if k.arg}
        construct = f"{fi.short}:randn"
        loc = idx.loc(fi.module, c)
        if "key" not in kw:
            unkeyed.append((top_owner(fi).short, loc))
            continue
        tags = KeyChain(idx, fi).classify(kw["key"])
        bad = sorted(t for t in tags if t.startswith(("entropy", "global-rng")))
        unk = sorted(t for t in tags if t.startswith("unknown"))
        if bad:
            rep.refuted("key-chain", construct, f"key of `{ast.unparse(c)[:70]}` derives from a non-deterministic source {bad}", detail=bad[0], locs=[loc],
                        derivation=sorted(tags))
        elif unk:
            rep.undecided("key-chain", construct, f"key chain not closed: {unk}", locs=[loc])
        else:
            rep.proved("key-chain", construct, f"key derives only from {sorted(tags)}", locs=[loc], derivation=sorted(tags))
        # loop-carried key must advance
        slot_tags = [t for t in tags if t.startswith("state-slot:")]
        if slot_tags and fi.parent is not None:
            try:
                slot = int(slot_tags[0].split(":")[1])
            except ValueError:
                slot = None
            loops = [l for l in lp.find_loops(idx, fi.parent) if l.body is fi]
            if slot is not None and loops:
                rets = lp.return_exprs(fi)
                ok = None
                for r in rets:
                    if isinstance(r, ast.Tuple) and -len(r.elts) <= slot < len(r.elts):
                        t2 = KeyChain(idx, fi).classify(r.elts[slot])
                        ok = "next_key" in t2
                        why = f"returned key slot {slot} = `{ast.unparse(r.elts[slot])}` -> {sorted(t2)}"
                init = lp.init_slot(loops[0], slot)
                rep.decide(ok, "key-advance", fi.short, f"loop body that draws with the carried key must hand the next iteration a next_key(...) value; {why if ok is not None else 'return not a tuple'}",
                           locs=[loc])
                if init is not None:
                    t3 = KeyChain(idx, fi.parent).classify(init)
                    bad3 = sorted(t for t in t3 if t.startswith(("entropy", "global-rng")))
                    rep.decide(False if bad3 else (None if any(t.startswith("unknown") for t in t3) else True), "key-chain", f"{fi.parent.short}:loop-init-key",
                               f"initial key of the loop state derives from {sorted(t3)}", locs=[idx.loc(fi.module, loops[0].call)], detail=bad3[0] if bad3 else "")
    rep.analysed["unkeyed_randn_call_sites"] = [f"{o} @{l}" for o, l in unkeyed]
    # un-keyed sites are reaching contexts of the None path of every sibling
    leaks = [ob for ob in rep.obs if ob.rule == "rng-bracket" and ob.status == "REFUTED" and ob.construct.endswith(".randn")]
    for ob in leaks:
        ob.derivation = (ob.derivation or []) + [f"reached with key=None from: {o} @{l}" for o, l in unkeyed]

    # dataclass algorithms that own a key must forward it
    for ci in idx.algorithm_classes():
        fields = [s.target.id for s in ci.node.body if isinstance(s, ast.AnnAssign) and isinstance(s.target, ast.Name)]
        if "key" not in fields:
            continue
        call = ci.methods.get("__call__")
        if call is None:
            continue
        construct = f"{ci.name}.__call__"
        # decided by the option-passthrough reading of the call (positional, keyword, **self.__dict__, ** of a mapping of every
        # declared field, also through a method): a call that leaves the callee's `key` unbound is refuted; a key that travels
        # through a helper this reading does not interpret is undecided, never refuted
        from sa.autorule import option_passthrough
        res_ = [x for x in option_passthrough(idx, rep, call, ("key", ), report=False) if x[1].endswith(":key")]
        if not res_:
            verdict, why = None, "no call of a routine with a key parameter found (or the key travels through a helper that is not interpreted)"
        elif any(x[0] is False for x in res_):
            verdict, why = False, next(x[2] for x in res_ if x[0] is False)
        elif all(x[0] is True for x in res_):
            verdict, why = True, "; ".join(sorted({x[2] for x in res_}))
        else:
            verdict, why = None, next(x[2] for x in res_ if x[0] is None)
        rep.decide(verdict, "key-forward", construct, why, locs=[idx.loc(ci.module, call.node)])

    # ------------------------------------------------------------ clause 5: key derivation
    be = idx.backend()
    for fname in ("PRNGKey", "next_key"):
        if fname not in be:
            rep.missing_anchor(f"backend function {fname}")
            continue
        for b, (kind, val) in sorted(be[fname].items()):
            construct = f"{b}.{fname}"
            if kind == "alias":
                rep.proved("key-derivation", construct, f"library function {val}", nontrivial=False)
                continue
            fi = val
            ok, why = depends_nontrivially(idx, fi)
            rep.decide(ok, "key-derivation", construct, why, locs=[idx.loc(fi.module, fi.node)])

    # ------------------------------------------------------------ clause 4: Hutchinson cap
    hutch = None
    if idx.has_cls("Hutch"):
        call = idx.cls("Hutch").methods.get("__call__")
        if call is not None:
            for c in df.calls(call.node):
                r = idx.resolve_expr(call.module, c.func, call)
                if r is not None and r.kind == "funcs":
                    cand = r.val[-1]
                    if any(isinstance(x.func, ast.Attribute) and x.func.attr == "while_loop_winfo" for x in df.calls(cand.node)):
                        hutch = cand
    if hutch is None:
        rep.missing_anchor("the Hutchinson loop (routine reachable from Hutch.__call__ that uses while_loop_winfo)")
    else:
        loops = lp.find_loops(idx, hutch)
        if not loops:
            rep.missing_anchor("while loop in the Hutchinson routine")
        for l in loops:
            cert = lp.cap_certificate(idx, l)
            construct = f"{hutch.short}:loop"
            if cert["ok"] is not True:
                rep.decide(cert["ok"], "loop-cap", construct, cert["why"], locs=[idx.loc(hutch.module, l.call)], detail="no-cap" if cert["ok"] is False else "")
                continue
            ok, why = lp.counter_step(idx, l, cert["counter_slot"])
            init = lp.init_slot(l, cert["counter_slot"])
            init_ok = isinstance(init, ast.Constant) and init.value in (0, 1)
            v = ok if ok is not True else (True if init_ok else None)
            if v is True and not ((init.value == 0 and cert["strict"]) or (init.value == 1 and not cert["strict"])):
                # a counter that starts at 0 admits max_iters steps with `<`, one more with `<=` (and conversely when it starts at 1)
                v, why = False, (f"the counter starts at {init.value} and the cap conjunct compares with `{'<' if cert['strict'] else '<='}`: "
                                 f"{'max_iters + 1' if not cert['strict'] else 'max_iters - 1'} blocks of probes are drawn when the cap is what stops the loop")
            rep.decide(v, "loop-cap", construct, f"cond contains `{cert['expr']}`" + (" behind a first-iteration guard" if cert["first_iter_guard"] else "") + f"; {why}; initial counter `{ast.unparse(init) if init is not None else '?'}`",
                       locs=[idx.loc(hutch.module, l.call)], detail="" if v is not False else "counter")
        # ---------------------------------------------------------- clause 6: probe conjugation
        probe_conjugation(idx, rep, hutch)
        probe_consistency(idx, rep, hutch)
        # ---------------------------------------------------------- clause 7: the estimator depends on the SIGN of the offset
        kp = next((p for p in hutch.params if p == "k"), hutch.params[1] if len(hutch.params) > 1 else None)
        if kp is not None:
            n_abs, n_other = df.sign_uses(hutch.node, kp)
            ok = n_other > 0
            rep.decide(ok if (n_abs + n_other) else None, "offset-sign", f"{hutch.short}:{kp}", f"the offset `{kp}` is read {n_abs} time(s) under abs() and {n_other} time(s) directly" +
                       ("" if ok else ": the estimate depends on |k| only, so diag(A, k) and diag(A, -k) receive the same estimator although they differ for every non-symmetric A "
                        "(one of the two is the diagonal of the transpose: a biased estimate)"), detail="" if ok else "abs-only", locs=[idx.loc(hutch.module, hutch.node)])

    # ------------------------------------------------------------ clause 8: the caller's key is never written back
    n_store = 0
    for f in idx.funcs.values():
        if not f.module.name.startswith("cola.") or f.module.name.startswith("cola.utils.utils_for_tests"):
            continue
        params = set()
        g = f
        while g is not None:
            params |= set(g.params)
            g = g.parent
        for n in df.body_nodes(f.node, into_nested=False):
            tgt = None
            if isinstance(n, (ast.Assign, ast.AugAssign, ast.AnnAssign)):
                tgts = n.targets if isinstance(n, ast.Assign) else [n.target]
                tgt = next((t for t in tgts if isinstance(t, ast.Attribute) and t.attr == "key" and isinstance(t.value, ast.Name)), None)
            elif isinstance(n, ast.Call) and isinstance(n.func, ast.Name) and n.func.id == "setattr" and len(n.args) >= 2 and isinstance(n.args[1], ast.Constant) and n.args[1].value == "key" \
                    and isinstance(n.args[0], ast.Name):
                tgt = ast.Attribute(value=n.args[0], attr="key", ctx=ast.Store())
            if tgt is None:
                continue
            base = tgt.value.id
            if base in params and base not in ("self", "cls"):
                n_store += 1
                rep.refuted("key-persistence", f"{fn_role(f)}:{base}.key", f"`{ast.unparse(n)[:80]}` writes a new key into the object passed as `{base}`: a second call with the same algorithm object "
                            "and the same key draws different probes, so the result is no longer a function of (operator, key)", detail="written-back", locs=[idx.loc(f.module, n)])
    rep.count("key-persistence", proved=1 if not n_store else 0)
    # ------------------------------------------------------------ the iteration cap / tolerance / key given to Auto reach the estimator
    from sa.autorule import option_forwarding
    from sa.resolver import Resolver
    res_ = Resolver(idx, frozenset(idx.core_modules()))
    for rule in res_.rules_of("diag"):
        if len(rule.params) > 2 and rule.params[2][1] == frozenset({"Auto"}):
            option_forwarding(idx, rep, rule, rule.func, rule.params[2][0])
    rep.floor("auto-options", 1)
    rep.floor("rng-bracket", 2)
    rep.floor("key-chain", 5)  # two start-vector draws merged into one shared helper is a legitimate clean-up
    rep.floor("key-derivation", 4)
    rep.floor("loop-cap", 1)
    rep.floor("key-advance", 1)
    rep.floor("key-forward", 3)
    rep.floor("rng-alias", 1)
    # ---- probe distribution, key, tolerance and cap reach the estimator from every entry point
    from sa.autorule import passthrough_in
    passthrough_in(idx, rep, ("trace.diagonal_estimation", ), ("Hutch", "HutchPP", "Exact"), ("rand", "key", "tol", "max_iters", "bs"), 5)
    rep.explanation = ("Who-may-call + typestate: every reference to numpy.random / random / torch RNG state in cola/ is collected through import "
                       "resolution; perturbing calls must sit inside a get_state/set_state bracket on every path (structured abstract interpretation over "
                       "{clean,saved,dirty,leaked}); key def-use chains of every xnp.randn call site; loop-carried keys must advance; cap certificate of "
                       "the Hutchinson loop; PRNGKey/next_key depend on their argument; estimator/probe conjugation agreement.")
    rep.assumptions += [
        "statistical unbiasedness/variance are not decided (only two necessary conditions: probe/estimator conjugation, and dependence on the sign of the offset)",
        "exceptional exits between seed and set_state are not considered (normal exits only)",
        "cola/utils/utils_for_tests.py is excluded by name (test helpers)",
    ]


def depends_nontrivially(idx, fi, depth=0):
    """the function's return value depends on its first parameter and is not the parameter itself"""
    params = fi.params
    if not params:
        return False, "takes no argument"
    p = params[0]
    rets = df.returns(fi.node)
    if not rets:
        return None, "no return"
    asg = df.assignments(fi.node)
    for r in rets:
        if r.value is None:
            return False, "returns None"
        if isinstance(r.value, ast.Name) and r.value.id == p and p not in asg:
            return False, f"returns its argument `{p}` unchanged (every iteration would reuse the same key)"
        # closure of names feeding the return
        work, seen = list(df.names_in(r.value)), set()
        dep = False
        while work:
            n = work.pop()
            if n in seen:
                continue
            seen.add(n)
            if n == p:
                dep = True
                break
            for v, path, st in asg.get(n, []):
                work += list(df.names_in(v.value if isinstance(v, ast.AugAssign) else v))
        if not dep:
            return False, f"return value `{ast.unparse(r.value)[:50]}` does not depend on `{p}`"
        # helper calls must themselves depend on their argument
        if isinstance(r.value, ast.Call) and depth < 3:
            rr = idx.resolve_expr(fi.module, r.value.func, fi)
            if rr is not None and rr.kind == "funcs" and rr.val[-1].module is fi.module:
                ok, why = depends_nontrivially(idx, rr.val[-1], depth + 1)
                if ok is not True:
                    return ok, f"via {rr.val[-1].short}: {why}"
    return True, f"return value depends on `{p}` and is not `{p}` itself"


def probe_conjugation(idx, rep, hutch):
    """estimator (A @ z) * z2 without a conjugate needs real-valued probes z: E[z_i z_j] = delta_ij fails
    for circular complex normals (E[z^2] = 0).  Two cooperating sites: estimator and every randn sibling."""
    body = None
    for fi in hutch.nested.values():
        if any(df.is_xnp_call(c) == "randn" for c in df.calls(fi.node)):
            body = fi
    if body is None:
        rep.undecided("probe-conjugation", hutch.short, "probe draw not found in a nested body")
        return
    has_conj = any((isinstance(c.func, ast.Attribute) and c.func.attr in ("conj", "conjugate")) for c in df.calls(body.node))
    if has_conj:
        rep.proved("probe-conjugation", hutch.short, "estimator conjugates a probe factor; complex probes are admissible")
        return
    be = idx.backend().get("randn", {})
    for b, (kind, fi) in sorted(be.items()):
        if kind != "def":
            continue
        construct = f"{b}.randn"
        dparam = "dtype"
        verdict, why = True, "draws are real-valued and only cast to the requested dtype"
        for c in df.calls(fi.node):
            r = idx.resolve_expr(fi.module, c.func, fi)
            dotted = r.val if r is not None and r.kind == "external" else None
            is_draw = dotted is not None and (role_of(dotted) == "draw" or dotted in ("jax.random.normal", "jax.random.rademacher"))
            if is_draw and any(k.arg == "dtype" and dparam in df.names_in(k.value) for k in c.keywords):
                verdict, why = False, f"`{ast.unparse(c)[:60]}` draws in the requested dtype: circular complex normals for complex operators"
        for n in df.body_nodes(fi.node):
            if isinstance(n, ast.Constant) and isinstance(n.value, complex):
                verdict, why = False, f"complex literal `{n.value}` flows into the probes"
            if isinstance(n, ast.Call) and isinstance(n.func, ast.Name) and n.func.id == "complex":
                verdict, why = False, "complex(...) constructed in the probe generator"
        rep.decide(verdict, "probe-conjugation", construct,
                   ("the Hutchinson estimator multiplies (A @ z) by the shifted probes without conjugation, so probes must be real-valued; " + why),
                   detail="" if verdict else "complex-probes", locs=[idx.loc(fi.module, fi.node), idx.loc(hutch.module, body.node)])


def fn_role(f):
    r = getattr(f, "rule", None)
    return r.role if r is not None else f.short


def probe_consistency(idx, rep, hutch):
    """The estimator (A @ z) * z2 is unbiased only if z2 is the SAME probe block that A is applied to (shifted / masked for an
    off-diagonal).  Path-sensitive reaching definitions over the (few) branches of the loop body: on every path the term bound to the
    multiplier must be, or be computed from, the term bound to the probe at that point -- a transformation applied to one name after the
    two were bound to one draw (`z = z2 = randn(..); z = sign(z)`) leaves the other behind."""
    body = None
    for fi in hutch.nested.values():
        if any(df.is_xnp_call(c) == "randn" for c in df.calls(fi.node)):
            body = fi
    if body is None:
        rep.undecided("probe-consistency", hutch.short, "probe draw not found in a nested body")
        return
    est = None
    for n in df.body_nodes(body.node):
        if isinstance(n, ast.BinOp) and isinstance(n.op, ast.Mult):
            for prod, other in ((n.left, n.right), (n.right, n.left)):
                if isinstance(prod, ast.BinOp) and isinstance(prod.op, ast.MatMult) and isinstance(prod.right, ast.Name) and isinstance(other, ast.Name):
                    est = (n, prod.right.id, other.id)
    if est is None:
        rep.undecided("probe-consistency", hutch.short, "estimator of the form (A @ z) * z2 not found")
        return
    node, zname, mname = est
    stmts = body.node.body
    ifs = []

    def collect(blk):
        for st in blk:
            if isinstance(st, ast.If):
                ifs.append(st)
                collect(st.body)
                collect(st.orelse)
    collect(stmts)
    if len(ifs) > 8:
        rep.undecided("probe-consistency", hutch.short, f"{len(ifs)} branches in the loop body: too many paths")
        return
    import itertools
    fresh = [0]

    def term(e, env):
        """syntactic term of e with names replaced by their current terms; calls of randn are distinct draws"""
        if isinstance(e, ast.Name):
            return env.get(e.id, ("name", e.id))
        if isinstance(e, ast.Constant):
            return ("const", repr(e.value))
        if isinstance(e, ast.Call) and df.is_xnp_call(e) == "randn":
            fresh[0] += 1
            return ("draw", fresh[0])
        return (type(e).__name__, ) + tuple(term(c, env) for c in ast.iter_child_nodes(e) if isinstance(c, ast.expr)) + (
            (e.attr, ) if isinstance(e, ast.Attribute) else ()) + ((type(e.op).__name__, ) if isinstance(e, (ast.BinOp, ast.UnaryOp)) else ())

    def contains(t, sub):
        return t == sub or (isinstance(t, tuple) and any(contains(x, sub) for x in t[1:] if isinstance(x, tuple)))

    bad = None
    n_paths = 0
    for choice in itertools.product([True, False], repeat=len(ifs)):
        taken = dict(zip([id(i) for i in ifs], choice))
        env = {}
        found = [None]

        def run(blk):
            for st in blk:
                if isinstance(st, ast.If):
                    run(st.body if taken[id(st)] else st.orelse)
                elif isinstance(st, ast.Assign):
                    v = term(st.value, env)
                    for t in st.targets:
                        if isinstance(t, ast.Name):
                            env[t.id] = v
                        elif isinstance(t, ast.Tuple):
                            for i_, e_ in enumerate(t.elts):
                                if isinstance(e_, ast.Name):
                                    env[e_.id] = ("item", v, ("const", str(i_)))
                elif isinstance(st, ast.AugAssign) and isinstance(st.target, ast.Name):
                    env[st.target.id] = ("aug", env.get(st.target.id, ("name", st.target.id)), term(st.value, env))
                if found[0] is None and any(x is node for x in ast.walk(st)):
                    found[0] = (env.get(zname, ("name", zname)), env.get(mname, ("name", mname)))
        fresh[0] = 0
        run(stmts)
        if found[0] is None:
            continue
        n_paths += 1
        zt, mt = found[0]
        if not contains(mt, zt):
            conds = [("" if c else "not ") + ast.unparse(i.test)[:30] for i, c in zip(ifs, choice) if any(x.id in (zname, mname) for s_ in i.body + i.orelse for x in ast.walk(s_)
                                                                                                       if isinstance(x, ast.Name) and isinstance(x.ctx, ast.Store))]
            bad = bad or f"on the path [{', '.join(conds) or 'straight'}] the multiplier `{mname}` is not (computed from) the probe block `{zname}` that the operator is applied to"
    if n_paths == 0:
        rep.undecided("probe-consistency", hutch.short, "the estimator is not reached on any enumerated path")
    else:
        rep.decide(bad is None, "probe-consistency", hutch.short, bad or f"on all {n_paths} paths of the loop body the multiplier is the probe block itself or a shift / mask of it",
                   detail="" if bad is None else "stale-probe", locs=[idx.loc(body.module, node)])
