"""C01 — an operator acts as the matrix it represents (DESIGN.md section 4, C01; partial).

Structural necessary conditions for every LinearOperator subclass:
1. no narrowing store (DTYPE): a buffer typed by one side never receives data of the other side in place;
2. the result dtype of _matmat / _rmatmat covers operator and operand;
3. composite metadata (shape) depends on all parts;
4. conformability of the generic paths (DIM): 1-D reshape round trip, identity side of to_dense, shape swap of
   Transpose / Adjoint, contracted-dimension roles in the Kronecker / KronSum / BlockDiag contractions, and the
   inverse pairing of every axis move."""
import ast

from sa import dataflow as df
from sa.dtype import ARG, E, OP, DType

OPAQUE = {"FFT": "FFT primitive", "Jacobian": "autodiff", "Hessian": "autodiff", "ConvolveND": "convolution primitive", "LanczosUnary": "Krylov path (vmap)",
          "ArnoldiUnary": "Krylov path (vmap)", "LinearOperator": "user supplied matmat", "IterativeOperatorWInfo": "delegates to the algorithm object",
          "LSTSQSolve": "backend lstsq", "Sliced": "reported under C20"}


def nospace(n):
    return ast.unparse(n).replace(" ", "")


def norm_idx(t):
    return t.replace("[-1]", "[1]").replace("[-2]", "[0]")


def plain_sources(dt, fi, name, node_before=None):
    """dtype sources of a buffer name from its plain (non-augmented) bindings"""
    vals = [v for v, p, st in df.assignments(fi.node).get(name, []) if not isinstance(v, ast.AugAssign)]
    out = set()
    for v in vals:
        if isinstance(v, ast.Call) and df.is_xnp_call(v) == "update_array":
            continue
        out |= dt.flat(dt.eval_in(fi, v))
    if name in fi.params:
        out |= dt.param(fi, name)
    return frozenset(out)


def run(idx, rep, tier):
    n_methods = 0
    for ci in idx.operator_classes():
        for mname in ("_matmat", "_rmatmat"):
            m = ci.methods.get(mname)
            if m is None or len(m.params) < 2:
                continue
            n_methods += 1
            construct = f"{ci.name}.{mname}"
            loc = idx.loc(m.module, m.node)
            x = m.params[1]
            dt = DType(idx, x)
            for r_ in df.returns(m.node):
                if r_.value is not None:
                    dt.eval_in(m, r_.value)
            # ---- clause 2b: the operand is never converted to a dtype that does not depend on it (a complex operand applied to a real
            # operator must stay complex): every explicit cast reached from the returned value
            seen_casts = set()
            for node_, f_, val, tgt, lost in dt.casts:
                if id(node_) in seen_casts or "arg" not in val:
                    continue
                seen_casts.add(id(node_))
                bad = "arg" in lost
                rep.decide(not bad, "operand-cast", f"{construct}:{len(seen_casts)}", f"`{ast.unparse(node_)[:60]}` converts the operand to a dtype typed by {sorted(tgt) or ['-']}" +
                           ("" if not bad else ": the operand's own dtype is ignored, so the imaginary part of a complex operand applied to a real operator is silently dropped"),
                           detail="" if not bad else "narrow", locs=[idx.loc((f_ or m).module, node_)])
            if ci.name in OPAQUE:
                rep.note(f"{construct}: opaque ({OPAQUE[ci.name]})")
                continue
            dt = DType(idx, x)
            # ---- clause 1: in-place receivers
            n_store = 0
            for n in df.body_nodes(m.node, into_nested=False):
                recv = val = None
                if isinstance(n, ast.AugAssign) and isinstance(n.target, ast.Name):
                    recv, val = n.target.id, n.value
                elif isinstance(n, ast.Call) and df.is_xnp_call(n) == "update_array" and len(n.args) >= 2 and isinstance(n.args[0], ast.Name):
                    recv, val = n.args[0].id, n.args[1]
                elif isinstance(n, ast.Assign) and isinstance(n.targets[0], ast.Subscript) and isinstance(n.targets[0].value, ast.Name):
                    recv, val = n.targets[0].value.id, n.value
                if recv is None:
                    continue
                n_store += 1
                rs, vs = plain_sources(dt, m, recv), dt.flat(dt.eval_in(m, val))
                site = f"{construct}:store{n_store}"
                if "unknown" in rs or "unknown" in vs:
                    rep.undecided("no-narrowing-store", site, f"in-place store into `{recv}` (typed by {sorted(rs)}) of a value typed by {sorted(vs)}", locs=[idx.loc(m.module, n)])
                    continue
                missing = sorted((vs & {"op", "arg"}) - rs)
                rep.decide(not missing, "no-narrowing-store", site,
                           f"`{ast.unparse(n)[:60]}`: buffer `{recv}` is typed by {sorted(rs) or ['-']}, the stored value by {sorted(vs) or ['-']}" +
                           ("" if not missing else f": the buffer's dtype ignores the {'operator' if missing == ['op'] else 'operand'} (complex x real raises a casting error or drops the imaginary part)"),
                           detail="" if not missing else "narrow:" + ",".join(missing), locs=[idx.loc(m.module, n)])
            # ---- clause 2: result dtype
            rets = [r for r in df.returns(m.node) if r.value is not None]
            srcs = frozenset()
            for r in rets:
                srcs |= dt.flat(dt.eval_in(m, r.value))
            if "unknown" in srcs or "opaque" in srcs:
                rep.undecided("result-dtype", construct, f"result typed by {sorted(srcs)}", locs=[loc])
            else:
                missing = sorted({"op", "arg"} - srcs)
                rep.decide(not missing, "result-dtype", construct, f"result is typed by {sorted(srcs) or ['-']}" +
                           ("" if not missing else f": the {'operator' if 'op' in missing else 'operand'}'s dtype does not reach the result, so (A @ x).dtype is not the promoted dtype"),
                           detail="" if not missing else "missing:" + ",".join(missing), locs=[loc])
    rep.analysed["product_methods"] = n_methods
    # ---- clause 3: shape of *Ms composites depends on all parts
    from props.C03 import whole_through_helpers
    for ci in idx.operator_classes():
        init = ci.methods.get("__init__")
        if init is None or init.node.args.vararg is None:
            continue
        va = init.node.args.vararg.arg
        sup = [c for c in df.calls(init.node) if df.is_super_init(c)]
        if not sup:
            continue
        b = df.bind_call(sup[0], ["dtype", "shape", "matmat", "annotations"])
        sh = b.get("shape")
        if sh is None:
            continue
        asg = df.assignments(init.node)
        expr = sh
        if isinstance(sh, ast.Name) and len(asg.get(sh.id, [])) == 1:
            expr = asg[sh.id][0][0]
        whole = whole_through_helpers(idx, init, expr, va, asg)
        validated = any(isinstance(n, ast.For) and va in nospace(n.iter) and any(isinstance(x, (ast.Raise, ast.Assert)) for x in ast.walk(n)) and "shape" in nospace(n)
                        for n in df.body_nodes(init.node)) or any(isinstance(n, ast.Assert) and va in nospace(n) and "shape" in nospace(n) for n in df.body_nodes(init.node))
        ok = whole or validated
        rep.decide(True if ok else False, "composite-metadata", f"{ci.name}.__init__:shape", f"shape `{ast.unparse(expr)[:70]}` " + ("is a reduction over all parts" if whole else
                   ("is taken from the end parts after validating all of them" if validated else "depends on single parts only, without validation")), detail="" if ok else "single-part",
                   locs=[idx.loc(init.module, sup[0])])
    # ---- clause 4: conformability of the generic paths
    base = idx.cls("LinearOperator")
    mm, rmm, td = base.methods.get("__matmul__"), base.methods.get("__rmatmul__"), base.methods.get("to_dense")
    for m, shape_in, meth in ((mm, "(-1,1)", "_matmat"), (rmm, "(1,-1)", "_rmatmat")):
        if m is None:
            rep.missing_anchor(f"LinearOperator.{'__matmul__' if meth == '_matmat' else '__rmatmul__'}")
            continue
        x = m.params[1]
        src = nospace(m.node)
        ok = f"self.{meth}({x}.reshape{shape_in}).reshape(-1)" in src
        rep.decide(ok, "generic-path", f"LinearOperator.{m.name}:1-D", f"1-D operands are reshaped to {shape_in}, passed to {meth} and flattened back" if ok else
                   f"1-D operand path is not {meth}({x}.reshape{shape_in}).reshape(-1)", detail="" if ok else "reshape", locs=[idx.loc(m.module, m.node)])
        ok2 = any(nospace(r.value) == f"self.{meth}({x})" for r in df.returns(m.node) if r.value is not None)
        rep.decide(ok2, "generic-path", f"LinearOperator.{m.name}:2-D", f"2-D operands go to {meth}" if ok2 else f"2-D operands do not go to {meth}", detail="" if ok2 else "method",
                   locs=[idx.loc(m.module, m.node)])
    if td is None:
        rep.missing_anchor("LinearOperator.to_dense")
    else:
        # eye(R, R) @ self   /   self @ eye(C, C)
        n_ok = 0
        bad = None
        for n in df.body_nodes(td.node):
            if isinstance(n, ast.BinOp) and isinstance(n.op, ast.MatMult):
                l, r = n.left, n.right
                eye, side = (l, "left") if isinstance(l, ast.Call) and df.is_xnp_call(l) == "eye" else ((r, "right") if isinstance(r, ast.Call) and df.is_xnp_call(r) == "eye" else (None, None))
                if eye is None:
                    continue
                def dim_text(a_, depth=0):
                    """`self.shape[i]`, also behind a local (`rows, cols = self.shape`, `n = self.shape[-1]`)"""
                    if isinstance(a_, ast.Name) and depth < 4:
                        nxt_ = df.resolve_at(td.node, a_)
                        if nxt_ is not a_:
                            return dim_text(nxt_, depth + 1)
                        vals = [(v_, p_) for v_, p_, st_ in df.assignments(td.node).get(a_.id, []) if not isinstance(v_, ast.AugAssign)]
                        if len(vals) == 1:
                            v_, p_ = vals[0]
                            if p_ is None:
                                return dim_text(v_, depth + 1)
                            if len(p_) == 1 and isinstance(p_[0], int) and nospace(v_) == "self.shape":
                                return norm_idx(f"self.shape[{p_[0]}]")
                    return norm_idx(nospace(a_))
                dims = [dim_text(a) for a in eye.args[:2]]
                want = "self.shape[0]" if side == "left" else "self.shape[1]"
                if dims == [want, want]:
                    n_ok += 1
                else:
                    bad = f"identity of size {dims} multiplied from the {side}: must be {want} x {want}"
        rep.decide(False if bad else (True if n_ok == 2 else None), "generic-path", "LinearOperator.to_dense", bad or f"{n_ok} identity products with the matching side sizes",
                   detail="" if not bad else "eye-size", locs=[idx.loc(td.module, td.node)])
    for kind in ("Transpose", "Adjoint"):
        if not idx.has_cls(kind):
            rep.missing_anchor(f"class {kind}")
            continue
        init = idx.find_method(idx.cls(kind), "__init__")
        if init is None or len(init.params) < 2:
            rep.undecided("generic-path", f"{kind}.__init__:shape", "no constructor with an operand found")
            continue
        a = init.params[1]
        sup = [c for c in df.calls(init.node) if isinstance(c.func, ast.Attribute) and c.func.attr == "__init__"]
        sh = next((norm_idx(nospace(k.value)) for c in sup for k in c.keywords if k.arg == "shape"), "")
        ok = sh == f"({a}.shape[1],{a}.shape[0])"
        rep.decide(ok, "generic-path", f"{kind}.__init__:shape", f"shape {sh}" + ("" if ok else " is not the operand's shape swapped"), detail="" if ok else "shape", locs=[idx.loc(init.module, init.node)])
    # ---- contractions: contracted-dimension roles and inverse axis moves
    for kind in ("Kronecker", "KronSum"):
        if not idx.has_cls(kind):
            rep.missing_anchor(f"class {kind}")
            continue
        m = idx.cls(kind).methods.get("_matmat")
        fns = [m] + helper_closure(idx, m)
        src = "".join(nospace(f.node) for f in fns)
        split_ok = any(splits_by_columns(f_) for f_ in fns)
        rep.decide(split_ok, "contraction", f"{kind}._matmat:split", "the operand is split along the factors' column sizes" if split_ok else "the operand is not split along the factors' column sizes (shape[-1])",
                   detail="" if split_ok else "split", locs=[idx.loc(m.module, m.node)])
        out_ok = "reshape(self.shape[-2]," in src or "reshape(self.shape[0]," in src or any(
            isinstance(c, ast.Call) and isinstance(c.func, ast.Attribute) and c.func.attr == "reshape" and c.args and nospace(df.resolve_value(m.node, c.args[0])) in ("self.shape[-2]", "self.shape[0]")
            for c in df.calls(m.node))
        rep.decide(out_ok, "contraction", f"{kind}._matmat:result", "the result has the operator's row count" if out_ok else "the result is not reshaped to the operator's row count", detail="" if out_ok else "rows",
                   locs=[idx.loc(m.module, m.node)])
        moves = []
        for f in fns:
            for c in df.calls(f.node):
                if df.is_xnp_call(c) == "moveaxis" and len(c.args) == 3:
                    moves.append((nospace(c.args[1]), nospace(c.args[2]), c, f))
        fwd = [mv for mv in moves if mv[1] == "0"]
        back = [mv for mv in moves if mv[0] == "0"]
        if not moves:
            rep.undecided("axis-pairing", f"{kind}._matmat", "no moveaxis calls found")
        else:
            ok = bool(fwd) and all(any(b[1] == f_[0] for b in back) for f_ in fwd) and len(fwd) == len(back) and len(fwd) + len(back) == len(moves)
            rep.decide(ok, "axis-pairing", f"{kind}._matmat", f"axis moves {[(a, b) for a, b, c, f in moves]}: " + ("every move of factor axis i to the front is undone by the inverse move" if ok else
                       "a move of an axis to the front is not undone by its inverse (moveaxis(x, 0, i)): factors beyond the second are applied along the wrong axis"),
                       detail="" if ok else "not-inverse", locs=[idx.loc(f.module, c) for a, b, c, f in moves])
    if idx.has_cls("BlockDiag"):
        # AXIS-TAINT: the pieces the operand is cut into are sized by the blocks' COLUMN counts, the pieces of the result by their ROW
        # counts -- whatever arithmetic, helper or running total computes the offsets (sa/axistaint.py)
        from sa.axistaint import AxisTaint
        bd = idx.cls("BlockDiag")
        m = bd.methods.get("_matmat")
        at = AxisTaint(idx)
        at.self_cls = bd
        x = m.params[1]
        at.operand = x
        fns = [m] + [f_ for f_ in bd.methods.values() if f_ is not m and any(isinstance(c, ast.Call) and isinstance(c.func, ast.Attribute) and c.func.attr == f_.name
                                                                           and isinstance(c.func.value, ast.Name) and c.func.value.id == "self" for c in df.calls(m.node))]
        in_axes, out_axes = set(), set()
        for f_ in fns:
            for n in df.body_nodes(f_.node):
                # slices of the operand: v[a:b]
                if f_ is m and isinstance(n, ast.Subscript) and isinstance(n.value, ast.Name) and n.value.id == x and isinstance(n.slice, ast.Slice):
                    for e in (n.slice.lower, n.slice.upper):
                        if e is not None:
                            in_axes |= set(at.flat(at.eval_in(f_, e)))
                # reshapes: before the product they arrange the operand (column sizes), after it the result (row sizes)
                if isinstance(n, ast.Call) and isinstance(n.func, ast.Attribute) and n.func.attr == "reshape":
                    recv = n.func.value
                    seen_names, after = set(), False
                    work = [recv]
                    while work:
                        e = work.pop()
                        for y in ast.walk(e):
                            if isinstance(y, ast.BinOp) and isinstance(y.op, ast.MatMult):
                                after = True
                            if isinstance(y, ast.Name) and y.id not in seen_names:
                                seen_names.add(y.id)
                                work += [v for v, p_, st in df.assignments(f_.node).get(y.id, []) if not isinstance(v, ast.AugAssign)]
                    axes = set()
                    for a_ in n.args:
                        axes |= set(at.flat(at.eval_in(f_, a_)))
                    (out_axes if after else in_axes).update(axes)
        ok = (in_axes == {1} and out_axes == {0}) if ("?" not in in_axes | out_axes and in_axes and out_axes) else (False if (0 in in_axes or 1 in out_axes) else None)
        rep.decide(ok, "contraction", "BlockDiag._matmat", "input blocks use the blocks' column sizes, output blocks their row sizes" if ok else
                   f"the operand is cut / arranged with sizes read from axes {sorted(map(str, in_axes))} of the blocks (required: columns, axis 1), the result with axes "
                   f"{sorted(map(str, out_axes))} (required: rows, axis 0)", detail="" if ok else "roles", locs=[idx.loc(m.module, m.node)])
        # BLOCK: what is done with one block -- shapes for any multiplicity, the value (a TERM) for multiplicity one
        from sa.blockeval import block_action
        acts = block_action(idx, m, x)
        # the outermost expressions only (an inner product chain is part of the outer one)
        for ok_, text_, node_ in acts:
            rep.decide(ok_, "block-action", "BlockDiag._matmat", text_, detail="" if ok_ is not False else "action", locs=[idx.loc(m.module, node_)])
        if not acts:
            rep.undecided("block-action", "BlockDiag._matmat", "no product with a block operator found")
    drm = base.methods.get("_rmatmat")
    if drm is not None:
        # the default left product transposes the linear map _matmat: the primal it is linearised at must have the shape of a forward
        # operand, (columns of A, k) with k the number of rows of X -- judged on the value handed to linear_transpose, wherever it is built
        from sa.scatter import Scatter, show as sshow
        holders = [drm] + [m_ for m_ in base.methods.values() if m_ is not drm and m_.name.startswith("_") and any(
            isinstance(c, ast.Call) and isinstance(c.func, ast.Attribute) and isinstance(c.func.value, ast.Name) and c.func.value.id == "self" and c.func.attr == m_.name for c in df.calls(drm.node))]
        found = False
        for h in holders:
            for c in [c for c in df.calls(h.node) if df.is_xnp_call(c) == "linear_transpose"]:
                found = True
                pe = next((k.value for k in c.keywords if k.arg == "primals"), c.args[1] if len(c.args) > 1 else None)
                xp = h.params[1] if len(h.params) > 1 else None
                sd = Scatter(idx)
                v = sd.eval_in(h, pe) if pe is not None else None
                shp = v[1] if isinstance(v, tuple) and v and v[0] == "zeros" else None
                want = ("tuple", (("dim", "self", 1), ("dim", xp, 0)))
                ok = True if shp == want else (False if isinstance(shp, tuple) and shp and shp[0] == "tuple" and "opaque" not in repr(shp) else None)
                rep.decide(ok, "generic-path", "LinearOperator._rmatmat:primals", "linear-transpose primal has the forward operand's shape (C, k)" if ok else
                           f"primal is {sshow(v) if v is not None else '?'}; required zeros of shape (self.shape[1], {xp}.shape[0])", detail="" if ok else "shape", locs=[idx.loc(h.module, c)])
        if not found:
            rep.undecided("generic-path", "LinearOperator._rmatmat:primals", "no linear_transpose call found in the default left product")
    # ---- blocked products: `for i in range(K)` over blocks `[i*b, (i+1)*b)` covers all N rows / columns only if K = ceil(N / b), or
    # K = floor(N / b) and the last block is extended to the end of the array (stop None on the last iteration)
    n_tile = 0
    for ci in idx.operator_classes():
        m = ci.methods.get("_matmat")
        init = ci.methods.get("__init__")
        if m is None or init is None:
            continue
        self_vals = {}
        for st in df.body_nodes(init.node):
            if isinstance(st, ast.Assign) and len(st.targets) == 1 and isinstance(st.targets[0], ast.Attribute) and isinstance(st.targets[0].value, ast.Name) and st.targets[0].value.id == "self":
                self_vals[st.targets[0].attr] = st.value
        for loop in [n for n in df.body_nodes(m.node) if isinstance(n, ast.For) and isinstance(n.target, ast.Name) and isinstance(n.iter, ast.Call) and nospace(n.iter.func) == "range"
                     and len(n.iter.args) == 1]:
            cnt = n_ = loop.iter.args[0]
            if isinstance(cnt, ast.Attribute) and isinstance(cnt.value, ast.Name) and cnt.value.id == "self" and cnt.attr in self_vals:
                cnt = self_vals[cnt.attr]
            cnt = df.resolve_value(m.node, cnt) if isinstance(cnt, ast.Name) else cnt
            if not (isinstance(cnt, ast.BinOp) and isinstance(cnt.op, ast.FloorDiv)):
                continue
            ctext = nospace(cnt)
            is_ceil = isinstance(cnt.left, ast.BinOp) and isinstance(cnt.left.op, (ast.Add, ast.Sub)) and nospace(cnt.right) in nospace(cnt.left) or ctext.startswith("-(-")
            i = loop.target.id
            # slices built from the loop index in this loop's own body (not in nested loops over another index)
            stops = []
            for n2 in ast.walk(loop):
                if isinstance(n2, ast.Call) and isinstance(n2.func, ast.Name) and n2.func.id == "slice" and len(n2.args) >= 2 and i in df.names_in(n2.args[0]):
                    stops.append(df.resolve_value(m.node, n2.args[1]) if isinstance(n2.args[1], ast.Name) else n2.args[1])
                elif isinstance(n2, ast.Slice) and n2.lower is not None and n2.upper is not None and i in df.names_in(n2.lower):
                    stops.append(df.resolve_value(m.node, n2.upper) if isinstance(n2.upper, ast.Name) else n2.upper)
            if not stops:
                continue
            n_tile += 1

            def extended(e):
                """the stop is None on the last iteration: a conditional whose None branch is guarded by a test on the loop index and the count"""
                if isinstance(e, ast.IfExp):
                    return (isinstance(e.body, ast.Constant) and e.body.value is None) or (isinstance(e.orelse, ast.Constant) and e.orelse.value is None)
                if isinstance(e, ast.Name):
                    vals = [v for v, p_, st in df.assignments(m.node).get(e.id, [])]
                    return any(isinstance(v, ast.Constant) and v.value is None for v in vals)
                return False
            ext = all(extended(e) for e in stops)
            ok = is_ceil or ext
            rep.decide(ok, "tiling", f"{ci.name}._matmat:{nospace(loop.iter)[:30]}", f"{('ceil' if is_ceil else 'floor')}({nospace(cnt)}) blocks, last block " +
                       ("extended to the end of the array" if ext else "of the uniform size") + ("" if ok else
                        ": when the block size does not divide the dimension the trailing N % b rows / columns are never visited (their part of the product is dropped)"),
                       detail="" if ok else "tail", locs=[idx.loc(m.module, loop)])
    if not n_tile:
        rep.note("tiling: no blocked product loop on this tree")
    # ---- densification overrides: a class that writes its own to_dense must return the matrix its product applies (TERM: the value of
    # to_dense against the kind's defining term read off _matmat)
    from sa.term import TermEval, equal as tequal, has_opaque as thas_opaque, norm as tnorm, show as tshow
    from sa.termutil import kind_def
    n_td = 0
    for ci in idx.operator_classes():
        tdm = ci.methods.get("to_dense")
        if tdm is None or ci.name == "LinearOperator":
            continue
        kd = kind_def(idx, ci.name, "self")
        te_ = TermEval(idx)
        te_.self_cls = ci

        def diag_payloads(t):
            if isinstance(t, tuple):
                if t and t[0] == "diag" and isinstance(t[1], tuple) and t[1] and t[1][0] == "sym":
                    yield t[1]
                for x in t[1:]:
                    yield from diag_payloads(x)
        te_.vector_syms = frozenset(diag_payloads(kd)) if kd is not None else frozenset()
        for r in [r for r in df.returns(tdm.node) if r.value is not None]:
            n_td += 1
            t = te_.eval_in(tdm, r.value)
            loc_ = [idx.loc(tdm.module, r)]
            if kd is None or thas_opaque(tnorm(t)):
                rep.undecided("to-dense", f"{ci.name}.to_dense", f"returns {tshow(tnorm(t))[:80]}; the matrix of {ci.name}._matmat is " + (tshow(tnorm(kd)) if kd is not None else "outside the term grammar"), locs=loc_)
                continue
            ok = tequal(t, kd)
            rep.decide(ok, "to-dense", f"{ci.name}.to_dense", f"returns {tshow(tnorm(t))}; {ci.name}._matmat applies {tshow(tnorm(kd))}", detail="" if ok else "mismatch", locs=loc_)
    if not n_td:
        rep.note("to-dense: no operator class overrides to_dense with a value in the term grammar on this tree")
    rep.floor("no-narrowing-store", 2)
    rep.floor("block-action", 1)
    rep.floor("result-dtype", 15)
    rep.floor("generic-path", 7)
    rep.floor("contraction", 4)
    rep.floor("axis-pairing", 2)
    rep.explanation = ("DTYPE dataflow over every _matmat/_rmatmat (which of {operator, operand} can influence a value's dtype; in-place receivers keep their dtype), DEP on composite "
                       "shapes, and DIM role checks on the generic paths and the Kronecker / KronSum / BlockDiag contractions (column sizes for the input split, row sizes for the "
                       "output, every axis move undone by its inverse).")
    rep.assumptions += ["the value of any product (Kronecker reshaping, BlockDiag slicing, Tridiagonal shifts), nesting depth and tolerances are not decided",
                        "opaque product methods: " + ", ".join(sorted(OPAQUE))]


def splits_by_columns(f):
    """`<operand>.reshape(*[<M>.shape[-1] for <M> in <factors>], -1)`: the operand is unfolded along the factors' COLUMN counts,
    whatever the comprehension variable and the factor list are called"""
    for c in df.calls(f.node):
        if not (isinstance(c.func, ast.Attribute) and c.func.attr == "reshape" and c.args and isinstance(c.args[0], ast.Starred)):
            continue
        comp = c.args[0].value
        if isinstance(comp, (ast.ListComp, ast.GeneratorExp, ast.Tuple)) and len(getattr(comp, "generators", [0])) == 1 and isinstance(comp, (ast.ListComp, ast.GeneratorExp)):
            g = comp.generators[0]
            e = comp.elt
            if isinstance(g.target, ast.Name) and isinstance(e, ast.Subscript) and isinstance(e.value, ast.Attribute) and e.value.attr == "shape" and isinstance(e.value.value, ast.Name) \
                    and e.value.value.id == g.target.id and nospace(e.slice) in ("-1", "1"):
                return True
    return False


def helper_closure(idx, m):
    out, seen = [], set()
    work = [m]
    while work:
        f = work.pop()
        for c in df.calls(f.node):
            r = idx.resolve_expr(f.module, c.func, f)
            if r is not None and r.kind == "funcs" and r.val[-1].module is m.module and getattr(r.val[-1], "rule", None) is None and id(r.val[-1].node) not in seen:
                seen.add(id(r.val[-1].node))
                out.append(r.val[-1])
                work.append(r.val[-1])
    return out
