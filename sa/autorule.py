"""Decision tables of the `Auto` base-case rules: which algorithm class is constructed under
which truth assignment of the rule's atomic conditions, exhaustiveness, and guard implication
(an algorithm whose own rule asserts A.isa(P) is only chosen where the guard implies it)."""
import ast
import itertools

from sa import dataflow as df


class Decision:
    def __init__(self, rule):
        self.rule = rule
        self.atoms = []  # canonical atom texts
        self.rows = []  # (assignment dict, chosen class names list, None if no branch)
        self.problems = []


def _atom_text(e):
    return ast.unparse(e).replace(" ", "")


class _Eval:
    def __init__(self, idx, fi, names, assignment):
        self.idx, self.fi, self.names, self.asg = idx, fi, names, assignment

    def val(self, e):
        if isinstance(e, ast.Constant):
            return e.value
        if isinstance(e, ast.BoolOp):
            vals = [self.val(v) for v in e.values]
            return all(vals) if isinstance(e.op, ast.And) else any(vals)
        if isinstance(e, ast.UnaryOp) and isinstance(e.op, ast.Not):
            return not self.val(e.operand)
        if isinstance(e, ast.BinOp) and isinstance(e.op, (ast.BitAnd, ast.BitOr)):
            a, b = self.val(e.left), self.val(e.right)
            return (a and b) if isinstance(e.op, ast.BitAnd) else (a or b)
        if isinstance(e, ast.Name) and e.id in self.names:
            return self.val(self.names[e.id])
        if isinstance(e, ast.Call) and isinstance(e.func, ast.Name) and e.func.id == "bool" and e.args:
            return self.val(e.args[0])
        if isinstance(e, ast.Tuple):
            return tuple(self.val(x) for x in e.elts)
        return self.asg[_atom_text(e)]


def _atoms_of(e, names, out):
    if isinstance(e, ast.Constant):
        return
    if isinstance(e, ast.BoolOp):
        for v in e.values:
            _atoms_of(v, names, out)
        return
    if isinstance(e, ast.UnaryOp) and isinstance(e.op, ast.Not):
        return _atoms_of(e.operand, names, out)
    if isinstance(e, ast.BinOp) and isinstance(e.op, (ast.BitAnd, ast.BitOr)):
        _atoms_of(e.left, names, out)
        _atoms_of(e.right, names, out)
        return
    if isinstance(e, ast.Name) and e.id in names:
        return _atoms_of(names[e.id], names, out)
    if isinstance(e, ast.Call) and isinstance(e.func, ast.Name) and e.func.id == "bool" and e.args:
        return _atoms_of(e.args[0], names, out)
    if isinstance(e, ast.Tuple):
        for x in e.elts:
            _atoms_of(x, names, out)
        return
    t = _atom_text(e)
    if t not in out:
        out.append(t)


def _constructed(idx, fi, stmts, ev=None):
    """algorithm classes constructed in these statements (assigned or passed on) under the truth assignment of `ev`: conditional
    expressions are followed along the branch their test selects, and a class may be bound to a local first
    (`krylov = Lanczos if SA else Arnoldi; alg = krylov(...)`).  '?' stands for a call through a local that could not be resolved."""
    algs = {c.name for c in idx.algorithm_classes()}
    out = []
    local = {}

    def pick(e):
        """sub-expressions of e that are evaluated under ev"""
        if isinstance(e, ast.IfExp) and ev is not None:
            try:
                return pick(e.body if ev.val(e.test) else e.orelse)
            except KeyError:
                return pick(e.body) + pick(e.orelse)
        if isinstance(e, ast.IfExp):
            return pick(e.body) + pick(e.orelse)
        return [e]

    def classes_of(e):
        names = []
        for x in pick(e):
            r = idx.resolve_expr(fi.module, x, fi) if isinstance(x, (ast.Name, ast.Attribute)) and not (isinstance(x, ast.Name) and x.id in local) else None
            if r is not None and r.kind == "class":
                names.append(r.val.name)
            elif isinstance(x, ast.Name) and x.id in local:
                names += classes_of(local[x.id])
            else:
                names.append("?")
        return names

    def visit(e):
        for x in pick(e):
            if isinstance(x, ast.Call):
                for cn in classes_of(x.func):
                    if cn in algs or (cn == "?" and isinstance(x.func, ast.Name) and x.func.id in local):
                        out.append(cn)
                for a_ in list(x.args) + [k.value for k in x.keywords]:
                    visit(a_)
            else:
                for c in ast.iter_child_nodes(x):
                    if isinstance(c, ast.expr):
                        visit(c)

    for st in stmts:
        if isinstance(st, ast.Assign) and len(st.targets) == 1 and isinstance(st.targets[0], ast.Name):
            local[st.targets[0].id] = st.value
        for c in ast.iter_child_nodes(st):
            if isinstance(c, ast.expr):
                visit(c)
            elif isinstance(c, ast.stmt):
                for y in ast.walk(c):
                    if isinstance(y, ast.Call):
                        visit(y)
    return out


def decision_table(idx, rule):
    return decision_table_of_function(idx, rule, rule.func)


def decision_table_of_function(idx, rule, fi):
    """decision table of `fi` (the Auto rule itself, or the helper it delegates the choice to): the function body is executed once per
    consistent truth assignment of its atomic conditions -- if/elif/else at any depth, early returns, match statements and conditional
    expressions all select the path -- and the algorithm classes constructed along the path are the row"""
    d = Decision(rule)
    body = [s for s in fi.node.body if not (isinstance(s, ast.Expr) and isinstance(s.value, ast.Constant))]

    def own_nodes(stmts):
        for st in stmts:
            stack = [st]
            while stack:
                n = stack.pop()
                if isinstance(n, (ast.FunctionDef, ast.AsyncFunctionDef, ast.ClassDef, ast.Lambda)):
                    continue
                yield n
                stack.extend(ast.iter_child_nodes(n))

    deciders = [n for n in own_nodes(body) if isinstance(n, (ast.If, ast.Match, ast.IfExp))]
    if not any(isinstance(n, (ast.If, ast.Match)) for n in deciders) and not any(isinstance(n, ast.IfExp) for n in deciders):
        # the choice lives in a helper the rule calls: tabulate the helper instead
        for st in body:
            for c in [x for x in ast.walk(st) if isinstance(x, ast.Call)]:
                r = idx.resolve_expr(fi.module, c.func, fi)
                if r is not None and r.kind == "funcs" and getattr(r.val[-1], "rule", None) is None and r.val[-1].module is fi.module \
                        and any(isinstance(x, (ast.If, ast.Match, ast.IfExp)) for x in ast.walk(r.val[-1].node)):
                    sub = decision_table_of_function(idx, rule, r.val[-1])
                    if not sub.problems:
                        return sub
        d.problems.append("no if/elif or match statement found in the Auto rule")
        return d
    names = {}
    for n in own_nodes(body):
        if isinstance(n, ast.Assign) and len(n.targets) == 1:
            t = n.targets[0]
            if isinstance(t, ast.Name):
                names.setdefault(t.id, []).append(n.value)
            elif isinstance(t, ast.Tuple) and isinstance(n.value, ast.Tuple) and len(t.elts) == len(n.value.elts):
                for a, b in zip(t.elts, n.value.elts):
                    if isinstance(a, ast.Name):
                        names.setdefault(a.id, []).append(b)
    # only singly-bound names stand for their value; parameter names re-bound to the chosen algorithm are not conditions
    param_like = {p[0] for p in rule.params} | set(fi.params)
    names = {k: v[0] for k, v in names.items() if len(v) == 1 and not (k in param_like and _is_ctor(idx, fi, v[0]))}
    atoms = []
    for n in deciders:
        _atoms_of(n.subject if isinstance(n, ast.Match) else n.test, names, atoms)
    d.atoms = atoms
    if len(atoms) > 6:
        d.problems.append(f"{len(atoms)} atomic conditions: too many to tabulate")
        return d

    class Unreachable(Exception):
        pass

    def run(stmts, ev, path):
        """True when the path left the function"""
        for st in stmts:
            if isinstance(st, ast.If):
                if run(st.body if ev.val(st.test) else st.orelse, ev, path):
                    return True
            elif isinstance(st, ast.Match):
                subj = ev.val(st.subject)
                for case in st.cases:
                    if _match(case.pattern, subj) and (case.guard is None or ev.val(case.guard)):
                        if run(case.body, ev, path):
                            return True
                        break
            elif isinstance(st, ast.Assert) and isinstance(st.test, ast.Constant) and st.test.value is False:
                raise Unreachable()
            else:
                path.append(st)
                if isinstance(st, (ast.Return, ast.Raise)):
                    return True
        return False

    for vals in itertools.product([True, False], repeat=len(atoms)):
        asg = dict(zip(atoms, vals))
        if not _consistent(idx, fi, asg):
            continue
        ev = _Eval(idx, fi, names, asg)
        path = []
        try:
            run(body, ev, path)
        except Unreachable:
            d.rows.append((asg, "UNREACHABLE"))
            continue
        except KeyError as e:
            d.problems.append(f"a branch condition is not a combination of the tabulated atoms: {e}")
            return d
        d.rows.append((asg, _constructed(idx, fi, path, ev)))
    return d


def _is_ctor(idx, fi, v):
    if isinstance(v, ast.Call):
        r = idx.resolve_expr(fi.module, v.func, fi)
        return r is not None and r.kind == "class"
    return False


def _match(pattern, subj):
    if isinstance(pattern, ast.MatchAs) and pattern.pattern is None:
        return True
    if isinstance(pattern, ast.MatchSingleton):
        return subj is pattern.value
    if isinstance(pattern, ast.MatchValue) and isinstance(pattern.value, ast.Constant):
        return subj == pattern.value.value
    if isinstance(pattern, ast.MatchSequence):
        if not isinstance(subj, tuple) or len(subj) != len(pattern.patterns):
            return False
        return all(_match(p, s) for p, s in zip(pattern.patterns, subj))
    return False


def isa_atoms(idx, fi, asg):
    """atoms of the form X.isa(P) -> (operand name, annotation class name, value)"""
    out = []
    for t, v in asg.items():
        try:
            e = ast.parse(t, mode="eval").body
        except SyntaxError:
            continue
        if isinstance(e, ast.Call) and isinstance(e.func, ast.Attribute) and e.func.attr == "isa" and isinstance(e.func.value, ast.Name) and e.args:
            r = idx.resolve_expr(fi.module, e.args[0], fi)
            if r is not None and r.kind == "class":
                out.append((e.func.value.id, r.val.name, v))
    return out


def _consistent(idx, fi, asg):
    facts = isa_atoms(idx, fi, asg)
    for who, ann, v in facts:
        if not v:
            continue
        anc = [c.name for c in idx.mro(idx.cls(ann))] if idx.has_cls(ann) else [ann]
        for who2, ann2, v2 in facts:
            if who2 == who and ann2 in anc and not v2:
                return False
    return True


def required_annotations(idx, res, fname, alg_pos, alg_cls):
    """annotations that the rule selected for (LinearOperator, ..., alg_cls, ...) asserts on its operator argument"""
    out = []
    for r in res.rules_of(fname):
        if alg_pos < len(r.params) and r.params[alg_pos][1] and alg_cls in r.params[alg_pos][1] or \
                (alg_pos < len(r.params) and any(res.sub(alg_cls, t) for t in r.params[alg_pos][1]) and "Algorithm" not in r.params[alg_pos][1] and "Auto" not in r.params[alg_pos][1]):
            for st in r.node.body:
                if isinstance(st, ast.Assert) and isinstance(st.test, ast.Call) and isinstance(st.test.func, ast.Attribute) and st.test.func.attr == "isa" and st.test.args:
                    rr = idx.resolve_expr(r.module, st.test.args[0], r.func)
                    if rr is not None and rr.kind == "class":
                        out.append((rr.val.name, r))
    return out


def check_auto(idx, res, rep, fname, alg_pos, rule_name="auto-rule"):
    """obligations for every Auto rule of `fname`: exhaustive, and guard implication"""
    autos = [r for r in res.rules_of(fname) if alg_pos < len(r.params) and r.params[alg_pos][1] == frozenset({"Auto"})]
    if not autos:
        rep.missing_anchor(f"Auto base case of {fname}")
        return
    for rule in autos:
        d = decision_table(idx, rule)
        construct = rule.role
        if d.problems:
            rep.undecided(rule_name, construct, d.problems[0], locs=[rule.loc])
            continue
        holes = [asg for asg, ch in d.rows if ch is None or ch == [] or ch == "UNREACHABLE"]
        if holes:
            rep.refuted(rule_name, construct + ":exhaustive", f"no algorithm is chosen when {holes[0]} (the call would recurse on Auto forever or fall through)",
                        detail="hole", locs=[rule.loc], derivation=[str(h) for h in holes[:4]])
        else:
            rep.proved(rule_name, construct + ":exhaustive", f"{len(d.rows)} consistent truth assignments of {d.atoms} each construct an algorithm", locs=[rule.loc])
        bad = []
        n = 0
        for asg, chosen in d.rows:
            if not chosen or chosen == "UNREACHABLE":
                continue
            facts = isa_atoms(idx, rule.func, asg)
            for cls in chosen:
                if cls == "?":
                    continue
                for need, r2 in required_annotations(idx, res, fname, alg_pos, cls):
                    n += 1
                    holds = False
                    for who, ann, v in facts:
                        if v and idx.has_cls(ann) and need in [c.name for c in idx.mro(idx.cls(ann))]:
                            holds = True
                    if not holds:
                        bad.append((cls, need, asg, r2))
        if bad:
            cls, need, asg, r2 = bad[0]
            rep.refuted(rule_name, construct + ":guard-implication", f"{cls} is chosen when {asg}, but {r2.role} asserts A.isa({need}), which that branch does not imply",
                        detail=f"{cls}:{need}", locs=[rule.loc, r2.loc])
        else:
            rep.proved(rule_name, construct + ":guard-implication", f"{n} (chosen algorithm, asserted annotation) pairs are implied by the branch guard", locs=[rule.loc], nontrivial=n > 0)
