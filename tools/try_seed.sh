#!/bin/sh
# usage: try_seed.sh <seed dir with patch.diff> <Cxx> [<Cyy> ...]   -- applies the patch to /repo, runs the checks, reverts
d="$(cd "$1" && pwd)"; shift
cd /repo || exit 2
if ! git diff --quiet; then echo "repo dirty"; exit 2; fi
if ! git apply --check "$d/patch.diff" 2>/dev/null; then echo "PATCH DOES NOT APPLY: $d"; exit 3; fi
git apply "$d/patch.diff"
ev=$(mktemp -d /tmp/ev.XXXXXX)
for p in "$@"; do
  out=$(/verif/check "$p" --evidence-dir "$ev" 2>&1); rc=$?
  echo "--- $p exit=$rc"
  echo "$out" | grep -E "^(REFUTED|VIOLATION|ANALYSIS|KNOWN)" | cut -c1-260 | head -12
done
git checkout -- . ; rm -rf "$ev"
