"""C10 — eig (DESIGN.md section 4, C10): selection mechanism (ORDER provenance of the sliced spectrum),
paired permutation / slicing of values and vectors, eigmax / eigmin / power-iteration contracts, Auto table."""
import ast

from sa import dataflow as df
from sa.absint import AbsInt
from sa.autorule import check_auto
from sa.resolver import Resolver

ASC_ALG, ASC_MAG, UNORD, CONST, UNK = "ascending-algebraic", "ascending-magnitude", "unordered", "constant", "unknown"


class Order(AbsInt):
    """abstract values: ('spec', order) | ('absof', v) | ('idx', 'alg'|'mag'|'slice'|'unk') | ('tuple', ..) | ('unknown', why)"""
    def const(self, node):
        return ("const", repr(node.value))

    def param(self, fi, name):
        return ("param", name)

    def spec_alts(self, v):
        return [a for a in self.alternatives(v) if isinstance(a, tuple) and a and a[0] == "spec"]

    def attribute(self, base, attr, node, ctx):
        if attr in ("diag", ):
            return ("spec", UNORD)  # an operator payload: any order
        if attr in ("real", ):
            return base
        return self.unknown(f".{attr}")

    def subscript(self, base, node, ctx):
        sl = node.slice
        if any(isinstance(a, tuple) and a and a[0] == "tuple" for a in self.alternatives(base)) and isinstance(sl, ast.Constant) and isinstance(sl.value, int):
            return self.index(base, sl.value)
        idxs = list(sl.elts) if isinstance(sl, ast.Tuple) else [sl]
        last = idxs[-1]
        specs = self.spec_alts(base)
        if not specs:
            return self.unknown("subscript")
        if isinstance(last, ast.Slice):
            return self.join(specs)
        iv = self.ev(last, ctx)
        outs = []
        for a in self.alternatives(iv):
            if isinstance(a, tuple) and a[0] == "idx":
                if a[1] == "alg":
                    outs.append(("spec", ASC_ALG))
                elif a[1] == "mag":
                    outs.append(("spec", ASC_MAG))
                elif a[1] == "desc":
                    outs.append(("spec", "descending"))
                elif a[1] == "slice":
                    outs += specs
                else:
                    outs.append(("spec", UNK))
            else:
                outs.append(("spec", UNK))
        return self.join(outs)

    def call_xnp(self, name, node, args, kwargs, ctx):
        if name == "eigh":
            return ("tuple", (("spec", ASC_ALG), ("vecs", "eigh")))
        if name == "eig":
            return ("tuple", (("spec", UNORD), ("vecs", "eig")))
        if name in ("ones", "zeros"):
            return ("spec", CONST)
        if name == "abs":
            return ("absof", args[0]) if args else self.unknown("abs")
        if name == "argsort":
            a = args[0] if args else None
            if a is not None and all(isinstance(x, tuple) and x[0] == "absof" for x in self.alternatives(a)):
                return ("idx", "mag")
            if a is not None and any(isinstance(x, tuple) and x[0] == "negof" for x in self.alternatives(a)):
                return ("idx", "desc")
            if kwargs.get("descending") is not None and kwargs["descending"] != ("const", "False"):
                return ("idx", "desc")
            return ("idx", "alg")
        if name == "sort":
            return ("spec", ASC_ALG)
        if name in ("array", "cast", "copy", "conj", "sqrt"):
            return args[0] if args else self.unknown(name)
        return self.unknown(f"xnp.{name}")

    def unaryop(self, node, v, ctx):
        if isinstance(node.op, ast.USub):
            return ("negof", v)
        return self.unknown("unary")

    def call_external(self, dotted, node, args, kwargs, ctx):
        tail = dotted.rsplit(".", 1)[-1]
        if tail in ("copy", "array", "asarray"):
            return args[0] if args else self.unknown(dotted)
        if tail in ("lobpcg", "eigs", "eigsh"):
            return ("tuple", (("spec", UNK), ("vecs", "external")))
        if tail == "diag":
            return ("spec", UNORD)
        return self.unknown(dotted)

    def call_dispatch(self, fname, node, args, kwargs, ctx):
        if fname == "diag":
            return ("spec", UNORD)
        return self.unknown(f"{fname}()")

    def call_builtin(self, name, node, args, kwargs, ctx):
        if name == "slice":
            return ("idx", "slice")
        return self.unknown(f"{name}()")

    def follow_callee(self, callee):
        return True

    def eval_function(self, callee, call, args, kwargs, ctx, skip_first=False):
        if callee.name == "get_slice":
            return ("idx", "slice")
        return super().eval_function(callee, call, args, kwargs, ctx, skip_first)


def nospace(n):
    return ast.unparse(n).replace(" ", "")


def index_names(fi):
    """names bound to an argsort ('perm') / get_slice ('slice') result; an argsort written inline as a subscript index (a permutation
    used once: the normal form inlines its name) is given the synthetic name `<argsort@k>`"""
    out = {}
    for name, vals in df.assignments(fi.node).items():
        for v, p, st in vals:
            if isinstance(v, ast.Call) and p is None:
                f = ast.unparse(v.func)
                if f.endswith("argsort"):
                    out[name] = "perm"
                elif f.endswith("get_slice"):
                    out[name] = "slice"
    for k, c in enumerate(_inline_argsorts(fi)):
        out[f"<argsort@{k}>"] = "perm"
    return out


def _inline_argsorts(fi):
    out = []
    for n in df.body_nodes(fi.node):
        if isinstance(n, ast.Subscript):
            idxs = list(n.slice.elts) if isinstance(n.slice, ast.Tuple) else [n.slice]
            for e in idxs:
                if isinstance(e, ast.Call) and ast.unparse(e.func).endswith("argsort") and not any(e is x for x in out):
                    out.append(e)
    return out


def perm_source_calls(fi, name):
    """the argsort call(s) a permutation name stands for"""
    if name.startswith("<argsort@"):
        k = int(name[len("<argsort@"):-1])
        calls = _inline_argsorts(fi)
        return [calls[k]] if k < len(calls) else []
    return [v_ for v_, p_, st_ in df.assignments(fi.node).get(name, []) if isinstance(v_, ast.Call) and v_.args]


def uses_of(fi, name):
    """how an index name is used: list of (kind, text) with kind in col / row / vec / other"""
    out = []
    for n in df.body_nodes(fi.node):
        if isinstance(n, ast.Subscript):
            idxs = list(n.slice.elts) if isinstance(n.slice, ast.Tuple) else [n.slice]
            inline = perm_source_calls(fi, name) if name.startswith("<argsort@") else []
            pos = [i for i, e in enumerate(idxs) if (isinstance(e, ast.Name) and e.id == name) or any(e is c_ for c_ in inline)]
            if not pos:
                continue
            if len(idxs) == 1:
                out.append(("vec", ast.unparse(n)))
            elif pos[0] == len(idxs) - 1:
                first = idxs[0]
                is_full = isinstance(first, ast.Slice) and first.lower is None and first.upper is None
                is_ell = isinstance(first, ast.Constant) and first.value is Ellipsis
                out.append(("col" if is_full else ("vec" if is_ell else "other"), ast.unparse(n)))
            else:
                out.append(("row", ast.unparse(n)))
        elif isinstance(n, ast.Call) and not isinstance(getattr(n, "_parent", None), ast.Assign) or isinstance(n, ast.Call):
            if any(isinstance(a, ast.Name) and a.id == name for a in n.args) and not ast.unparse(n.func).endswith(("argsort", "get_slice")):
                out.append(("call", ast.unparse(n)[:60]))
    return out


def run(idx, rep, tier):
    core = frozenset(idx.core_modules())
    res = Resolver(idx, core)
    # ---- get_slice: SM -> first k, LM -> last k
    gs = idx.funcs_named("get_slice")
    if not gs:
        rep.missing_anchor("get_slice")
    else:
        f = gs[-1]
        num = f.params[0]
        table = {}
        for c in [x for x in df.body_nodes(f.node) if isinstance(x, ast.Call) and nospace(x.func) == "slice"]:
            # the request this slice is built for: the enclosing condition `which == '<X>'` that holds here (either branch polarity)
            for t, pol in df.branch_conditions(c, f.node):
                if pol and isinstance(t, ast.Compare) and len(t.ops) == 1 and isinstance(t.ops[0], ast.Eq) and isinstance(t.comparators[0], ast.Constant) and isinstance(t.comparators[0].value, str):
                    table[t.comparators[0].value] = [nospace(a) for a in c.args]
                    break
        asg = df.assignments(f.node)
        lm = table.get("LM", [])

        def alts(e, depth=0):
            """the values an expression may take: both sides of a conditional expression, every binding of a local name"""
            if isinstance(e, ast.IfExp):
                return alts(e.body, depth) | alts(e.orelse, depth)
            if isinstance(e, ast.Name) and e.id in asg and depth < 4:
                return set().union(*[alts(v, depth + 1) for v, p_, st_ in asg[e.id]])
            return {nospace(e)}
        lm_call = next((c for c in df.body_nodes(f.node) if isinstance(c, ast.Call) and nospace(c.func) == "slice" and [nospace(a) for a in c.args] == lm), None)
        lm_start = alts(lm_call.args[0]) if lm_call is not None and lm_call.args else set()
        ok_sm = table.get("SM", [None, None])[:2] == ["0", num] or table.get("SM", [None, None])[:2] == ["None", num]
        # the last k entries: the start is -k (and -1 only as the stand-in for an unspecified k)
        ok_lm = bool(lm) and f"-{num}" in lm_start and lm_start <= {f"-{num}", "-1"} and lm[1:2] == ["None"]
        rep.decide(ok_sm and ok_lm, "selection", "get_slice", f"SM -> slice({', '.join(table.get('SM', []))}), LM -> slice({', '.join(lm)})" + ("" if ok_sm and ok_lm else "; required SM = first k, LM = last k"),
                   detail="" if ok_sm and ok_lm else "slice", locs=[idx.loc(f.module, f.node)])
    # ---- every eig rule
    od = Order(idx)
    rules = res.rules_of("eig")
    from sa.autorule import arity_obligations
    arity_obligations(idx, rep, rules)
    if not rules:
        rep.missing_anchor("dispatched function eig")
    helper_fns = set()
    for rule in rules:
        fi = rule.func
        algs = sorted(rule.types[3]) if len(rule.params) > 3 else []
        construct = rule.role
        if algs == ["Auto"]:
            continue
        if algs == ["PowerIteration"]:
            kp, wp = rule.params[1][0], rule.params[2][0]
            ok = any(isinstance(st, ast.Assert) and nospace(st.test) in (f"{kp}==1and{wp}=='LM'", f"{wp}=='LM'and{kp}==1") for st in fi.node.body)
            rep.decide(ok, "power-iteration", construct, "refuses anything but k = 1, which = 'LM'" if ok else "does not refuse other (k, which) requests", detail="" if ok else "contract", locs=[rule.loc])
            continue
        # ---- DTYPE: the eigenvectors of a general matrix are complex (conjugate pairs of a real matrix): no exit may convert the
        # output of the general dense decomposition to the operator's own dtype
        from sa.dtype import DType
        dt = DType(idx, None, op_names={rule.params[0][0]})
        for r in [r for r in df.returns(fi.node) if r.value is not None]:
            dt.eval_in(fi, r.value)
        seen_cast = set()
        for node_, f_, val, tgt, lost in dt.casts:
            if id(node_) in seen_cast or "complexified" not in val:
                continue
            seen_cast.add(id(node_))
            narrowed = "complexified" in lost
            rep.decide(not narrowed, "complex-eigenvectors", f"{construct}:cast", f"`{ast.unparse(node_)[:70]}` converts the output of the general eigen-decomposition to " +
                       ("a dtype that is complex whenever that output is" if not narrowed else
                        "the operator's dtype: for a real operator with complex-conjugate eigenvalue pairs the imaginary parts of the eigenvectors are discarded (A v != lambda v)"),
                       detail="" if not narrowed else "real-cast", locs=[idx.loc((f_ or fi).module, node_)])
        # ---- TERM: the matrix handed to the dense backend decomposition is A itself (eigh: under H(A) = A, its contract)
        from sa.term import TermEval, equal, norm as tnorm, opaque_text, show as tshow, sym
        a = rule.params[0][0]
        n_dec = 0
        for c in df.calls(fi.node):
            backend = df.is_xnp_call(c)
            if backend in ("eigh", "eig") and c.args:
                n_dec += 1
                hyp = frozenset({("herm", sym(a))}) if backend == "eigh" else frozenset()
                t = TermEval(idx).eval_in(fi, c.args[0])
                okd = equal(t, sym(a), hyp)
                rep.decide(okd, "decomposition-operand", f"{construct}:{backend}#{n_dec}", f"xnp.{backend} is applied to {tshow(tnorm(t, hyp))}; required {a}" + (" (under H(A) = A)" if hyp else "") +
                           (f" [outside the grammar: {opaque_text(tnorm(t))}]" if okd is None else ""), detail="" if okd else "operand", locs=[idx.loc(fi.module, c)])
        if sorted(rule.types[0]) == ["Triangular"]:
            triangular_orientation(idx, rep, rule)
        rets = [r for r in df.returns(fi.node) if r.value is not None and isinstance(r.value, ast.Tuple) and len(r.value.elts) == 2]
        if not rets:
            rep.undecided("spectrum-order", construct, "rule does not return a (values, vectors) pair")
            continue
        for r in rets:
            vals, vecs = r.value.elts
            loc = idx.loc(fi.module, r)
            # ---- slice pairing
            sel = index_names(fi)
            sv = vals.slice if isinstance(vals, ast.Subscript) else None
            inner = vecs
            while isinstance(inner, ast.Call) and inner.args:
                inner = inner.args[0]
            sw = inner.slice if isinstance(inner, ast.Subscript) else None
            if isinstance(sv, ast.Name) and sel.get(sv.id) == "slice":
                col = isinstance(sw, ast.Tuple) and len(sw.elts) == 2 and isinstance(sw.elts[1], ast.Name) and sw.elts[1].id == sv.id \
                    and isinstance(sw.elts[0], ast.Slice) and sw.elts[0].lower is None and sw.elts[0].upper is None
                rep.decide(True if col else False, "slice-pairing", construct, f"values `{ast.unparse(vals)}` and vectors `{ast.unparse(inner)[:40]}` " +
                           ("are cut by the same slice (columns)" if col else "are not cut by the same slice on the column axis"), detail="" if col else "slice", locs=[loc])
                # ---- order of the sliced spectrum
                v = od.eval_in(fi, vals.value)
                specs = od.spec_alts(v)
                orders = sorted({s[1] for s in specs}) if specs and len(specs) == len(od.alternatives(v)) else []
                if not orders or UNK in orders:
                    rep.undecided("spectrum-order", construct, f"order of `{ast.unparse(vals.value)}` unknown ({[repr(a) for a in od.alternatives(v)][:3]})", locs=[loc])
                elif all(o in (ASC_MAG, CONST) for o in orders):
                    rep.proved("spectrum-order", construct, f"`{ast.unparse(vals.value)}` is in {orders[0]} order when get_slice cuts it", locs=[loc])
                else:
                    o = next(x for x in orders if x not in (ASC_MAG, CONST))
                    rep.refuted("spectrum-order", construct, f"get_slice takes the first / last k entries of `{ast.unparse(vals.value)}`, which is in {o} order: 'LM'/'SM' need ascending magnitude "
                                "(witness: spectrum {-5, 1, 2}: 'LM' must give -5)", detail=o, locs=[loc])
            else:
                rep.undecided("slice-pairing", construct, "values are not cut by a get_slice result", locs=[loc])
        for c in df.calls(fi.node):
            rr = idx.resolve_expr(fi.module, c.func, fi)
            if rr is not None and rr.kind == "funcs" and rr.val[-1].name in ("lanczos_eigs", "arnoldi_eigs", "lobpcg"):
                helper_fns.add(rr.val[-1])
    # ---- paired permutation in rules and helpers (and the plain functions of the same module the helpers delegate to)
    from sa.krylov import closure as _closure
    for h_ in list(helper_fns):
        helper_fns |= {g for g in _closure(idx, h_, same_module=True) if getattr(g, "rule", None) is None}
    for fi in [r.func for r in rules] + sorted(helper_fns, key=lambda f: f.qual):
        sel = index_names(fi)
        for name, kind in sorted(sel.items()):
            if kind != "perm":
                continue
            uses = uses_of(fi, name)
            if not uses:
                continue
            construct = f"{getattr(fi, 'rule', None).role if getattr(fi, 'rule', None) else fi.short}:{name}"
            # the argsort of values that are already ascending (the output of eigh) is the identity: whatever it is applied to, or not
            # applied to, nothing moves
            src_calls = perm_source_calls(fi, name)
            arg_orders = {a_[1] for c_ in src_calls for a_ in od.spec_alts(od.eval_in(fi, c_.args[0]))}
            if src_calls and arg_orders == {ASC_ALG} and all(df.is_xnp_call(c_) == "argsort" and not any(k_.arg == "descending" for k_ in c_.keywords) for c_ in src_calls):
                rep.proved("paired-permutation", construct, f"`{name}` sorts values that are already in ascending order: the identity permutation", locs=[idx.loc(fi.module, fi.node)])
                continue
            vec_uses = [u for u in uses if u[0] == "vec"]
            col_uses = [u for u in uses if u[0] == "col"]
            bad = [u for u in uses if u[0] in ("row", "other")]
            calls_ = [u for u in uses if u[0] == "call"]
            for u in calls_:
                # Permutation(p) gathers rows (its _matmat is v[self.perm]): its dense form is I[p, :]
                perm_rows = idx.has_cls("Permutation") and any(isinstance(r.value, ast.Subscript) and nospace(r.value.slice) == "self.perm"
                                                                for r in df.returns(idx.cls("Permutation").methods["_matmat"].node)) if idx.has_cls("Permutation") and "_matmat" in idx.cls("Permutation").methods else False
                is_perm = u[1].startswith(("Permutation(", "cola.ops.Permutation("))
                transposed = any(isinstance(n, ast.Attribute) and n.attr in ("T", "H") and u[1][:20] in ast.unparse(n.value) for n in df.body_nodes(fi.node))
                if is_perm and perm_rows and not transposed:
                    bad.append(("permutation-operator", u[1]))
                elif not vec_uses or not col_uses:
                    rep.undecided("paired-permutation", construct, f"index `{name}` is passed to `{u[1]}`", locs=[idx.loc(fi.module, fi.node)])
            loc = idx.loc(fi.module, fi.node)
            if bad:
                rep.refuted("paired-permutation", construct, f"index `{name}` (argsort of the values) reaches the vectors through `{bad[0][1]}`: a row permutation / permutation operator "
                            "is the transpose of the required column permutation (they agree only for involutions)", detail=bad[0][0], locs=[loc])
            elif vec_uses and col_uses:
                rep.proved("paired-permutation", construct, f"values `{vec_uses[0][1]}` and vector columns `{col_uses[0][1]}` are permuted by the same index", locs=[loc])
            elif vec_uses and not col_uses:
                rep.refuted("paired-permutation", construct, f"values are re-ordered by `{name}` but the vector columns are not", detail="unpaired", locs=[loc])
            else:
                rep.undecided("paired-permutation", construct, f"uses of `{name}`: {uses[:3]}", locs=[loc])
    # ---- eigmax / eigmin
    for fname, which in (("eigmax", "LM"), ("eigmin", "SM")):
        fs = [f for f in idx.funcs_named(fname) if f.module.name in core]
        if not fs:
            rep.missing_anchor(fname)
            continue
        f = fs[-1]
        calls = [c for c in df.calls(f.node) if isinstance(c.func, ast.Name) and c.func.id == "eig"]
        kw = {k.arg: nospace(k.value) for c in calls for k in c.keywords}
        pos = [nospace(a) for c in calls for a in c.args]
        ok = bool(calls) and (kw.get("k") == "1" or pos[1:2] == ["1"]) and (kw.get("which") == f"'{which}'" or pos[2:3] == [f"'{which}'"]) and \
            (kw.get("alg") == f.params[1] or pos[3:4] == [f.params[1]])
        rep.decide(ok, "eig-wrapper", fname, f"calls eig(A, k={kw.get('k')}, which={kw.get('which')}, alg={kw.get('alg')})" + ("" if ok else f"; required k=1, which='{which}', the caller's alg"),
                   detail="" if ok else "args", locs=[idx.loc(f.module, f.node)])
    check_auto(idx, res, rep, "eig", 3)
    rep.floor("decomposition-operand", 2)
    rep.floor("spectrum-order", 7)
    rep.floor("slice-pairing", 8)
    rep.floor("paired-permutation", 4)
    rep.floor("eig-wrapper", 2)
    rep.explanation = ("ORDER provenance: get_slice takes the first (SM) / last (LM) k entries, so the spectrum it cuts must be in ascending-magnitude order; backend facts: eigh -> "
                       "ascending algebraic, eig -> unordered, x[argsort(x)] -> ascending algebraic, x[argsort(abs(x))] -> ascending magnitude. Pairing: an argsort index applied to the "
                       "values must be applied to the vector columns (`[:, idx]`), and values / vectors are cut by the same slice.")
    rep.assumptions += ["that returned pairs satisfy A v = lambda v, convergence and linear independence are numerical and not decided"]


# ------------------------------------------------------------------------------------------------
def helper_orientation(h):
    """which strict triangle of its (first) matrix parameter a back-substitution helper reads: 'upper' (L[:i, i]: rows above the
    diagonal of column i), 'lower' (L[i+1:, i] / L[i, :i]), 'both' or None"""
    if not h.params:
        return None
    m = h.params[0]
    seen = set()
    for n in df.body_nodes(h.node):
        if isinstance(n, ast.Subscript) and isinstance(n.value, ast.Name) and n.value.id == m and isinstance(n.slice, ast.Tuple) and len(n.slice.elts) == 2:
            r, c = n.slice.elts
            if isinstance(r, ast.Slice) and isinstance(c, ast.Name):
                # rows [:i] of column i -> above the diagonal ; rows [i+1:] / [i:] of column i -> below
                if r.lower is None and r.upper is not None and nospace(r.upper) == c.id:
                    seen.add("upper")
                elif r.upper is None and r.lower is not None and c.id in nospace(r.lower):
                    seen.add("lower")
            elif isinstance(c, ast.Slice) and isinstance(r, ast.Name):
                if c.lower is None and c.upper is not None and nospace(c.upper) == r.id:
                    seen.add("lower")
                elif c.upper is None and c.lower is not None and r.id in nospace(c.lower):
                    seen.add("upper")
    if seen == {"upper"}:
        return "upper"
    if seen == {"lower"}:
        return "lower"
    return "both" if seen else None


def triangular_orientation(idx, rep, rule):
    """eig(Triangular): the eigenvectors of an upper- and of a lower-triangular matrix are obtained by different back-substitutions
    (zeros below resp. above the pivot), and transposing does not convert one problem into the other.  A helper that reads one
    strict triangle only is correct for that orientation only, so the payload it receives must have it: the rule has to consult
    the operator's `lower` flag and must not hand lower-triangular data (A.A under lower=True, or A.A.T under lower=False) to an
    upper-only helper (or vice versa)."""
    fi = rule.func
    a = rule.params[0][0]
    asg = df.assignments(fi.node)

    def data_orient(e, flag):
        """orientation of expression e when A.lower == flag: 'lower' / 'upper' / None"""
        t = nospace(e)
        if isinstance(e, ast.Call) and e.args and nospace(e.func) in ("np.array", "np.asarray", "numpy.array", "numpy.asarray"):
            return data_orient(e.args[0], flag)
        if t == f"{a}.A":
            return "lower" if flag else "upper"
        if isinstance(e, ast.Attribute) and e.attr == "T":
            o = data_orient(e.value, flag)
            return {"lower": "upper", "upper": "lower"}.get(o)
        if isinstance(e, ast.IfExp):
            tt = nospace(e.test)
            if tt == f"{a}.lower":
                return data_orient(e.body if flag else e.orelse, flag)
            if tt in (f"not{a}.lower", f"(not{a}.lower)"):
                return data_orient(e.orelse if flag else e.body, flag)
            return None
        if isinstance(e, ast.Name):
            # the bindings that can hold when A.lower == flag (a binding under `if A.lower:` / its else holds for one value only)
            vals = []
            for v, p, st in asg.get(e.id, []):
                if p is not None or isinstance(v, ast.AugAssign):
                    continue
                compatible = True
                for t_, pol in df.branch_conditions(st, fi.node):
                    if nospace(t_) == f"{a}.lower" and pol != flag:
                        compatible = False
                if compatible:
                    vals.append(v)
            os_ = {data_orient(v, flag) for v in vals}
            if len(os_) == 1:
                return os_.pop()
        return None

    n = 0
    for c in df.calls(fi.node):
        r = idx.resolve_expr(fi.module, c.func, fi)
        if r is None or r.kind != "funcs" or getattr(r.val[-1], "rule", None) is not None or not c.args:
            continue
        h = r.val[-1]
        need = helper_orientation(h)
        if need not in ("upper", "lower"):
            continue
        n += 1
        loc = [idx.loc(fi.module, c), idx.loc(h.module, h.node)]
        # enclosing statement-level guards on A.lower
        flags = [True, False]
        for p_ in parents_of(c, fi.node):
            if isinstance(p_, ast.If) and nospace(p_.test) in (f"{a}.lower", f"not{a}.lower"):
                pos = nospace(p_.test) == f"{a}.lower"
                inside_body = any(x is c for st in p_.body for x in ast.walk(st))
                flags = [pos if inside_body else not pos]
        bad = [(fl, data_orient(c.args[0], fl)) for fl in flags]
        wrong = [fl for fl, o in bad if o is not None and o != need]
        unknown = [fl for fl, o in bad if o is None]
        construct = f"{rule.role}:{h.short}"
        if wrong:
            rep.refuted("triangle-orientation", construct, f"`{h.short}` reads the strict {need} triangle of its argument only, but `{nospace(c.args[0])}` is {('lower' if need == 'upper' else 'upper')}-triangular "
                        f"when {a}.lower is {' / '.join(str(w) for w in wrong)}: the helper then sees a diagonal matrix and returns unit vectors, which are not eigenvectors of {a}",
                        detail="lower=" + ",".join(str(w) for w in wrong), locs=loc)
        elif unknown:
            rep.undecided("triangle-orientation", construct, f"orientation of `{nospace(c.args[0])}` not derivable", locs=loc)
        else:
            rep.proved("triangle-orientation", construct, f"`{h.short}` ({need}-triangular back-substitution) receives {need}-triangular data for every value of {a}.lower it is reached with", locs=loc)
    return n


def parents_of(node, stop):
    p = getattr(node, "_parent", None)
    while p is not None and p is not stop:
        yield p
        p = getattr(p, "_parent", None)
