"""C20 — indexing and slicing (DESIGN.md section 4, C20; partial) on LinearOperator.__getitem__ and Sliced.

1. canonical-vector conformability (DIM): `self @ e` needs length C, `self.T @ e` needs length R;
2. attribute existence (ATTR): every self.<x> read in a base-class method exists on the base class;
3. slice buffers (DIM + DTYPE): scatter into (A.C, k) by slices[1], gather rows by slices[0]; mirror for _rmatmat;
   the scatter buffer's dtype covers the operand;
4. guard / use agreement of duck-type guards; 5. case coverage; 6. known-bad slice round-trip idiom."""
import ast

from sa import dataflow as df
from sa.dtype import DType


def nospace(n):
    return ast.unparse(n).replace(" ", "")


def norm_idx(t):
    return t.replace("[-1]", "[1]").replace("[-2]", "[0]")


def parents(node, stop):
    p = getattr(node, "_parent", None)
    while p is not None and p is not stop:
        yield p
        p = getattr(p, "_parent", None)


def class_attrs(idx, ci):
    """attributes available on instances of ci: assigned on self anywhere in the class (and bases), methods, class-level names"""
    out = set()
    for c in idx.mro(ci):
        out |= set(c.methods)
        for st in c.node.body:
            if isinstance(st, ast.Assign):
                out |= {t.id for t in st.targets if isinstance(t, ast.Name)}
            elif isinstance(st, ast.AnnAssign) and isinstance(st.target, ast.Name):
                out.add(st.target.id)
        for m in c.methods.values():
            first = m.params[0] if m.params else None
            for n in df.body_nodes(m.node):
                if isinstance(n, ast.Attribute) and isinstance(n.ctx, ast.Store) and isinstance(n.value, ast.Name) and n.value.id in (first, "obj"):
                    out.add(n.attr)
    return out | {"__class__", "__dict__"}


def _class_kind(idx, fi, e, depth=0):
    """'int' / 'list' / 'sliceish' / text for the class expression of a pattern or an isinstance test (tuples of classes, names bound to them)"""
    if isinstance(e, ast.Name) and depth < 3:
        v = df.resolve_value(fi.node, e)
        if v is not e:
            return _class_kind(idx, fi, v, depth + 1)
    if isinstance(e, (ast.Tuple, ast.List)):
        ks = {_class_kind(idx, fi, x, depth + 1) for x in e.elts}
        return ks.pop() if len(ks) == 1 else "|".join(sorted(ks))
    if isinstance(e, ast.BinOp) and isinstance(e.op, ast.BitOr):
        ks = {_class_kind(idx, fi, e.left, depth + 1), _class_kind(idx, fi, e.right, depth + 1)}
        return ks.pop() if len(ks) == 1 else "|".join(sorted(ks))
    n = nospace(e)
    return "int" if n == "int" else ("list" if n == "list" else ("sliceish" if n == "slice" or n.endswith(".ndarray") else n))


def index_components(fi):
    """names that stand for the components of the index argument: {name: axis} from `rows, cols = ids`, `ids[0]`-style bindings and the
    capture names of two-element sequence patterns"""
    ids = fi.params[1] if len(fi.params) > 1 else None
    role = {}
    for n in df.body_nodes(fi.node):
        if isinstance(n, ast.Assign) and len(n.targets) == 1:
            t, v = n.targets[0], n.value
            if isinstance(t, ast.Tuple) and len(t.elts) == 2 and isinstance(v, ast.Name) and v.id == ids:
                for ax, e in enumerate(t.elts):
                    if isinstance(e, ast.Name):
                        role[e.id] = ax
            elif isinstance(t, ast.Name) and isinstance(v, ast.Subscript) and isinstance(v.value, ast.Name) and v.value.id == ids and isinstance(v.slice, ast.Constant) and v.slice.value in (0, 1):
                role[t.id] = v.slice.value
        elif isinstance(n, ast.match_case) and isinstance(n.pattern, ast.MatchSequence) and len(n.pattern.patterns) == 2:
            for ax, sub in enumerate(n.pattern.patterns):
                for q in ast.walk(sub):
                    if isinstance(q, ast.MatchAs) and q.name:
                        role[q.name] = ax
    return role


def getitem_forms(idx, gi):
    """(set of index forms some exit is reached for, does the fall-through raise) -- forms: 'int', 'sliceish', '(k0,k1)' with
    k in int / list / sliceish / any"""
    ids = gi.params[1] if len(gi.params) > 1 else None
    mt = next((n for n in df.body_nodes(gi.node) if isinstance(n, ast.Match)), None)

    def kind_of(pt):
        if isinstance(pt, ast.MatchAs) and pt.pattern is not None:
            return kind_of(pt.pattern)
        if isinstance(pt, ast.MatchAs):
            return "any"
        if isinstance(pt, ast.MatchClass):
            return _class_kind(idx, gi, pt.cls)
        if isinstance(pt, ast.MatchOr):
            ks = {kind_of(x) for x in pt.patterns}
            return "sliceish" if ks == {"sliceish"} else "|".join(sorted(ks))
        if isinstance(pt, ast.MatchSequence):
            return "(" + ",".join(kind_of(x) for x in pt.patterns) + ")"
        return "?"
    if mt is not None:
        forms = {kind_of(c.pattern) for c in mt.cases}
        last = mt.cases[-1]
        fall = isinstance(last.pattern, ast.MatchAs) and last.pattern.pattern is None and any(isinstance(x, ast.Raise) for st in last.body for x in ast.walk(st))
        return forms, fall
    role = index_components(gi)
    forms = set()
    exits = [n for n in df.body_nodes(gi.node) if isinstance(n, ast.Return) and n.value is not None]
    for r in exits:
        whole, comp = None, {}
        for t, pol in df.branch_conditions(r, gi.node):
            if not pol or not (isinstance(t, ast.Call) and isinstance(t.func, ast.Name) and t.func.id == "isinstance" and len(t.args) == 2):
                if pol and isinstance(t, ast.BoolOp) and isinstance(t.op, ast.And):
                    parts = t.values
                else:
                    continue
            else:
                parts = [t]
            for q in parts:
                if not (isinstance(q, ast.Call) and isinstance(q.func, ast.Name) and q.func.id == "isinstance" and len(q.args) == 2):
                    continue
                who, k = q.args[0], _class_kind(idx, gi, q.args[1])
                if isinstance(who, ast.Name) and who.id == ids:
                    whole = k
                elif isinstance(who, ast.Name) and who.id in role:
                    comp[role[who.id]] = k
                elif isinstance(who, ast.Subscript) and isinstance(who.value, ast.Name) and who.value.id == ids and isinstance(who.slice, ast.Constant) and who.slice.value in (0, 1):
                    comp[who.slice.value] = k
        if comp:
            forms.add("(" + comp.get(0, "any") + "," + comp.get(1, "any") + ")")
        elif whole is not None:
            forms.add(whole)
    if not forms:
        return None, False
    body = [st for st in gi.node.body if not (isinstance(st, ast.Expr) and isinstance(st.value, ast.Constant))]
    fall = bool(body) and (isinstance(body[-1], ast.Raise) or (isinstance(body[-1], ast.If) and not df._terminates([body[-1]]) is False and any(isinstance(x, ast.Raise) for x in ast.walk(body[-1]))))
    return forms, fall


def run(idx, rep, tier):
    if not idx.has_cls("LinearOperator") or not idx.has_cls("Sliced"):
        rep.missing_anchor("LinearOperator / Sliced")
        return
    base = idx.cls("LinearOperator")
    gi = base.methods.get("__getitem__")
    if gi is None:
        rep.missing_anchor("LinearOperator.__getitem__")
        return
    match = next((n for n in df.body_nodes(gi.node) if isinstance(n, ast.Match)), None)
    # ---- 1. canonical vectors: every product `<op> @ e` of the base class whose right operand is a canonical basis vector (built
    # in place, bound to a local first, or returned by a helper method such as self._basis_vector(i, axis=-2)) has the length of
    # the dimension that `<op>` contracts
    def substitute(node, mapping):
        import copy
        node = copy.deepcopy(node) if not hasattr(node, "_parent") else ast.parse(ast.unparse(node), mode="eval").body
        class S(ast.NodeTransformer):
            def visit_Name(self, n):
                return mapping.get(n.id, n)
        return S().visit(node)

    def canonical_of(m, e, depth=0):
        """the xnp.canonical(...) call that e denotes inside method m (helpers inlined with their arguments), or None"""
        e = df.resolve_value(m.node, e)
        if isinstance(e, ast.Call) and df.is_xnp_call(e) == "canonical":
            return e
        if isinstance(e, ast.Call) and isinstance(e.func, ast.Attribute) and isinstance(e.func.value, ast.Name) and e.func.value.id == "self" and depth < 2:
            h = idx.find_method(base, e.func.attr)
            if h is not None:
                bound = df.bind_call(e, h.params[1:])
                mapping = {k: v for k, v in bound.items() if not k.startswith("*")}
                for r in df.returns(h.node):
                    inner = canonical_of(h, r.value, depth + 1)
                    if inner is not None:
                        out = substitute(inner, mapping)
                        return out
        return None

    for m in base.methods.values():
        k_site = 0
        for n in df.body_nodes(m.node):
            if not (isinstance(n, ast.BinOp) and isinstance(n.op, ast.MatMult)):
                continue
            vec = canonical_of(m, n.right)
            if vec is None:
                continue
            k_site += 1
            shp = next((k.value for k in vec.keywords if k.arg == "shape"), None)
            dim = norm_idx(nospace(shp.elts[0])) if isinstance(shp, ast.Tuple) and shp.elts else nospace(shp) if shp is not None else "?"
            left = nospace(n.left)
            want = left[:-2] + ".shape[0]" if left.endswith((".T", ".H")) else left + ".shape[1]"
            # a length written with a symbolic axis (`self.shape[axis]`): the conditions on the way to this product may fix it
            sym_ax = isinstance(shp, ast.Tuple) and shp.elts and isinstance(shp.elts[0], ast.Subscript) and isinstance(shp.elts[0].slice, ast.Name)
            if sym_ax:
                axn = shp.elts[0].slice.id
                fixed = None
                for t_, pol_ in df.branch_conditions(n, m.node):
                    if isinstance(t_, ast.Compare) and len(t_.ops) == 1 and isinstance(t_.left, ast.Name) and t_.left.id == axn:
                        c_ = t_.comparators[0]
                        v_ = c_.value if isinstance(c_, ast.Constant) else (-c_.operand.value if isinstance(c_, ast.UnaryOp) and isinstance(c_.op, ast.USub) and isinstance(c_.operand, ast.Constant) else None)
                        if isinstance(v_, int) and ((isinstance(t_.ops[0], ast.Eq) and pol_) or (isinstance(t_.ops[0], ast.NotEq) and not pol_)):
                            fixed = v_
                if fixed is None:
                    rep.undecided("canonical-vector", f"{m.name}:product{k_site}", f"`{ast.unparse(n)[:60]}`: the length `{nospace(shp)}` of the canonical vector depends on `{axn}`, which the "
                                  "conditions on the way do not fix", locs=[idx.loc(m.module, n)])
                    continue
                dim = norm_idx(nospace(shp.elts[0].value) + f"[{fixed}]")
            ok = dim == want
            rep.decide(ok, "canonical-vector", f"{m.name}:product{k_site}", f"`{ast.unparse(n)[:60]}` multiplies a canonical vector of length {nospace(shp) if shp is not None else '?'}" +
                       ("" if ok else f": the contracted dimension of `{left}` is {want.replace('[0]', '[-2]').replace('[1]', '[-1]')} (rows of non-square operators fail)"),
                       detail="" if ok else "length", locs=[idx.loc(m.module, n)])
    # ---- 2. attribute existence on the base class
    attrs = class_attrs(idx, base)
    n_reads = 0
    for m in base.methods.values():
        for n in df.body_nodes(m.node):
            if isinstance(n, ast.Attribute) and isinstance(n.ctx, ast.Load) and isinstance(n.value, ast.Name) and n.value.id == "self":
                n_reads += 1
                if n.attr not in attrs:
                    rep.refuted("attribute-exists", f"LinearOperator.{m.name}:self.{n.attr}", f"`self.{n.attr}` is read in a base-class method but only wrapper kinds define `{n.attr}`: "
                                "AttributeError on every other operator kind", detail="missing", locs=[idx.loc(m.module, n)])
    rep.count("attribute-exists", proved=n_reads, nontrivial=1)
    # ---- 5. case coverage: the index forms an exit of __getitem__ is reached for, whether the forms are told apart by a `match`
    # statement or by isinstance chains (`rows, cols = ids; if isinstance(cols, int): ...`)
    # primary reading: execute the body on abstract index values (sa/formexec.py) -- whatever the layout (one match, isinstance chains,
    # a normalisation stage followed by a dispatch on the components)
    from sa.formexec import run_form
    ids_name = gi.params[1] if len(gi.params) > 1 else None
    b_ = ("slice", "array")
    required = {"int": ["int"], "slice-or-array": list(b_), "(b,int)": [(x, "int") for x in b_], "(int,b)": [("int", x) for x in b_],
                "(slices,slices)": [(x, y) for x in b_ for y in b_], "(list,list)": [("list", "list")]}
    outcomes = {k: [run_form(gi.node, ids_name, v) for v in vs] for k, vs in required.items()} if ids_name else {}
    fall_x = run_form(gi.node, ids_name, "other") if ids_name else None
    if outcomes and all(o is not None for os_ in outcomes.values() for o in os_) and fall_x is not None:
        missing = [k for k, os_ in outcomes.items() if not all(o == "exit" for o in os_)]
        okx = not missing and fall_x == "raise"
        rep.decide(okx, "case-coverage", "LinearOperator.__getitem__", f"executed on {sum(len(v) for v in required.values())} abstract index forms: every required form reaches an exit" if okx else
                   (f"executed on abstract index forms: no exit is reached for {missing}" if missing else "an index that is none of the supported forms does not raise"),
                   detail="" if okx else "arms", locs=[idx.loc(gi.module, gi.node)])
        forms, fall = "executed", True
    else:
        forms, fall = getitem_forms(idx, gi)
    if forms == "executed":
        pass
    elif forms is None:
        rep.undecided("case-coverage", "LinearOperator.__getitem__", "the index forms are not told apart by class patterns or isinstance tests")
    else:
        need = {
            "int": "int" in forms,
            "slice-or-array": "sliceish" in forms,
            "(b,int)": "(any,int)" in forms,
            "(int,b)": "(int,any)" in forms,
            "(slices,slices)": "(sliceish,sliceish)" in forms,
            "(list,list)": "(list,list)" in forms,
        }
        missing = [k for k, v in need.items() if not v]
        rep.decide(not missing and fall, "case-coverage", "LinearOperator.__getitem__", f"{len(forms)} arms" + ("" if not missing else f"; no arm for {missing}") +
                   ("; the fall-through raises" if fall else "; the fall-through does not raise"), detail="" if not missing and fall else "arms", locs=[idx.loc(gi.module, match or gi.node)])
    # ---- 3. Sliced
    sl = idx.cls("Sliced")
    init, mm, rm = sl.methods.get("__init__"), sl.methods.get("_matmat"), sl.methods.get("_rmatmat")
    if not all((init, mm, rm)):
        rep.missing_anchor("Sliced.__init__/_matmat/_rmatmat")
    else:
        from sa.scatter import Scatter, show as sshow
        a, s = init.params[1], init.params[2]
        # (i) the shape is (#rows selected, #columns selected): arange(rows of A)[slices[0]].shape + arange(columns of A)[slices[1]].shape,
        # judged on the value handed to the base constructor, however it is assembled
        sd = Scatter(idx, tuple_paths={s, "self.slices"})
        sup = [c for c in df.calls(init.node) if isinstance(c.func, ast.Attribute) and c.func.attr == "__init__" and isinstance(c.func.value, ast.Call) and nospace(c.func.value.func) == "super"]
        shape_e = next((k.value for c in sup for k in c.keywords if k.arg == "shape"), sup[0].args[1] if sup and len(sup[0].args) > 1 else None)
        if shape_e is None:
            rep.undecided("slice-shape", "Sliced.__init__", "no shape handed to the base constructor")
        else:
            sv = sd.eval_in(init, shape_e)

            def parts(v):
                if isinstance(v, tuple) and v and v[0] == "cat":
                    return parts(v[1]) + parts(v[2])
                if isinstance(v, tuple) and v and v[0] == "tuple":
                    return [x for e in v[1] for x in parts(e)]
                return [v]
            ps = parts(sv)
            recognised = len(ps) == 2 and all(isinstance(x, tuple) and x[0] == "lenof" and x[1][0] == "indices" for x in ps)
            if not recognised:
                rep.undecided("slice-shape", "Sliced.__init__", f"shape is {sshow(sv)}: not two selected-index counts")
            else:
                ok = all(x[1][1] == ("dim", a, k) and x[1][2] == ("item", s, k) for k, x in enumerate(ps))
                if not ok and "opaque" in repr(ps):
                    ok = None  # an index object of unknown origin: not a role mix-up that can be named
                rep.decide(ok, "slice-shape", "Sliced.__init__", "rows come from A.shape[0] indexed by slices[0], columns from A.shape[1] indexed by slices[1]" if ok else
                           f"shape is {sshow(sv)}; required arange(rows)[slices[0]].shape + arange(cols)[slices[1]].shape", detail="" if ok else "roles", locs=[idx.loc(init.module, init.node)])
        stored = [nospace(n.value) for n in df.body_nodes(init.node) if isinstance(n, ast.Assign) and nospace(n.targets[0]) == "self.slices"]
        first_rebind = min([n.lineno for n in df.body_nodes(init.node) if isinstance(n, ast.Assign) and nospace(n.targets[0]) == s] or [10**9])
        store_line = min([n.lineno for n in df.body_nodes(init.node) if isinstance(n, ast.Assign) and nospace(n.targets[0]) == "self.slices"] or [0])
        ok = stored == [s] and store_line < first_rebind
        rep.decide(True if ok else None, "slice-shape", "Sliced.__init__:stored", "the caller's index objects are stored as given (before any re-binding)" if ok else
                   f"self.slices is `{stored}` / stored after `{s}` was re-bound: the product methods index with something else than the caller's slices", detail="" if ok else "rebound",
                   locs=[idx.loc(init.module, init.node)])
        # (ii) products: the operand is scattered into a zero buffer of the parent's size at the index of the contracted axis, multiplied
        # by the parent, and the result gathered at the index of the other axis -- judged on the returned value (SCATTER domain)
        ROW, COL = ("item", "self.slices", 0), ("item", "self.slices", 1)
        PARENT = ("obj", "self.A")
        for m, left in ((mm, False), (rm, True)):
            x = m.params[1]
            X = ("obj", x)
            if not left:
                want_buf = ("tuple", (("dim", "self.A", 1), ("dim", x, 1)))
                want_sc, want_ga = (COL, ), (ROW, )
                req = f"buffer (self.A.shape[1],{x}.shape[1]), scatter [cols], exit (self.A @ buffer)[rows]"
            else:
                want_buf = ("tuple", (("dim", x, 0), ("dim", "self.A", 0)))
                want_sc, want_ga = (("ellipsis", ), ROW), (("ellipsis", ), COL)
                req = f"buffer ({x}.shape[0],self.A.shape[0]), scatter [...,rows], exit (buffer @ self.A)[...,cols]"
            sd = Scatter(idx, tuple_paths={"self.slices"})
            sd.self_cls = sl
            exits = []
            for r in df.returns(m.node):
                if r.value is None:
                    continue
                for v in sd.alternatives(sd.eval_in(m, r.value)):
                    exits.append((r, v))

            def classify(v):
                """'good' / 'raw' (parent times the un-scattered operand) / 'bad' (scatter-gather with wrong roles or sizes) / None"""
                g_idx = None
                if isinstance(v, tuple) and v and v[0] == "gather":
                    v, g_idx = v[1], v[2]
                if not (isinstance(v, tuple) and v and v[0] == "matmul"):
                    return None
                par, other = (v[2], v[1]) if left else (v[1], v[2])
                if par != PARENT:
                    return None
                if other == X:
                    return "raw"
                if not (isinstance(other, tuple) and other[0] == "scatter"):
                    return None
                buf, val, sc_idx = other[1], other[2], other[3]
                if isinstance(buf, tuple) and buf[0] == "zeros" and buf[1] == want_buf and val == X and sc_idx == want_sc and g_idx == want_ga:
                    return "good"
                return "bad" if isinstance(buf, tuple) and buf[0] == "zeros" else None

            kinds_ = [(r, v, classify(v)) for r, v in exits]
            good = [e for e in kinds_ if e[2] == "good"]
            bad = [e for e in kinds_ if e[2] == "bad"]
            shown = "; ".join(sshow(v) for _r, v, _k in kinds_)[:300]
            verdict = True if good and not bad else (False if bad else None)
            rep.decide(verdict, "slice-buffers", f"Sliced.{m.name}", f"returns {shown}" + ("" if verdict else f"; required {req}"), detail="" if verdict else "buffers", locs=[idx.loc(m.module, m.node)])
            # every exit must go through the scatter / gather pair: a return that multiplies the parent by the raw operand
            # ignores the column (row) selection; equal sizes do not make the selection the identity (A[:, ::-1], A[:, [1, 0]])
            for r, v, kind_ in kinds_:
                if kind_ in ("good", "bad"):
                    continue
                guards = [t_ for t_, _pol in df.branch_conditions(r, m.node)]
                gtxt = " and ".join(nospace(g) for g in guards)
                only_sizes = bool(guards) and all(isinstance(g, ast.Compare) and all(".shape" in nospace(x_) or "len(" in nospace(x_) for x_ in [g.left] + g.comparators) for g in guards)
                if kind_ == "raw" and (only_sizes or not guards):
                    rep.refuted("slice-buffers", f"Sliced.{m.name}:shortcut", f"`return {nospace(r.value)}`" + (f" under `{gtxt}`" if gtxt else "") + " multiplies the parent by the un-scattered operand: "
                                "the other index of the slice is ignored, and equal sizes do not make it the identity selection (reversed or permuted indices)", detail="bypass", locs=[idx.loc(m.module, r)])
                else:
                    rep.undecided("slice-buffers", f"Sliced.{m.name}:shortcut", f"`return {nospace(r.value)}`" + (f" under `{gtxt}`" if gtxt else "") + " does not go through the scatter/gather pair", locs=[idx.loc(m.module, r)])
            # dtype of the scatter buffer must cover the operand (DTYPE domain: every update_array reached from the returned values)
            dt = DType(idx, x)
            dt.self_cls = sl
            for r in df.returns(m.node):
                if r.value is not None:
                    dt.eval_in(m, r.value)
            seen_sc = {}
            for node_, f_, bs, vs, lost in dt.scatters:
                seen_sc[id(node_)] = (node_, f_, bs, vs, lost)
            for node_, f_, bs, vs, lost in seen_sc.values():
                missing = sorted(lost)
                rep.decide(not missing, "slice-buffers", f"Sliced.{m.name}:dtype", f"scatter buffer is typed by {sorted(bs)}, the scattered operand by {sorted(vs)}" +
                           ("" if not missing else ": a complex operand multiplied into a slice of a real operator silently loses its imaginary part"),
                           detail="" if not missing else "narrow", locs=[idx.loc((f_ or m).module, node_)])
    # ---- 3a. every __getitem__ (base class and overrides): two integer indices bound by a pattern are never compared raw --
    # i and j name the same position also when one is negative (D[-1, n-1]), so `i == j` is not "on the diagonal"
    n_getitem = 0
    n_axis = 0
    for ci in idx.operator_classes():
        g = ci.methods.get("__getitem__")
        if g is None:
            continue
        n_getitem += 1
        role = index_components(g)
        # integer-typed index names: `int(i)` class patterns and isinstance(x, int) tests
        ints = {p_.patterns[0].name for p_ in ast.walk(g.node) if isinstance(p_, ast.MatchClass) and nospace(p_.cls) == "int" and p_.patterns and isinstance(p_.patterns[0], ast.MatchAs)
                and p_.patterns[0].name}
        ints |= {c.args[0].id for c in df.calls(g.node) if isinstance(c.func, ast.Name) and c.func.id == "isinstance" and len(c.args) == 2 and isinstance(c.args[0], ast.Name)
                 and nospace(c.args[1]) == "int"}
        body_nodes = list(df.body_nodes(g.node))
        changed = True
        while changed:
            changed = False
            for n in body_nodes:
                if isinstance(n, (ast.For, ast.comprehension)) and isinstance(n.target, ast.Tuple) and isinstance(n.iter, ast.Call) and isinstance(n.iter.func, ast.Name) and n.iter.func.id == "zip":
                    for t, a_ in zip(n.target.elts, n.iter.args):
                        if isinstance(t, ast.Name) and isinstance(a_, ast.Name) and a_.id in role and role.get(t.id) != role[a_.id]:
                            role[t.id] = role[a_.id]
                            changed = True
                elif isinstance(n, (ast.For, ast.comprehension)) and isinstance(n.target, ast.Name) and isinstance(n.iter, ast.Name) and n.iter.id in role and role.get(n.target.id) != role[n.iter.id]:
                    role[n.target.id] = role[n.iter.id]
                    changed = True
                elif isinstance(n, ast.Assign) and len(n.targets) == 1 and isinstance(n.targets[0], ast.Name) and isinstance(n.value, ast.Name) and n.value.id in role \
                        and role.get(n.targets[0].id) != role[n.value.id]:
                    role[n.targets[0].id] = role[n.value.id]
                    changed = True
        # two integer indices of different axes are never compared raw: i and j name the same position also when one is negative
        for cmp_ in [x for x in body_nodes if isinstance(x, ast.Compare) and len(x.ops) == 1 and isinstance(x.ops[0], (ast.Eq, ast.NotEq))]:
            l, r = cmp_.left, cmp_.comparators[0]
            if isinstance(l, ast.Name) and isinstance(r, ast.Name) and l.id != r.id and {l.id, r.id} <= ints and role.get(l.id) is not None and role.get(r.id) is not None \
                    and role[l.id] != role[r.id]:
                rep.refuted("index-alias", f"{ci.name}.__getitem__", f"`{nospace(cmp_)}` compares two integer indices as given: a negative and a non-negative index that name the same "
                            f"position ({ci.name}[-1, n-1]) compare unequal", detail="raw-compare", locs=[idx.loc(g.module, cmp_)])

        def axis_of_length(e):
            """self.shape[k] (k = 0, 1, -1, -2) -> axis"""
            if isinstance(e, ast.Subscript) and nospace(e.value) == "self.shape":
                k = e.slice
                v = k.value if isinstance(k, ast.Constant) else (-k.operand.value if isinstance(k, ast.UnaryOp) and isinstance(k.op, ast.USub) and isinstance(k.operand, ast.Constant) else None)
                return {0: 0, 1: 1, -1: 1, -2: 0}.get(v)
            return None
        # an index of one axis is never reduced modulo / compared with the LENGTH of the other axis
        for n in body_nodes:
            pairs = []
            if isinstance(n, ast.BinOp) and isinstance(n.op, ast.Mod):
                pairs.append((n.left, n.right, "reduced modulo"))
            elif isinstance(n, ast.Compare) and len(n.ops) == 1 and isinstance(n.ops[0], (ast.Lt, ast.LtE, ast.Gt, ast.GtE)):
                pairs += [(n.left, n.comparators[0], "compared with"), (n.comparators[0], n.left, "compared with")]
            for idx_e, len_e, what in pairs:
                ax = axis_of_length(len_e)
                if isinstance(idx_e, ast.UnaryOp):
                    idx_e = idx_e.operand
                if ax is None or not isinstance(idx_e, ast.Name) or idx_e.id not in role:
                    continue
                n_axis += 1
                ok = role[idx_e.id] == ax
                rep.decide(ok, "index-alias", f"{ci.name}.__getitem__:axis#{n_axis}", f"`{nospace(n)}`: an index of axis {role[idx_e.id]} is {what} the length of axis {ax}" +
                           ("" if ok else ": on a non-square operator different positions are identified (or valid ones rejected)"), detail="" if ok else "wrong-axis", locs=[idx.loc(g.module, n)])
    rep.count("index-alias", proved=n_getitem)
    # ---- 3b. SLICE-ROLE: wherever the stored index objects are materialised (arange(N)[s], s.indices(N)), N is the parent's dimension
    from sa.slicerole import slice_role_obligations
    core = frozenset(idx.core_modules())
    readers = [f for f in idx.funcs.values() if f.module.name in core and not (f.cls is not None and f.cls.name == "Sliced" and f.name == "__init__")
               and any(isinstance(n, ast.Attribute) and n.attr == "slices" and isinstance(n.ctx, ast.Load) for n in df.body_nodes(f.node))]
    if not slice_role_obligations(idx, rep, "slice-resolution", readers):
        rep.note(f"slice-resolution: {len(readers)} functions read `.slices`; none materialises them against a length on this tree")
    # ---- 4. guard / use agreement (whole ops package)
    n_guards = 0
    for f in [f for f in idx.funcs.values() if f.module.name.startswith("cola.ops")]:
        for n in df.body_nodes(f.node, into_nested=False):
            if isinstance(n, ast.IfExp) or isinstance(n, ast.If):
                t = n.test
                if isinstance(t, ast.Call) and isinstance(t.func, ast.Name) and t.func.id == "hasattr" and len(t.args) == 2 and isinstance(t.args[1], ast.Constant) and isinstance(t.args[0], ast.Name):
                    obj, attr = t.args[0].id, t.args[1].value
                    guarded = [n.body] if isinstance(n, ast.IfExp) else n.body
                    used = {x.attr for g in guarded for x in ast.walk(g) if isinstance(x, ast.Attribute) and isinstance(x.value, ast.Name) and x.value.id == obj}
                    if not used:
                        continue
                    n_guards += 1
                    ok = attr in used
                    rep.decide(ok, "guard-use", f"{f.short}:hasattr({obj},{attr!r})", f"guard tests `{attr}` and the guarded branch uses {sorted(used)}" +
                               ("" if ok else f": the belief checked is not the belief used (numpy >= 2 arrays have .device but no .{sorted(used)[0]}())"), detail="" if ok else "mismatch",
                               locs=[idx.loc(f.module, n)])
    # ---- 6. slice(*s.indices(n)) is not a round trip for negative steps
    n_idiom = 0
    for f in [f for f in idx.funcs.values() if f.module.name.startswith("cola.ops")]:
        for c in df.calls(f.node):
            if isinstance(c.func, ast.Name) and c.func.id == "slice" and len(c.args) == 1 and isinstance(c.args[0], ast.Starred):
                inner = c.args[0].value
                if isinstance(inner, ast.Call) and isinstance(inner.func, ast.Attribute) and inner.func.attr == "indices":
                    n_idiom += 1
                    rep.refuted("slice-roundtrip", f"{f.short}:slice(*indices)", f"`{ast.unparse(c)}`: slice(*s.indices(n)) is not the same slice for negative steps with an open stop "
                                "(slice(None, None, -1).indices(5) = (4, -1, -1), and slice(4, -1, -1) is empty)", detail="idiom", locs=[idx.loc(f.module, c)])
    rep.count("slice-roundtrip", proved=1 if not n_idiom else 0)
    # ---- 7. outer, not paired, selection: `X[rows, cols]` with the two stored index objects in ONE subscript pairs two index arrays
    # element-wise (NumPy / torch / jax advanced indexing): a k-vector of entries instead of the k-by-k sub-matrix.  Sliced admits index
    # arrays on both axes, so its methods must select axis by axis (`X[rows][:, cols]`, np.ix_) whenever both objects may be arrays.
    n_paired = 0
    for m in sl.methods.values():
        if m.name == "__init__":
            continue
        # local names of the two stored index objects (`rows, cols = self.slices`)
        names = {0: {"self.slices[0]"}, 1: {"self.slices[1]"}}
        for v_name, vals in df.assignments(m.node).items():
            for v, p_, st in vals:
                if nospace(v) == "self.slices" and p_ is not None and len(p_) == 1 and p_[0] in (0, 1):
                    names[p_[0]].add(v_name)
                elif p_ is None and nospace(v) in ("self.slices[0]", "self.slices[1]"):
                    names[int(nospace(v)[-2])].add(v_name)
        for n in df.body_nodes(m.node):
            if not (isinstance(n, ast.Subscript) and isinstance(n.ctx, ast.Load)):
                continue
            sl_ = n.slice
            whole = nospace(sl_) == "self.slices"
            both = isinstance(sl_, ast.Tuple) and any(nospace(e) in names[0] for e in sl_.elts) and any(nospace(e) in names[1] for e in sl_.elts)
            if whole or both:
                n_paired += 1
                rep.refuted("outer-selection", f"Sliced.{m.name}", f"`{nospace(n)[:70]}` indexes with both stored index objects in one subscript: two index arrays are paired "
                            "element-wise (a vector of k entries), not crossed into the k-by-k sub-matrix the operator represents", detail="paired", locs=[idx.loc(m.module, n)])
    if not n_paired:
        rep.proved("outer-selection", "Sliced", "no method of Sliced indexes an array with both stored index objects in one subscript", locs=[idx.loc(sl.module, sl.node)])
    rep.floor("canonical-vector", 2)
    rep.floor("slice-buffers", 4)
    rep.floor("attribute-exists", 30)
    rep.floor("case-coverage", 1)
    rep.explanation = ("DIM / ATTR / DTYPE checks on LinearOperator.__getitem__ and Sliced: the canonical vector of every arm has the contracted dimension of the operator it multiplies; "
                       "every self attribute read in the base class exists there; Sliced scatters by the column index into a (A.C, k) buffer typed to cover the operand, multiplies by "
                       "the parent and gathers by the row index (mirror image on the left); duck-type guards test the attribute they protect.")
    rep.assumptions += ["values for negative / strided / empty slices are delegated to the array library by construction: noted, not proved"]
