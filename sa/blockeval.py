"""BLOCK -- what a block-diagonal product method does with ONE block, as a (term, shape) pair.

The expression that produces a block of the result (the element appended to / generated for the list that is concatenated) is
evaluated symbolically: the block operator is M with shape (r, c), its multiplicity is m, the operand piece is x with shape (m*c, k).
Shapes are polynomials in r, c, m, k; `.T` swaps them, `.reshape(a, b)` must preserve the size, `@` must contract equal dimensions.
For m = 1 a reshape to the shape the array already has is the identity, and the value is a TERM (sa/term.py) that has to equal M·x.
Anything outside the fragment makes the verdict UNDECIDED."""
import ast

from sa import dataflow as df
from sa.term import MUL, T, C, equal, norm, show, sym


class Undecided(Exception):
    pass


class Refuted(Exception):
    pass


# ------------------------------------------------------------------ polynomials {monomial (sorted tuple of atoms): coefficient}
def P(atom=None, const=None):
    if const is not None:
        return {(): const} if const else {}
    return {(atom, ): 1}


def padd(a, b, sign=1):
    out = dict(a)
    for m, c in b.items():
        out[m] = out.get(m, 0) + sign * c
        if out[m] == 0:
            del out[m]
    return out


def pmul(a, b):
    out = {}
    for m1, c1 in a.items():
        for m2, c2 in b.items():
            m = tuple(sorted(m1 + m2))
            out[m] = out.get(m, 0) + c1 * c2
            if out[m] == 0:
                del out[m]
    return out


def psubst(a, atom, value):
    """atom := integer value"""
    out = {}
    for m, c in a.items():
        n = m.count(atom)
        m2 = tuple(x for x in m if x != atom)
        out[m2] = out.get(m2, 0) + c * (value ** n)
    return {m: c for m, c in out.items() if c}


def pshow(a):
    if not a:
        return "0"
    return " + ".join(("" if c == 1 and m else str(c) + ("*" if m else "")) + "*".join(m) for m, c in sorted(a.items()))


class BlockEval:
    def __init__(self, idx, method, operand):
        self.idx, self.m, self.operand = idx, method, operand
        self.fnode = method.node

    # ---- which names are the block, its multiplicity, the number of columns of the operand
    def _role_expr(self, e, depth=0):
        if depth > 6:
            return None
        if isinstance(e, ast.Attribute) and isinstance(e.value, ast.Name) and e.value.id == "self":
            return {"Ms": "Ms", "multiplicities": "mults"}.get(e.attr)
        if isinstance(e, ast.Call) and isinstance(e.func, ast.Name) and e.func.id in ("list", "tuple", "iter") and len(e.args) == 1:
            return self._role_expr(e.args[0], depth + 1)
        if isinstance(e, ast.Call) and isinstance(e.func, ast.Name) and e.func.id == "zip":
            return ("zip", [self._role_expr(a, depth + 1) for a in e.args])
        if isinstance(e, ast.Call) and isinstance(e.func, ast.Name) and e.func.id == "enumerate" and len(e.args) == 1:
            return ("zip", [None, self._role_expr(e.args[0], depth + 1)])
        if isinstance(e, ast.Name):
            v = df.resolve_value(self.fnode, e)
            return self._role_expr(v, depth + 1) if v is not e else None
        return None

    @staticmethod
    def _elem(role):
        if role == "Ms":
            return "M"
        if role == "mults":
            return "m"
        if isinstance(role, tuple) and role[0] == "zip":
            return ("tuple", [BlockEval._elem(r) for r in role[1]])
        return None

    def roles(self):
        out = {}

        def bind(t, r):
            if isinstance(t, ast.Name) and r in ("M", "m"):
                out.setdefault(t.id, set()).add(r)
            elif isinstance(t, (ast.Tuple, ast.List)) and isinstance(r, tuple) and r[0] == "tuple" and len(r[1]) == len(t.elts):
                for e, x in zip(t.elts, r[1]):
                    bind(e, x)
        for n in df.body_nodes(self.fnode):
            if isinstance(n, (ast.For, ast.comprehension)):
                bind(n.target, self._elem(self._role_expr(n.iter)))
        return {k: next(iter(v)) for k, v in out.items() if len(v) == 1}

    # ---- integer expressions
    def poly(self, e, roles, depth=0):
        if depth > 6:
            raise Undecided("integer expression too deep")
        if isinstance(e, ast.Constant) and isinstance(e.value, int) and not isinstance(e.value, bool):
            return P(const=e.value)
        if isinstance(e, ast.BinOp) and isinstance(e.op, (ast.Add, ast.Sub, ast.Mult)):
            l, r = self.poly(e.left, roles, depth + 1), self.poly(e.right, roles, depth + 1)
            return pmul(l, r) if isinstance(e.op, ast.Mult) else padd(l, r, 1 if isinstance(e.op, ast.Add) else -1)
        if isinstance(e, ast.Subscript) and isinstance(e.value, ast.Attribute) and e.value.attr == "shape" and isinstance(e.value.value, ast.Name):
            i = e.slice
            ax = i.value if isinstance(i, ast.Constant) else (-i.operand.value if isinstance(i, ast.UnaryOp) and isinstance(i.op, ast.USub) and isinstance(i.operand, ast.Constant) else None)
            owner = e.value.value.id
            if roles.get(owner) == "M" and ax in (0, -2):
                return P("r")
            if roles.get(owner) == "M" and ax in (1, -1):
                return P("c")
            if owner == self.operand and ax in (1, -1):
                return P("k")
            raise Undecided(f"shape entry `{ast.unparse(e)}`")
        if isinstance(e, ast.Name):
            if roles.get(e.id) == "m":
                return P("m")
            # the number of columns of the operand: a name bound to <operand>.shape[1] (on the 2-D path; _matmat receives 2-D operands)
            vals = [v for v, p_, st in df.assignments(self.fnode).get(e.id, []) if p_ is None and not isinstance(v, ast.AugAssign)]
            if vals:
                ps = []
                for v in vals:
                    try:
                        ps.append(self.poly(v, roles, depth + 1))
                    except Undecided:
                        ps.append(None)
                known = [p for p in ps if p is not None]
                if any(p == P("k") for p in known) and all(p == P("k") or p == P(const=1) for p in known):
                    return P("k")
                if len(known) == len(ps) == 1:
                    return known[0]
            raise Undecided(f"integer `{e.id}`")
        raise Undecided(f"integer expression `{ast.unparse(e)[:30]}`")

    # ---- array expressions -> (term, (rows, cols)) for general multiplicity and for multiplicity one
    def ev(self, e, roles, m_one, depth=0):
        if depth > 40:
            raise Undecided("expression too deep")
        sub1 = (lambda p: psubst(p, "m", 1)) if m_one else (lambda p: p)
        if isinstance(e, ast.Name):
            if roles.get(e.id) == "M":
                return sym("M"), (P("r"), P("c"))
            v = df.resolve_value(self.fnode, e)
            if v is not e:
                return self.ev(v, roles, m_one, depth + 1)
            raise Undecided(f"array `{e.id}`")
        if isinstance(e, ast.Subscript) and isinstance(e.value, ast.Name) and e.value.id == self.operand and isinstance(e.slice, ast.Slice):
            return sym("x"), (sub1(pmul(P("m"), P("c"))), P("k"))  # the rows of the operand that belong to this block (sizes: AXIS-TAINT rule)
        if isinstance(e, ast.Attribute) and e.attr == "T":
            t, (a, b) = self.ev(e.value, roles, m_one, depth + 1)
            return T(t), (b, a)
        if isinstance(e, ast.Attribute) and e.attr == "H":
            t, (a, b) = self.ev(e.value, roles, m_one, depth + 1)
            return T(C(t)), (b, a)
        if isinstance(e, ast.Call) and isinstance(e.func, ast.Attribute) and e.func.attr in ("conj", "conjugate") and not e.args:
            t, shp = self.ev(e.func.value, roles, m_one, depth + 1)
            return C(t), shp
        if isinstance(e, ast.Call) and isinstance(e.func, ast.Attribute) and e.func.attr == "reshape":
            t, (a, b) = self.ev(e.func.value, roles, m_one, depth + 1)
            args = e.args[0].elts if len(e.args) == 1 and isinstance(e.args[0], ast.Tuple) else e.args
            if len(args) != 2:
                raise Undecided("reshape to other than two dimensions")
            na, nb = (sub1(self.poly(x, roles)) for x in args)
            if pmul(na, nb) != pmul(a, b):
                raise Refuted(f"`{ast.unparse(e)[:70]}` reshapes an array of shape ({pshow(a)}, {pshow(b)}) to ({pshow(na)}, {pshow(nb)}): the sizes differ")
            if (na, nb) == (a, b):
                return t, (a, b)
            return ("opaque", f"reshape({show(t)})"), (na, nb)
        if isinstance(e, ast.BinOp) and isinstance(e.op, ast.MatMult):
            (lt, (la, lb)), (rt, (ra, rb)) = self.ev(e.left, roles, m_one, depth + 1), self.ev(e.right, roles, m_one, depth + 1)
            if lb != ra:
                raise Refuted(f"`{ast.unparse(e)[:70]}` contracts a dimension of size {pshow(lb)} with one of size {pshow(ra)}: for a non-square block the product is not defined "
                              "(and for a square one the block is applied transposed)")
            return MUL(lt, rt), (la, rb)
        raise Undecided(f"`{ast.unparse(e)[:40]}`")

    def block_expressions(self, roles):
        """maximal array expressions that contain a product with the block operator"""
        mnames = {n for n, r in roles.items() if r == "M"}
        def is_block(x):
            while isinstance(x, ast.Attribute) and x.attr in ("T", "H"):
                x = x.value
            if isinstance(x, ast.Call) and isinstance(x.func, ast.Attribute) and x.func.attr in ("conj", "conjugate") and not x.args:
                return is_block(x.func.value)
            return isinstance(x, ast.Name) and x.id in mnames
        prods = [n for n in df.body_nodes(self.fnode) if isinstance(n, ast.BinOp) and isinstance(n.op, ast.MatMult) and (is_block(n.left) or is_block(n.right))]
        out = []
        for p in prods:
            cur = p
            while True:
                par = getattr(cur, "_parent", None)
                if isinstance(par, ast.Attribute) and par.attr == "T" and par.value is cur:
                    cur = par
                elif isinstance(par, ast.Attribute) and par.attr in ("reshape", "conj") and par.value is cur and isinstance(getattr(par, "_parent", None), ast.Call):
                    cur = par._parent
                else:
                    break
            out.append(cur)
        return out


def block_action(idx, method, operand):
    """-> list of (verdict, text, node)"""
    be = BlockEval(idx, method, operand)
    roles = be.roles()
    res = []
    exprs = be.block_expressions(roles)
    for e in exprs:
        try:
            be.ev(e, roles, m_one=False)  # shapes for a general multiplicity
            t1, shp1 = be.ev(e, roles, m_one=True)
            want_shape = (P("r"), P("k"))
            if shp1 != want_shape:
                res.append((False, f"`{ast.unparse(e)[:80]}` has shape ({pshow(shp1[0])}, {pshow(shp1[1])}) for a block of shape (r, c) with multiplicity 1 applied to k columns; required (r, k)", e))
                continue
            ok = equal(t1, MUL(sym("M"), sym("x")))
            res.append((ok, f"for multiplicity 1 the block of the result is {show(norm(t1))}; required M·x" + ("" if ok else (" [outside the term grammar]" if ok is None else
                        ": the block operator is applied transposed / conjugated / from the wrong side")), e))
        except Refuted as ex:
            res.append((False, str(ex), e))
        except Undecided as ex:
            res.append((None, f"`{ast.unparse(e)[:60]}`: {ex} is outside the evaluated fragment", e))
    return res
