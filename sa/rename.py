"""Behaviour-preserving source transformation used by the self-test (DESIGN.md section 7, "must stay
silent"): consistently rename the local variables of every function (suffix `_r`).

Scoping comes from the standard `symtable` module.  Only names that are plain locals of a function scope are
renamed: not parameters, not imported, not global/nonlocal, not function/class names, and not names that any
nested scope (nested def, lambda, comprehension) mentions.  The outermost iterable of a comprehension and the
decorators / defaults of nested definitions are evaluated in the enclosing scope and are renamed there.
"""
import ast
import symtable

SUFFIX = "_r"
COMP = (ast.ListComp, ast.SetComp, ast.DictComp, ast.GeneratorExp)


def _all_identifiers(tab):
    out = set()
    for ch in tab.get_children():
        out |= set(ch.get_identifiers())
        out |= _all_identifiers(ch)
    return out


def _nested_names(fnode):
    """every identifier mentioned inside a nested scope of fnode (nested def, class, lambda, comprehension)"""
    out = set()

    def visit(n, inside):
        for c in ast.iter_child_nodes(n):
            nested = inside or isinstance(c, (ast.FunctionDef, ast.AsyncFunctionDef, ast.ClassDef, ast.Lambda) + COMP)
            if nested:
                if isinstance(c, ast.Name):
                    out.add(c.id)
                elif isinstance(c, ast.arg):
                    out.add(c.arg)
                elif isinstance(c, (ast.FunctionDef, ast.AsyncFunctionDef, ast.ClassDef)):
                    out.add(c.name)
            visit(c, nested)

    visit(fnode, False)
    return out


class _Renamer(ast.NodeTransformer):
    def __init__(self, mapping):
        self.mapping = mapping

    # do not enter nested scopes, except for the parts evaluated in this scope
    def visit_FunctionDef(self, node):
        node.decorator_list = [self.visit(d) for d in node.decorator_list]
        node.args.defaults = [self.visit(d) for d in node.args.defaults]
        node.args.kw_defaults = [self.visit(d) if d is not None else None for d in node.args.kw_defaults]
        return node

    visit_AsyncFunctionDef = visit_FunctionDef

    def visit_Lambda(self, node):
        node.args.defaults = [self.visit(d) for d in node.args.defaults]
        return node

    def visit_ClassDef(self, node):
        return node

    def _comp(self, node):
        node.generators[0].iter = self.visit(node.generators[0].iter)
        return node

    visit_ListComp = visit_SetComp = visit_DictComp = visit_GeneratorExp = _comp

    def visit_Name(self, node):
        if node.id in self.mapping:
            node.id = self.mapping[node.id]
        return node

    def visit_MatchAs(self, node):
        self.generic_visit(node)
        if node.name in self.mapping:
            node.name = self.mapping[node.name]
        return node

    def visit_MatchStar(self, node):
        if node.name in self.mapping:
            node.name = self.mapping[node.name]
        return node

    def visit_ExceptHandler(self, node):
        self.generic_visit(node)
        if node.name in self.mapping:
            node.name = self.mapping[node.name]
        return node


def rename_locals(src, filename="<src>"):
    tree = ast.parse(src)
    top = symtable.symtable(src, filename, "exec")
    n_renamed = 0

    def process(node, tab):
        """node: FunctionDef; tab: its symtable"""
        nonlocal n_renamed
        if any(isinstance(n, (ast.Global, ast.Nonlocal)) for n in ast.walk(node)):
            return
        nested_ids = _all_identifiers(tab) | _nested_names(node)
        mapping = {}
        taken = set(tab.get_identifiers()) | nested_ids
        for s in tab.get_symbols():
            name = s.get_name()
            if not s.is_local() or s.is_parameter() or s.is_imported() or s.is_global() or s.is_namespace() or s.is_free():
                continue
            if name in nested_ids or name.startswith("__") or name + SUFFIX in taken:
                continue
            mapping[name] = name + SUFFIX
        if mapping:
            r = _Renamer(mapping)
            node.body = [r.visit(st) for st in node.body]
            n_renamed += len(mapping)

    def walk(nodes, tab):
        """match function / class definition nodes with their child tables by (name, lineno)"""
        children = {}
        for ch in tab.get_children():
            children.setdefault((ch.get_name(), ch.get_lineno()), []).append(ch)
        for node in nodes:
            for sub in ast.walk(node) if not isinstance(node, (ast.FunctionDef, ast.AsyncFunctionDef, ast.ClassDef)) else [node]:
                pass
        # explicit recursive descent keeping the scope
        def descend(n, tab):
            for c in ast.iter_child_nodes(n):
                if isinstance(c, (ast.FunctionDef, ast.AsyncFunctionDef, ast.ClassDef)):
                    line = c.lineno
                    cands = [t for t in tab.get_children() if t.get_name() == c.name and t.get_lineno() in (line, min([d.lineno for d in c.decorator_list] + [line]))]
                    if not cands:
                        continue
                    t = cands[0]
                    # children first (inner scopes are independent)
                    descend(c, t)
                    if isinstance(c, (ast.FunctionDef, ast.AsyncFunctionDef)):
                        process(c, t)
                elif isinstance(c, (ast.Lambda, ) + COMP):
                    continue  # their own scopes hold no renamable function locals
                else:
                    descend(c, tab)
        descend(ast.Module(body=list(nodes), type_ignores=[]), tab)

    walk(tree.body, top)
    return ast.unparse(tree) + "\n", n_renamed
