"""Specification side of C19 (DESIGN.md 4/C19 clause 2): the (function, operator kind)
pairs the property says must work factor by factor ("every linear-algebra function that has
a structural rule for an operator kind (inv, solve, logdet, diag, trace, matrix functions,
cholesky, plu on Kronecker, block-diagonal, diagonal, identity and scalar operators and their
products; exp on Kronecker sums)").  Frozen from the reference tree so that *deleting* a
structural rule is a violation, not a silent shrinking of the rule set."""
REQUIRED = {
    # function: kinds that must be handled without materialising the operator itself
    "inv": ["Identity", "ScalarMul", "Diagonal", "Kronecker", "BlockDiag", "Product"],
    "slogdet": ["Identity", "ScalarMul", "Diagonal", "Kronecker", "BlockDiag", "Product"],
    "diag": ["Identity", "Diagonal", "ScalarMul", "Sum", "BlockDiag", "Kronecker", "KronSum"],
    "trace": ["Kronecker", "Identity", "Diagonal", "ScalarMul", "Sum", "BlockDiag", "KronSum"],  # trace = sum(diag) for the others
    "apply_unary": ["Diagonal", "BlockDiag", "Identity", "ScalarMul", "Transpose", "Adjoint"],
    "exp": ["Diagonal", "BlockDiag", "Identity", "ScalarMul", "KronSum"],
    "log": ["Diagonal", "BlockDiag", "Identity", "ScalarMul"],
    "pow": ["Diagonal", "BlockDiag", "Identity", "ScalarMul", "Kronecker"],
    "sqrt": ["Diagonal", "BlockDiag", "Identity", "ScalarMul", "Kronecker"],
    "isqrt": ["Diagonal", "BlockDiag", "Identity", "ScalarMul", "Kronecker"],
    "cholesky": ["Identity", "Diagonal", "ScalarMul", "Kronecker", "BlockDiag"],
    "plu": ["Identity", "Diagonal", "ScalarMul", "Kronecker", "BlockDiag"],
}
# wrappers that forward to a dispatched function (checked through the same fixpoint)
WRAPPERS = {"solve": "inv", "logdet": "slogdet"}
# conditions under which the structural rule is required (free condition value)
CONDITIONAL = {("inv", "Product"): True, ("slogdet", "Product"): True}  # "products" of square factors
# kinds whose matrix-free product must not materialise the operator (clause 1)
PRODUCT_KINDS = ["Kronecker", "KronSum", "BlockDiag", "Sum", "Product", "Diagonal", "Identity", "ScalarMul", "Permutation", "Tridiagonal"]
# backend functions that build a full matrix from parts / a vector
MATERIALISERS = {"kron": "Kronecker product of dense parts", "block_diag": "dense block diagonal", "eye": "dense identity",
                 "diag": "dense diagonal matrix from a vector"}
