"""Source normal form used by the index: every single-assignment, single-use temporary whose use is in the very next
statement of the same block is inlined (`t = e; return f(t)` -> `return f(e)`).

Checks are written against this normal form, so introducing or removing such temporaries (the most common
behaviour-preserving refactoring) cannot change a verdict.  Moved expression nodes keep their original positions,
so reported locations still point into the file as written.  Names that occur in nested scopes (closures, lambdas,
comprehensions), parameters, multiply-assigned or multiply-read names are never touched, nor are uses inside
compound statements (the temporary may be evaluated a different number of times there)."""
import ast

COMPOUND = (ast.For, ast.AsyncFor, ast.While, ast.If, ast.With, ast.AsyncWith, ast.Try, ast.FunctionDef, ast.AsyncFunctionDef, ast.ClassDef, ast.Match)
SCOPES = (ast.FunctionDef, ast.AsyncFunctionDef, ast.Lambda, ast.ListComp, ast.GeneratorExp, ast.SetComp, ast.DictComp, ast.ClassDef)


def _process_function(fn):
    n = 0
    while True:
        loads, stores = {}, {}
        nested_names = set()

        def scan(node, nested):
            for c in ast.iter_child_nodes(node):
                inner = nested or isinstance(c, SCOPES)
                if isinstance(c, ast.Name):
                    (loads if isinstance(c.ctx, ast.Load) else stores).setdefault(c.id, []).append(c)
                    if inner:
                        nested_names.add(c.id)
                elif isinstance(c, ast.arg):
                    stores.setdefault(c.arg, []).append(c)
                    stores.setdefault(c.arg, []).append(c)  # parameters are never temporaries
                elif isinstance(c, (ast.Global, ast.Nonlocal)):
                    for nm in c.names:
                        stores.setdefault(nm, []).extend([c, c])
                scan(c, inner)
        scan(fn, False)
        changed = False

        def do_block(blk):
            nonlocal n, changed
            i = 0
            while i < len(blk) - 1:
                st, nx = blk[i], blk[i + 1]
                if (isinstance(st, ast.Assign) and len(st.targets) == 1 and isinstance(st.targets[0], ast.Name) and not isinstance(nx, COMPOUND)
                        and not isinstance(st.value, (ast.Lambda, ast.Yield, ast.YieldFrom, ast.Await))):
                    x = st.targets[0].id
                    if len(stores.get(x, [])) == 1 and len(loads.get(x, [])) == 1 and x not in nested_names:
                        use = loads[x][0]
                        if any(y is use for y in ast.walk(nx)) and not (isinstance(nx, ast.AugAssign) and nx.target is use):
                            val = st.value

                            class R(ast.NodeTransformer):
                                def visit_Name(self, node):
                                    return val if node is use else node
                            blk[i + 1] = R().visit(nx)
                            del blk[i]
                            n += 1
                            changed = True
                            # the counts are stale now: restart the scan of the function
                            return True
                i += 1
            for s in blk:
                if isinstance(s, (ast.FunctionDef, ast.AsyncFunctionDef, ast.ClassDef)):
                    continue
                for f in ("body", "orelse", "finalbody"):
                    b = getattr(s, f, None)
                    if isinstance(b, list) and b and isinstance(b[0], ast.stmt) and do_block(b):
                        return True
                if isinstance(s, ast.Try):
                    for h in s.handlers:
                        if do_block(h.body):
                            return True
                if isinstance(s, ast.Match):
                    for c in s.cases:
                        if do_block(c.body):
                            return True
            return False

        do_block(fn.body)
        if not changed:
            return n


def normalise(tree):
    """in place; returns the number of temporaries inlined"""
    total = 0
    for x in ast.walk(tree):
        if isinstance(x, (ast.FunctionDef, ast.AsyncFunctionDef)):
            total += _process_function(x)
    return total
