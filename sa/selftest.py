"""Checker validation (DESIGN.md section 7): placeholder until the mutant corpus is committed."""


def validate_property(pid, jobs=16):
    return 0


def main(args):
    return 0
