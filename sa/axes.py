"""AXES -- abstract interpretation of array-assembly code over *axis labels* (shape analysis with the number of factors unrolled).

The structural diag rules of Kronecker / KronSum build an n-way outer product of the factors' diagonals by indexing and broadcasting
(`d[None, :, None]`, `acc[..., None] * d`, list arithmetic on index tuples, comprehensions, folds).  Whether the flattened result is
the Kronecker (row-major) order is a fact about *where each factor's axis ends up*, independent of any array value.  This module
is an abstract interpreter of the rule's syntax tree: every array is abstracted to the list of its axis labels (factor index, or '1'
for an inserted axis) -- no array, dtype or size exists in the analysis -- and the family `for all n factors` is unrolled to n = 2, 3, 4:

    indexing with None / slice(None) / ...   rearranges the label list (numpy's rules)
    a binary operation                        broadcasts two label lists from the right; two different factors meeting on one axis is a
                                              CONFLICT (they would be combined elementwise instead of as an outer product)
    reshape(-1)                               flattens the labels in order

Python-level structure (ints, lists, tuples, comprehensions, lambdas, reduce, enumerate, zip, range, helper functions of the module) is
evaluated concretely.  Nothing of the repository is executed; an unsupported construct raises Unsupported (-> undecided).
A conflict or a wrong order found for some n is a genuine counterexample (n factors); agreement for n <= 4 is what is proved.
"""
import ast
import operator as _op


class Unsupported(Exception):
    pass


class Arr:
    """an array known by its axis labels; ops = the elementwise operations that combined the factors"""
    def __init__(self, axes, ops=frozenset(), conflict=None):
        self.axes, self.ops, self.conflict = list(axes), frozenset(ops), conflict

    def __repr__(self):
        return f"Arr({self.axes}, {sorted(self.ops)}{', CONFLICT ' + self.conflict if self.conflict else ''})"

    @property
    def ndim(self):
        return len(self.axes)

    @property
    def shape(self):
        return tuple(("n", a) for a in self.axes)

    def index(self, idx):
        if not isinstance(idx, tuple):
            idx = (idx, )
        n_real = sum(1 for i in idx if i is not None and i is not Ellipsis)
        if sum(1 for i in idx if i is Ellipsis) > 1:
            raise Unsupported("two ellipses")
        out, pos = [], 0
        for i in idx:
            if i is None:
                out.append("1")
            elif i is Ellipsis:
                k = len(self.axes) - n_real
                out += self.axes[pos:pos + k]
                pos += k
            elif isinstance(i, slice) and i == slice(None):
                if pos >= len(self.axes):
                    raise Unsupported("too many indices")
                out.append(self.axes[pos])
                pos += 1
            else:
                raise Unsupported(f"index {i!r}")
        out += self.axes[pos:]
        return Arr(out, self.ops, self.conflict)

    def combine(self, other, opname):
        if not isinstance(other, Arr):
            return Arr(self.axes, self.ops, self.conflict)  # scalar
        a, b = list(self.axes), list(other.axes)
        n = max(len(a), len(b))
        a, b = ["1"] * (n - len(a)) + a, ["1"] * (n - len(b)) + b
        out, conflict = [], self.conflict or other.conflict
        for x, y in zip(a, b):
            if x == "1":
                out.append(y)
            elif y == "1" or x == y:
                out.append(x)
            else:
                conflict = conflict or f"factors {x} and {y} share one axis"
                out.append(x)
        return Arr(out, self.ops | other.ops | {opname}, conflict)

    def reshape_flat(self):
        return Arr([a for a in self.axes if a != "1"] if False else list(self.axes), self.ops, self.conflict)


class Factor:
    """an opaque factor operator M_i of the composite"""
    def __init__(self, i):
        self.i = i


class Composite:
    def __init__(self, n):
        self.Ms = tuple(Factor(i) for i in range(n))


class Closure:
    def __init__(self, node, env, ev):
        self.node, self.env, self.ev = node, env, ev

    def __call__(self, *args, **kwargs):
        a = self.node.args
        params = [p.arg for p in a.posonlyargs + a.args]
        if a.vararg or a.kwarg or len(args) > len(params):
            raise Unsupported("call shape")
        env = dict(self.env)
        env.update(zip(params, args))
        env.update(kwargs)
        n_def = len(a.defaults)
        for p, d in zip(params[len(params) - n_def:], a.defaults):
            if p not in env or (p in params[len(args):] and p not in kwargs and p not in dict(zip(params, args))):
                env.setdefault(p, self.ev.ev(d, self.env))
        missing = [p for p in params if p not in env]
        if missing:
            raise Unsupported(f"missing arguments {missing}")
        if isinstance(self.node, ast.Lambda):
            return self.ev.ev(self.node.body, env)
        return self.ev.run(self.node.body, env)


_MISSING = object()


class AxisEval:
    MAX_STEPS = 20000

    def __init__(self, idx, module, factor_fn):
        """factor_fn: name of the dispatched function whose result on factor i is the 1-D array with axis label i"""
        self.idx, self.module, self.factor_fn = idx, module, factor_fn
        self.steps = 0

    # ------------------------------------------------------------------ statements
    def run(self, body, env):
        for st in body:
            self.steps += 1
            if self.steps > self.MAX_STEPS:
                raise Unsupported("step budget")
            if isinstance(st, ast.Expr) and isinstance(st.value, ast.Constant):
                continue
            if isinstance(st, ast.Assert):
                continue
            if isinstance(st, ast.Return):
                return self.ev(st.value, env) if st.value is not None else None
            if isinstance(st, ast.Assign) and len(st.targets) == 1:
                self.bind(st.targets[0], self.ev(st.value, env), env)
                continue
            if isinstance(st, ast.If):
                r = self.run(st.body if self.truth(self.ev(st.test, env)) else st.orelse, env)
                if r is not _MISSING:
                    return r
                continue
            if isinstance(st, (ast.FunctionDef, )):
                env[st.name] = Closure(st, env, self)
                continue
            if isinstance(st, ast.For) and not st.orelse:
                for v in self.iterate(self.ev(st.iter, env)):
                    self.bind(st.target, v, env)
                    r = self.run(st.body, env)
                    if r is not _MISSING:
                        return r
                continue
            if isinstance(st, ast.Expr) and isinstance(st.value, ast.Call):
                self.ev(st.value, env)
                continue
            if isinstance(st, ast.Pass):
                continue
            raise Unsupported(type(st).__name__)
        return _MISSING

    def truth(self, v):
        if isinstance(v, (bool, int)) or v is None:
            return bool(v)
        if isinstance(v, (list, tuple)):
            return bool(v)
        raise Unsupported("truth value of an array expression")

    def bind(self, target, value, env):
        if isinstance(target, ast.Name):
            env[target.id] = value
        elif isinstance(target, (ast.Tuple, ast.List)):
            vals = list(self.iterate(value))
            if any(isinstance(t, ast.Starred) for t in target.elts) or len(vals) != len(target.elts):
                raise Unsupported("unpacking")
            for t, v in zip(target.elts, vals):
                self.bind(t, v, env)
        else:
            raise Unsupported("assignment target")

    def iterate(self, v):
        if isinstance(v, (list, tuple, range)):
            return list(v)
        raise Unsupported(f"iteration over {type(v).__name__}")

    # ------------------------------------------------------------------ expressions
    def ev(self, e, env):
        self.steps += 1
        if self.steps > self.MAX_STEPS:
            raise Unsupported("step budget")
        if isinstance(e, ast.Constant):
            return e.value
        if isinstance(e, ast.Name):
            if e.id in env:
                return env[e.id]
            return self.global_name(e.id)
        if isinstance(e, (ast.List, ast.Tuple)):
            out = []
            for x in e.elts:
                if isinstance(x, ast.Starred):
                    out += list(self.iterate(self.ev(x.value, env)))
                else:
                    out.append(self.ev(x, env))
            return out if isinstance(e, ast.List) else tuple(out)
        if isinstance(e, ast.UnaryOp):
            v = self.ev(e.operand, env)
            if isinstance(e.op, ast.USub) and isinstance(v, int):
                return -v
            if isinstance(e.op, ast.Not):
                return not self.truth(v)
            if isinstance(v, Arr):
                return v
            raise Unsupported("unary")
        if isinstance(e, ast.BinOp):
            return self.binop(e.op, self.ev(e.left, env), self.ev(e.right, env))
        if isinstance(e, ast.Compare) and len(e.ops) == 1:
            l, r = self.ev(e.left, env), self.ev(e.comparators[0], env)
            if isinstance(l, Arr) or isinstance(r, Arr):
                raise Unsupported("array comparison")
            fn = {ast.Eq: _op.eq, ast.NotEq: _op.ne, ast.Lt: _op.lt, ast.LtE: _op.le, ast.Gt: _op.gt, ast.GtE: _op.ge, ast.Is: _op.is_, ast.IsNot: _op.is_not}.get(type(e.ops[0]))
            if fn is None:
                raise Unsupported("comparison")
            return fn(l, r)
        if isinstance(e, ast.BoolOp):
            vals = [self.truth(self.ev(v, env)) for v in e.values]
            return all(vals) if isinstance(e.op, ast.And) else any(vals)
        if isinstance(e, ast.IfExp):
            return self.ev(e.body if self.truth(self.ev(e.test, env)) else e.orelse, env)
        if isinstance(e, ast.Lambda):
            return Closure(e, env, self)
        if isinstance(e, (ast.ListComp, ast.GeneratorExp)):
            out = []
            self.comp(e.generators, 0, dict(env), lambda en: out.append(self.ev(e.elt, en)))
            return out
        if isinstance(e, ast.Subscript):
            base = self.ev(e.value, env)
            idx = self.index_value(e.slice, env)
            if isinstance(base, Arr):
                return base.index(idx)
            if isinstance(base, (list, tuple)) and isinstance(idx, (int, slice)):
                return base[idx]
            raise Unsupported("subscript")
        if isinstance(e, ast.Attribute):
            base = self.ev(e.value, env) if not (isinstance(e.value, ast.Name) and e.value.id in ("operator", "np", "xnp", "functools") and e.value.id not in env) else ("module", e.value.id)
            if isinstance(base, tuple) and len(base) == 2 and base[0] == "module":
                if base[1] == "operator" and e.attr in ("mul", "add"):
                    return ("opfn", e.attr)
                if base[1] == "functools" and e.attr == "reduce":
                    return ("builtin", "reduce")
                raise Unsupported(f"{base[1]}.{e.attr}")
            if isinstance(base, Composite) and e.attr == "Ms":
                return base.Ms
            if isinstance(base, Arr) and e.attr == "ndim":
                return base.ndim
            if isinstance(base, Arr) and e.attr in ("reshape", ):
                return ("method", base, e.attr)
            if isinstance(base, (Composite, Factor)) and e.attr in ("xnp", "dtype", "device", "shape"):
                return ("opaque", e.attr)
            if isinstance(base, tuple) and base and base[0] == "opaque":
                return ("opaque", e.attr)
            raise Unsupported(f".{e.attr}")
        if isinstance(e, ast.Call):
            return self.call(e, env)
        if isinstance(e, ast.Slice):
            return self.index_value(e, env)
        raise Unsupported(type(e).__name__)

    def comp(self, gens, k, env, emit):
        if k == len(gens):
            emit(env)
            return
        g = gens[k]
        for v in self.iterate(self.ev(g.iter, env)):
            en = dict(env)
            self.bind(g.target, v, en)
            if all(self.truth(self.ev(c, en)) for c in g.ifs):
                self.comp(gens, k + 1, en, emit)

    def index_value(self, s, env):
        if isinstance(s, ast.Slice):
            lo = self.ev(s.lower, env) if s.lower is not None else None
            hi = self.ev(s.upper, env) if s.upper is not None else None
            st = self.ev(s.step, env) if s.step is not None else None
            return slice(lo, hi, st)
        if isinstance(s, ast.Tuple):
            return tuple(self.index_value(x, env) for x in s.elts)
        v = self.ev(s, env)
        if isinstance(v, list):
            raise Unsupported("list used as an index")
        return v

    def binop(self, op, l, r):
        name = {ast.Mult: "mul", ast.Add: "add", ast.Sub: "sub", ast.Div: "div", ast.FloorDiv: "floordiv", ast.Mod: "mod"}.get(type(op))
        if name is None:
            raise Unsupported("operator")
        if isinstance(l, Arr) or isinstance(r, Arr):
            if name not in ("mul", "add"):
                raise Unsupported(f"array {name}")
            if isinstance(l, Arr):
                return l.combine(r, name)
            return r.combine(l, name)
        if isinstance(l, (int, list, tuple)) and isinstance(r, (int, list, tuple)) and not (isinstance(l, bool) or isinstance(r, bool)):
            try:
                return {"mul": _op.mul, "add": _op.add, "sub": _op.sub, "floordiv": _op.floordiv, "mod": _op.mod}[name](l, r)
            except (KeyError, TypeError, ZeroDivisionError):
                raise Unsupported("arithmetic")
        raise Unsupported("arithmetic")

    def global_name(self, name):
        if name in ("len", "range", "enumerate", "zip", "tuple", "list", "slice", "sum", "reversed", "reduce", "max", "min", "abs"):
            return ("builtin", name)
        if name in ("None", ):
            return None
        if name == "Ellipsis":
            return Ellipsis
        r = self.idx.resolve_name(self.module, name, None)
        if r is not None and r.kind == "funcs":
            fi = r.val[-1]
            if getattr(fi, "rule", None) is not None or name in self.idx.rules:
                return ("dispatch", name)
            return Closure(fi.node, {}, self)
        if r is not None and r.kind == "external" and str(r.val).endswith("reduce"):
            return ("builtin", "reduce")
        if r is not None and r.kind == "external" and str(r.val) in ("operator.mul", "operator.add"):
            return ("opfn", str(r.val).rsplit(".", 1)[1])
        if r is not None and r.kind == "external" and str(r.val) in ("operator", "functools"):
            return ("module", str(r.val))
        raise Unsupported(f"name {name}")

    def apply(self, f, args, kwargs=None):
        kwargs = kwargs or {}
        if isinstance(f, Closure):
            r = f(*args, **kwargs)
            return None if r is _MISSING else r
        if isinstance(f, tuple) and f and f[0] == "opfn":
            return self.binop(ast.Mult() if f[1] == "mul" else ast.Add(), args[0], args[1])
        if isinstance(f, tuple) and f and f[0] == "builtin":
            return self.builtin(f[1], args, kwargs)
        raise Unsupported("callee")

    def builtin(self, name, args, kwargs):
        if name == "len":
            return len(self.iterate(args[0]))
        if name == "range":
            return list(range(*args))
        if name == "enumerate":
            return [(i, v) for i, v in enumerate(self.iterate(args[0]), *(args[1:2]))]
        if name == "zip":
            return [tuple(t) for t in zip(*[self.iterate(a) for a in args])]
        if name in ("tuple", "list"):
            v = self.iterate(args[0]) if args else []
            return tuple(v) if name == "tuple" else list(v)
        if name == "reversed":
            return list(reversed(self.iterate(args[0])))
        if name == "slice":
            return slice(*args)
        if name == "sum":
            items = self.iterate(args[0])
            acc = args[1] if len(args) > 1 else 0
            for v in items:
                acc = v if (isinstance(acc, int) and acc == 0 and isinstance(v, Arr)) else self.binop(ast.Add(), acc, v)
            return acc
        if name == "reduce":
            items = self.iterate(args[1])
            if len(args) > 2:
                acc, rest = args[2], items
            else:
                if not items:
                    raise Unsupported("reduce of empty")
                acc, rest = items[0], items[1:]
            for v in rest:
                acc = self.apply(args[0], [acc, v])
            return acc
        if name in ("max", "min", "abs"):
            return {"max": max, "min": min, "abs": abs}[name](*args)
        raise Unsupported(name)

    def call(self, c, env):
        if any(isinstance(a, ast.Starred) for a in c.args):
            args = []
            for a in c.args:
                if isinstance(a, ast.Starred):
                    args += list(self.iterate(self.ev(a.value, env)))
                else:
                    args.append(self.ev(a, env))
        else:
            args = [self.ev(a, env) for a in c.args]
        kwargs = {k.arg: self.ev(k.value, env) for k in c.keywords if k.arg}
        f = c.func
        # the recursive structural call on a factor: a 1-D array on that factor's own axis
        if isinstance(f, ast.Name) and f.id == self.factor_fn and f.id not in env and args and isinstance(args[0], Factor):
            return Arr([args[0].i])
        if isinstance(f, ast.Attribute):
            base = None
            if f.attr == "reshape":
                base = self.ev(f.value, env)
                if isinstance(base, Arr) and (args == [-1] or args == [(-1, )]):
                    return base.reshape_flat()
                raise Unsupported("reshape")
            if f.attr in ("ravel", "flatten"):
                base = self.ev(f.value, env)
                if isinstance(base, Arr):
                    return base.reshape_flat()
        fv = self.ev(f, env)
        if isinstance(fv, tuple) and fv and fv[0] == "dispatch":
            if fv[1] == self.factor_fn and args and isinstance(args[0], Factor):
                return Arr([args[0].i])
            raise Unsupported(f"dispatch call {fv[1]}")
        return self.apply(fv, args, kwargs)


def outer_order(idx, rule, factor_fn="diag", sizes=(2, 3, 4)):
    """-> list of (n, Arr | None, problem text | None) for the structural rule evaluated with n factors"""
    fi = rule.func
    out = []
    for n in sizes:
        ev = AxisEval(idx, fi.module, factor_fn)
        env = {}
        for i, (p, _types, _d) in enumerate(rule.params):
            env[p] = Composite(n) if i == 0 else (0 if i == 1 else ("opaque", p))
        try:
            r = ev.run(fi.node.body, env)
            if r is _MISSING or not isinstance(r, Arr):
                out.append((n, None, f"the rule does not evaluate to an array ({type(r).__name__})"))
            else:
                out.append((n, r, None))
        except Unsupported as e:
            out.append((n, None, f"outside the interpreted fragment: {e}"))
        except RecursionError:
            out.append((n, None, "recursion"))
    return out
